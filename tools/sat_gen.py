"""Generators of sat_core operation histories for C07 / C08 (line protocol of harness/h_sat.cpp).

A history is a list of command lines starting with "reset".  Literals are lit.h indexes (2*var+sign); variable 0
is the FALSE constant, user variables are 1..n.  Preconditions are NOT enforced here: both sides answer "skip"
for an operation whose precondition fails (and that answer is compared too), so the generator only has to make
skips rare: it follows a phase structure (root phase: variables + clauses; search phase: assume / propagate /
pop / next / check; back to root: simplify_db, more clauses; ...).
"""


def L(v, s):
    return 2 * v + (1 if s else 0)


def rand_clause(rng, n, k):
    vs = rng.sample(range(1, n + 1), min(k, n))
    return [L(v, rng.random() < 0.5) for v in vs]


def fam_3cnf(rng, n):
    m = int(round(4.26 * n)) + rng.randint(-3, 3)
    return [rand_clause(rng, n, 3) for _ in range(max(1, m))]


def fam_mixed(rng, n):
    m = int(round(rng.uniform(1.5, 3.5) * n))
    return [rand_clause(rng, n, rng.choice([2, 2, 3, 3, 3, 4, 5])) for _ in range(m)]


def fam_php(rng, n_unused):
    """pigeonhole fragment: p pigeons, h holes (h < p usually), possibly with some clauses dropped"""
    h = rng.randint(2, 3)
    p = h + rng.choice([0, 1, 1])
    x = lambda i, j: 1 + i * h + j
    cl = [[L(x(i, j), True) for j in range(h)] for i in range(p)]
    for j in range(h):
        for i in range(p):
            for k in range(i + 1, p):
                cl.append([L(x(i, j), False), L(x(k, j), False)])
    if rng.random() < 0.3:
        cl.pop(rng.randrange(len(cl)))
    rng.shuffle(cl)
    return p * h, cl


def fam_chain(rng, n):
    """long implication chains x1 -> x2 -> ... plus a few clauses closing them into conflicts"""
    order = list(range(1, n + 1))
    rng.shuffle(order)
    cl = []
    for a, b in zip(order, order[1:]):
        sa, sb = rng.random() < 0.8, rng.random() < 0.8
        cl.append([L(a, not sa), L(b, sb)])
    for _ in range(rng.randint(1, 4)):
        a, b = rng.sample(order, 2)
        cl.append([L(a, rng.random() < 0.5), L(b, rng.random() < 0.5)])
    for _ in range(rng.randint(0, 3)):
        cl.append(rand_clause(rng, n, 3))
    return cl


def fam_dup(rng, n):
    """duplicated / complementary literals, literals over the constant variable 0, unit and empty clauses"""
    cl = []
    for _ in range(int(2.5 * n)):
        c = rand_clause(rng, n, rng.choice([1, 2, 3, 3, 4]))
        r = rng.random()
        if r < 0.25 and c:
            c.append(rng.choice(c))               # duplicate
        elif r < 0.40 and c:
            c.append(rng.choice(c) ^ 1)           # complementary -> tautology
        elif r < 0.55:
            c.append(rng.choice([0, 1, 1, 1]))    # TRUE_lit (0) / FALSE_lit (1)
        elif r < 0.60:
            c = c + c
        rng.shuffle(c)
        cl.append(c)
    if rng.random() < 0.15:
        cl.append([])
    if rng.random() < 0.3:
        cl.append([1])                            # the FALSE literal alone
    return cl


def fam_long(rng, n):
    """a few long clauses (exercise the watch search and the >16-element std::sort in new_clause)"""
    cl = [rand_clause(rng, n, rng.randint(5, min(n, 22))) for _ in range(rng.randint(2, 6))]
    cl += [rand_clause(rng, n, 2) for _ in range(n)]
    return cl


class Crash(Exception):
    """the driven harness died; carries the history so far (the last line is the fatal operation)"""

    def __init__(self, family, lines, answers):
        Exception.__init__(self, "harness died on: " + (lines[-1] if lines else "?"))
        self.family, self.lines, self.answers = family, lines, answers


class Driver:
    """Line-interactive access to a harness (used to steer the generation by the implementation's own state)."""

    def __init__(self, exe, args=()):
        import subprocess
        self.p = subprocess.Popen([exe] + list(args), stdin=subprocess.PIPE, stdout=subprocess.PIPE, stderr=subprocess.DEVNULL,
                                  text=True, bufsize=1)

    def send(self, cmd):
        self.p.stdin.write(cmd + "\n")
        self.p.stdin.flush()
        line = self.p.stdout.readline()
        if not line:
            raise EOFError("harness died on: " + cmd)
        return line.rstrip("\n")

    def close(self):
        try:
            self.p.stdin.close()
            self.p.wait(timeout=5)
        except Exception:
            self.p.kill()


def parse(line):
    d = {}
    for tok in line.split(" "):
        if "=" in tok:
            k, v = tok.split("=", 1)
            d[k] = v
    return d


FAMILIES = ["3cnf", "mixed", "php", "chain", "dup", "long", "nextcheck", "deep", "hard", "probe", "probe"]
WEIGHTS = {
    "hard": dict(a=80, p=1, o=2, n=9, k=5, c=1, s=2),
    "3cnf": dict(a=55, p=4, o=12, n=8, k=9, c=3, s=4),
    "mixed": dict(a=55, p=4, o=12, n=8, k=9, c=3, s=4),
    "php": dict(a=60, p=3, o=10, n=10, k=10, c=2, s=3),
    "chain": dict(a=50, p=5, o=18, n=6, k=12, c=3, s=3),
    "dup": dict(a=45, p=6, o=15, n=6, k=10, c=10, s=6),
    "long": dict(a=60, p=3, o=12, n=8, k=10, c=3, s=4),
    "nextcheck": dict(a=32, p=2, o=6, n=30, k=28, c=1, s=1),
    "deep": dict(a=78, p=2, o=3, n=8, k=6, c=1, s=2),
    # the probe theory of harness/h_sat.cpp: T = declare a theory clause (tc), X = raise a conflict from outside propagation (tx)
    "probe": dict(a=50, p=3, o=10, n=6, k=8, c=2, s=2, T=9, X=10),
    # not in FAMILIES (used by tools/c18_net.py): simplify_db interleaved with assume / pop; an `s` drawn above root level pops
    # down to root first, so that clauses satisfied by learnt units / root propagation are removed and their literals met again
    "simp": dict(a=42, p=3, o=18, n=5, k=5, c=7, s=20),
    "learnsimp": dict(a=62, p=2, o=8, n=8, k=4, c=2, s=14),
}
SIMP_FAMILIES = ("simp", "learnsimp")


def instance(rng, family):
    n = rng.randint(4, 14)
    if family == "php":
        n, clauses = fam_php(rng, n)
    elif family == "3cnf":
        clauses = fam_3cnf(rng, n)
    elif family == "mixed":
        clauses = fam_mixed(rng, n)
    elif family == "chain":
        n = rng.randint(8, 30)
        clauses = fam_chain(rng, n)
    elif family == "dup":
        clauses = fam_dup(rng, n)
    elif family == "long":
        n = rng.randint(18, 26)
        clauses = fam_long(rng, n)
    elif family == "deep":
        n = rng.randint(14, 24)
        clauses = fam_mixed(rng, n)
    elif family == "hard":
        n = rng.randint(16, 40)
        clauses = fam_3cnf(rng, n)
    elif family == "learnsimp":
        n = rng.randint(8, 18)
        clauses = fam_3cnf(rng, n) + [rand_clause(rng, n, 2) for _ in range(n // 2)]
    elif family == "probe":
        n = rng.randint(5, 12)
        clauses = [rand_clause(rng, n, rng.choice([1, 2, 2, 3, 3])) for _ in range(rng.randint(n // 2, 2 * n))]
    else:
        clauses = fam_3cnf(rng, n) if rng.random() < 0.6 else fam_mixed(rng, n)
    return n, clauses


def external_conflict(rng, st, k=None, all_root=False):
    """A clause whose literals are all false now, for tx: its highest level is k levels below the current one (k = 0: a literal of
    the current level; all_root: only level-0 literals - FALSE_lit and the negations of the root facts).  None if there is none."""
    vals, lvl = st["vals"], int(st["lvl"])
    lev = [int(x) for x in st["lev"].split(",")] if st.get("lev") else []
    false_at = {}
    for v in range(1, min(len(vals), len(lev))):
        if vals[v] != "U":
            false_at.setdefault(lev[v], []).append(L(v, vals[v] == "F"))
    false_at.setdefault(0, []).append(1)        # FALSE_lit
    if all_root:
        h = 0
    else:
        if k is None:
            k = rng.choice([0, 0, 1, 1, 2])
        h = max(0, lvl - k)
    top = false_at.get(h)
    if not top:
        return None
    if h == 0 and len(top) > 1 and rng.random() < 0.8:
        top = [l for l in top if l != 1]          # prefer a real root fact to the constant
    cl = [rng.choice(top)]
    lower = [l for hh, ls in false_at.items() if hh <= h for l in ls if l not in cl and l != 1]
    for _ in range(rng.choice([0, 1, 1, 2])):
        if lower:
            x = rng.choice(lower)
            lower.remove(x)
            cl.append(x)
    rng.shuffle(cl)
    return cl


def history(rng, drv, family=None, target_ops=None, unsteered=0.04):
    """One history, steered by the answers of the driver `drv` (a harness running the implementation): decisions are
    taken on unassigned variables, pop only above root, clauses / simplify_db only at root, the history ends when the
    network is definitely inconsistent.  A fraction `unsteered` of the operations ignores the state on purpose (both
    sides must then agree on "skip").  Returns (family, lines, answers)."""
    family = family or rng.choice(FAMILIES)
    n, clauses = instance(rng, family)
    target = target_ops or rng.randint(30, 300)
    w = WEIGHTS[family]
    lines, answers = [], []
    dead = [False]

    def do(cmd):
        try:
            a = drv.send(cmd)
        except (EOFError, BrokenPipeError, OSError):
            lines.append(cmd)
            raise Crash(family, lines, answers)
        lines.append(cmd)
        answers.append(a)
        st = parse(a)
        op = cmd[0]
        if st.get("rc") == "0" and st.get("lvl") == "0" and (op in "cpasn" or cmd.startswith("tx")):
            dead[0] = True
        return st

    st = do("reset")
    for _ in range(n):
        st = do("v")
    held = []
    for c in clauses:
        if dead[0]:
            break
        if rng.random() < 0.12:
            held.append(c)
            continue
        st = do("c " + " ".join(map(str, c)))
        if rng.random() < 0.1 and not dead[0]:
            st = do("p")
    if not dead[0] and rng.random() < 0.9:
        st = do("p")
    ops = "apoknsc" + ("TX" if family == "probe" else "")
    ww = [w[o] for o in ops]
    if family == "probe":
        target = target_ops or rng.randint(25, 120)
        for _ in range(rng.randint(2, 7)):          # theory clauses known from the start
            if not dead[0]:
                st = do("tc %d %s" % (rng.choice([0, 1, 1, 1, 2]), " ".join(map(str, rand_clause(rng, n, rng.choice([2, 2, 3, 3, 4]))))))
    end_all_root = family == "probe" and rng.random() < 0.5
    prev_rc0_check = False
    while len(lines) < target and not dead[0]:
        vals, lvl, q = st["vals"], int(st["lvl"]), int(st["q"])
        o = rng.choices(ops, ww)[0]
        steer = rng.random() >= unsteered
        free = [v for v in range(1, len(vals)) if vals[v] == "U"]
        if steer:
            if q > 0 and o not in "ps" and not (o == "c" and lvl == 0 and rng.random() < 0.5):
                o = "p"
            elif o == "a" and not free:
                o = rng.choice("onk") if lvl > 0 else rng.choice("ksc")
            elif o == "o" and lvl == 0:
                o = "a" if free else "k"
            elif o == "s" and lvl > 0 and family in SIMP_FAMILIES and q == 0:
                while int(st["lvl"]) > 0 and st.get("rc") != "skip":
                    st = do("o")
            elif o in "sc" and lvl > 0:
                o = rng.choice("ao") if free else "o"
            elif o == "n" and lvl == 0:
                o = "a" if free else "k"
        if o == "T":
            st = do("tc %d %s" % (rng.choice([0, 1, 1, 2]), " ".join(map(str, rand_clause(rng, len(vals) - 1, rng.choice([2, 2, 3, 4]))))))
        elif o == "X":
            if q > 0:
                st = do("p")
            else:
                if end_all_root and lvl >= 1 and len(lines) > 0.6 * target:
                    cl = external_conflict(rng, st, all_root=True)
                else:
                    cl = external_conflict(rng, st)
                if cl and not (steer and cl == [1] and rng.random() < 0.8):
                    st = do("tx " + " ".join(map(str, cl)))
                else:
                    st = do("p")
        elif o == "a":
            v = rng.choice(free) if (steer and free) else rng.randint(1, len(vals) - 1)
            st = do("a %d" % L(v, rng.random() < 0.5))
        elif o == "k":
            k = rng.choice([1, 1, 2, 2, 3, 4])
            pool = free if (free and rng.random() < 0.7) else list(range(1, len(vals)))
            vs = rng.sample(pool, min(k, len(pool)))
            st = do("k " + " ".join(str(L(v, rng.random() < 0.5)) for v in vs))
            # a check that answered false at root level may have found the network inconsistent: the drivers then skip everything
        elif o == "c":
            if held and rng.random() < 0.6:
                c = held.pop()
            else:
                c = rand_clause(rng, len(vals) - 1, rng.choice([1, 2, 3, 3]))
            st = do("c " + " ".join(map(str, c)))
        elif o == "s":
            st = do("s")
            if not dead[0] and rng.random() < 0.15:
                st = do("v")
        else:
            st = do(o)
        if st.get("rc") == "skip" and steer:
            # a steered operation was skipped: either next()'s own precondition, or the network is dead after a check()
            st = do("p")
            if st.get("rc") == "skip":
                break
    return family, lines, answers
