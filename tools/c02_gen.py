"""C02: generator of RIDDLE problems around the feasibility boundary.

A problem is kept in ONE internal representation from which both the RIDDLE text given to the planner and the
s-expression given to the reference procedure (oracle/c02_main.ml, extracted from coq/plan/RefSolve.v) are printed.

  form  ::= ('b', name) | ('cmp', op, lin)        -- lin op 0,  op in lt le eq ne ge gt,  lin = ({var: Fraction}, Fraction)
          | ('not', f) | ('and', [f..]) | ('or', [f..]) | ('xor', [f..]) | ('imp', f, g) | ('iff', f, g) | ('neq', f, g)
  stmt  ::= ('c', form) | ('disj', [[stmt..], ..]) | ('decl', type, name)
  problem = {'decls': [(type, name)], 'stmts': [stmt..]}          type in bool / real / int

The printer knows the quirks of riddle_parser.cpp (all of < <= >= > -> | & ^ share one precedence level and associate
to the left, == and != bind weakest, a parenthesis must be followed by an identifier) and parenthesises accordingly.
"""
import zlib
from fractions import Fraction as Fr

MIRROR = {'lt': 'gt', 'le': 'ge', 'eq': 'eq', 'ne': 'ne', 'ge': 'le', 'gt': 'lt'}
SYM = {'lt': '<', 'le': '<=', 'eq': '==', 'ne': '!=', 'ge': '>=', 'gt': '>'}
NEGOP = {'lt': 'ge', 'le': 'gt', 'eq': 'ne', 'ne': 'eq', 'ge': 'lt', 'gt': 'le'}


# ------------------------------------------------------------------------------------------------
# semantics (python Fractions): used for planted models and to re-check the models of the reference procedure
# ------------------------------------------------------------------------------------------------
def lin_val(lin, M):
    terms, k = lin
    return sum((c * M[x] for x, c in terms.items()), Fr(0)) + k


def cmp_val(op, q):
    return {'lt': q < 0, 'le': q <= 0, 'eq': q == 0, 'ne': q != 0, 'ge': q >= 0, 'gt': q > 0}[op]


def ev(f, M):
    k = f[0]
    if k == 'b':
        return M[f[1]]
    if k == 'cmp':
        return cmp_val(f[1], lin_val(f[2], M))
    if k == 'xx':
        return cmp_val(f[2], Fr(0))
    if k == 'eeq':
        return M[f[1]] == M[f[2]]
    if k == 'ene':
        return M[f[1]] != M[f[2]]
    if k == 'not':
        return not ev(f[1], M)
    if k == 'and':
        return all(ev(g, M) for g in f[1])
    if k == 'or':
        return any(ev(g, M) for g in f[1])
    if k == 'xor':
        return sum(1 for g in f[1] if ev(g, M)) == 1
    if k == 'imp':
        return (not ev(f[1], M)) or ev(f[2], M)
    if k == 'iff':
        return ev(f[1], M) == ev(f[2], M)
    if k == 'neq':
        return ev(f[1], M) != ev(f[2], M)
    raise ValueError(k)


def ev_stmt(s, M):
    if s[0] == 'c':
        return ev(s[1], M)
    if s[0] == 'disj':
        return any(all(ev_stmt(t, M) for t in body) for body in s[1])
    return True  # decl


def ev_problem(p, M):
    return all(ev_stmt(s, M) for s in p['stmts'])


def all_decls(p):
    out = list(p['decls'])

    def walk(stmts):
        for s in stmts:
            if s[0] == 'decl':
                out.append((s[1], s[2]))
            elif s[0] == 'disj':
                for b in s[1]:
                    walk(b)
    walk(p['stmts'])
    return out


def count_atoms(p):
    n = [0]

    def wf(f):
        if f[0] in ('b', 'cmp', 'xx', 'eeq', 'ene'):
            n[0] += 1
        elif f[0] == 'not':
            wf(f[1])
        elif f[0] in ('and', 'or', 'xor'):
            for g in f[1]:
                wf(g)
        else:
            wf(f[1])
            wf(f[2])

    def ws(stmts):
        for s in stmts:
            if s[0] == 'c':
                wf(s[1])
            elif s[0] == 'disj':
                for b in s[1]:
                    ws(b)
    ws(p['stmts'])
    return n[0]


# ------------------------------------------------------------------------------------------------
# RIDDLE printer
# ------------------------------------------------------------------------------------------------
def num(q, as_int):
    q = Fr(q)
    if as_int and q.denominator == 1:
        return str(q.numerator)
    if q.denominator == 1:
        return "%d.0" % q.numerator
    return "%d.0/%d.0" % (q.numerator, q.denominator)


def p_side(terms, k, types, first_must_be_var):
    """terms: list of (var, coef) in print order; k constant. Returns text. When first_must_be_var the first token is an
    identifier (the caller guarantees a positive first coefficient)."""
    all_int = all(types.get(x) == 'int' and c.denominator == 1 for x, c in terms) and Fr(k).denominator == 1 and bool(terms)
    out = ""
    for i, (x, c) in enumerate(terms):
        a = abs(c)
        t = x if a == 1 else "%s*%s" % (x, num(a, all_int))
        if i == 0:
            if c < 0:
                assert not first_must_be_var
                out = "-" + t
            else:
                out = t
        else:
            out += (" + " if c > 0 else " - ") + t
    if not terms:
        if k < 0:
            return "-" + num(-k, False)
        return num(k, False)
    if k != 0:
        out += (" + " if k > 0 else " - ") + num(abs(k), all_int)
    return out


def p_cmp(f, types, style):
    """bare text of  lin op 0  as  lhs OP rhs  with lhs starting with an identifier. style: a small int choosing how the
    terms are distributed (part of the equivalence-class transformations)."""
    op, (terms, k) = f[1], f[2]
    items = sorted(terms.items())
    items = [(x, c) for x, c in items if c != 0]
    if not items:
        # constant atom: print  k OP 0  with literals only (never used where an identifier must come first)
        return None
    # the head must have a positive coefficient; otherwise multiply by -1
    pos = [i for i, (x, c) in enumerate(items) if c > 0]
    if not pos:
        items = [(x, -c) for x, c in items]
        k = -k
        op = MIRROR[op]
        pos = list(range(len(items)))
    h = pos[style % len(pos)]
    head = items[h]
    rest = items[:h] + items[h + 1:]
    lhs = [head]
    rhs = []
    for j, (x, c) in enumerate(rest):
        if (style >> (j + 1)) & 1:
            lhs.append((x, c))
        else:
            rhs.append((x, -c))
    const_left = (style >> 5) & 1 and k != 0
    lt = p_side(lhs, k if const_left else 0, types, True)
    rt = p_side(rhs, 0 if const_left else -k, types, False)
    return "%s %s %s" % (lt, SYM[op], rt)


def startable(f):
    """can be printed with an identifier as its first token (what must follow an opening parenthesis)"""
    return f[0] in ('b', 'xx', 'eeq', 'ene') or (f[0] == 'cmp' and any(c != 0 for c in f[2][0].values()))


def simple(f):
    """startable, and may be followed by | & ^ -> on the same level: an  ==  /  !=  atom may not, because the parser reads
    the right-hand side of == with the precedence of the boolean operators (x == y | b  is  x == (y | b))"""
    if f[0] == 'b':
        return True
    if f[0] == 'xx':
        return f[2] not in ('eq', 'ne')
    return f[0] == 'cmp' and f[1] not in ('eq', 'ne') and any(c != 0 for c in f[2][0].values())


class Printer:
    def __init__(self, types, style_of=None):
        self.types = types
        self.style_of = style_of or (lambda f: 0)

    def cmp(self, f):
        if f[0] == 'xx':                       # the tautology  x OP x
            return "%s %s %s" % (f[1], SYM[f[2]], f[1])
        if f[0] in ('eeq', 'ene'):             # (dis)equality of two enum variables
            return "%s %s %s" % (f[1], "==" if f[0] == 'eeq' else "!=", f[2])
        t = p_cmp(f, self.types, self.style_of(f))
        if t is None:
            op, (_, k) = f[1], f[2]
            return "%s %s 0.0" % (num(k, False) if k >= 0 else "-" + num(-k, False), SYM[op])
        return t

    def unary(self, g):
        if g[0] == 'b':
            return g[1]
        if g[0] == 'not':
            return "!" + self.unary(g[1])
        return "(" + self.inner(g) + ")"

    def operand(self, f):
        if f[0] == 'b':
            return f[1]
        if f[0] == 'not':
            return "!" + self.unary(f[1])
        return "(" + self.inner(f) + ")"

    def inner(self, f):
        """text that starts with an identifier (goes right after an opening parenthesis)"""
        k = f[0]
        if k == 'b':
            return f[1]
        if k in ('cmp', 'xx', 'eeq', 'ene'):
            assert startable(f), "constant atom inside parentheses"
            return self.cmp(f)
        if k in ('and', 'or', 'xor'):
            ops = list(f[1])
            i = next(j for j, g in enumerate(ops) if simple(g))
            ops = [ops[i]] + ops[:i] + ops[i + 1:]
            sym = {'and': ' & ', 'or': ' | ', 'xor': ' ^ '}[k]
            return sym.join([self.inner(ops[0])] + [self.operand(g) for g in ops[1:]])
        if k == 'imp':
            assert simple(f[1])
            return self.inner(f[1]) + " -> " + self.operand(f[2])
        if k in ('iff', 'neq'):
            a, b = f[1], f[2]
            if not startable(a):
                a, b = b, a
            assert startable(a)
            return self.inner(a) + (" == " if k == 'iff' else " != ") + self.operand(b)
        raise ValueError("cannot start with an identifier: %r" % (f,))

    def first(self, f, followed_by_operator=True):
        """first operand of a statement of the compilation unit: riddle_parser.cpp::parse() only starts a statement at an
        identifier, `!`, `{`, a type keyword, fact / goal or a literal -- never at `(`"""
        if f[0] == 'b':
            return f[1]
        if f[0] in ('cmp', 'xx', 'eeq', 'ene') and (simple(f) if followed_by_operator else startable(f)):
            return self.cmp(f)
        if f[0] == 'not':
            return "!" + self.unary(f[1])
        return "!!(" + self.inner(f) + ")" if self.can_inner(f) else "!!" + self.operand(f)

    def can_inner(self, f):
        k = f[0]
        if k in ('b',):
            return True
        if k in ('cmp', 'xx', 'eeq', 'ene'):
            return startable(f)
        if k in ('and', 'or', 'xor'):
            return any(simple(g) for g in f[1])
        if k == 'imp':
            return simple(f[1])
        if k in ('iff', 'neq'):
            return startable(f[1]) or startable(f[2])
        return False

    def top(self, f):
        k = f[0]
        if k == 'b':
            return f[1]
        if k in ('cmp', 'xx', 'eeq', 'ene'):
            return self.cmp(f)
        if k == 'not':
            return "!" + self.unary(f[1])
        if k in ('and', 'or', 'xor'):
            sym = {'and': ' & ', 'or': ' | ', 'xor': ' ^ '}[k]
            ops = list(f[1])
            i = next((j for j, g in enumerate(ops) if simple(g) or g[0] == 'not'), 0)
            ops = [ops[i]] + ops[:i] + ops[i + 1:]
            return sym.join([self.first(ops[0])] + [self.operand(g) for g in ops[1:]])
        if k == 'imp':
            return self.first(f[1]) + " -> " + self.operand(f[2])
        if k in ('iff', 'neq'):
            return self.first(f[1], followed_by_operator=False) + (" == " if k == 'iff' else " != ") + self.operand(f[2])
        raise ValueError(k)

    def stmts(self, stmts, ind=""):
        out = []
        for s in stmts:
            if s[0] == 'c':
                out.append(ind + self.top(s[1]) + ";")
            elif s[0] == 'decl':
                out.append(ind + "%s %s;" % (s[1].split(':')[-1], s[2]))
            elif s[0] == 'disj':
                parts = []
                for b in s[1]:
                    cost = [t[1] for t in b if t[0] == 'cost']
                    parts.append("{\n" + "\n".join(self.stmts([t for t in b if t[0] != 'cost'], ind + "  ")) + "\n" + ind + "}" +
                                 (" [%s]" % num(cost[0], False) if cost else ""))
                out.append(ind + " or ".join(parts))
        return out


def to_riddle(p, style_of=None):
    types = {n: t for t, n in all_decls(p)}
    pr = Printer(types, style_of)
    lines = []
    for e, n in sorted(p.get('enums', {}).items()):
        if e in p.get('classes', ()):              # an object type: n instances, variables of the type range over them
            lines.append("class %s {}" % e)
            lines += ["%s %s_i%d = new %s();" % (e, e.lower(), i, e) for i in range(n)]
        else:
            lines.append('enum %s {%s};' % (e, ", ".join('"%s_%d"' % (e.lower(), i) for i in range(n))))
    lines += ["%s %s;" % (t.split(':')[-1], n) for t, n in p['decls']]
    lines += pr.stmts(p['stmts'])
    return "\n".join(lines) + "\n"


# ------------------------------------------------------------------------------------------------
# reference input (s-expression for oracle/c02_main.ml)
# ------------------------------------------------------------------------------------------------
def to_sexp(p):
    decls = all_decls(p)
    bidx = {n: i for i, n in enumerate([n for t, n in decls if t == 'bool'])}
    xidx = {n: i for i, n in enumerate([n for t, n in decls if t in ('real', 'int', 'tp')])}
    # an enum variable e over n values is encoded for the reference procedure by n booleans  e#k  (e has value k),
    # exactly one of which holds; e1 == e2 is the conjunction of  e1#k == e2#k
    enums = p.get('enums', {})
    edom = {n: enums[t.split(':')[1]] for t, n in decls if t.startswith('enum:')}
    for n, dom in edom.items():
        for k in range(dom):
            bidx["%s#%d" % (n, k)] = len(bidx)
    exprs = []
    eidx = {}

    def q(c):
        c = Fr(c)
        return str(c.numerator) if c.denominator == 1 else "%d/%d" % (c.numerator, c.denominator)

    def expr_id(lin, op):
        terms, k = lin
        items = tuple(sorted((xidx[x], c) for x, c in terms.items() if c != 0))
        # share e and -e
        if items and items[0][1] < 0:
            items = tuple((x, -c) for x, c in items)
            k = -k
            op = MIRROR[op]
        elif not items and k < 0:
            k = -k
            op = MIRROR[op]
        key = (items, k)
        if key not in eidx:
            eidx[key] = len(exprs)
            exprs.append("(lin %s%s)" % (q(k), "".join(" (%d %s)" % (x, q(c)) for x, c in items)))
        return eidx[key], op

    def sf(f):
        k = f[0]
        if k == 'b':
            return "(b %d)" % bidx[f[1]]
        if k == 'cmp':
            e, op = expr_id(f[2], f[1])
            return "(cmp %s %d)" % (op, e)
        if k == 'xx':
            e, op = expr_id(({}, Fr(0)), f[2])
            return "(cmp %s %d)" % (op, e)
        if k in ('eeq', 'ene'):
            t = "(and %s)" % " ".join("(iff (b %d) (b %d))" % (bidx["%s#%d" % (f[1], j)], bidx["%s#%d" % (f[2], j)]) for j in range(edom[f[1]]))
            return t if k == 'eeq' else "(not %s)" % t
        if k == 'not':
            return "(not %s)" % sf(f[1])
        if k in ('and', 'or', 'xor'):
            return "(%s %s)" % (k, " ".join(sf(g) for g in f[1]))
        if k == 'imp':
            return "(imp %s %s)" % (sf(f[1]), sf(f[2]))
        if k == 'iff':
            return "(iff %s %s)" % (sf(f[1]), sf(f[2]))
        if k == 'neq':
            return "(not (iff %s %s))" % (sf(f[1]), sf(f[2]))
        raise ValueError(k)

    def ss(s):
        if s[0] == 'c':
            return sf(s[1])
        if s[0] == 'disj':
            return "(or %s)" % " ".join("(and%s)" % "".join(" " + t for t in [ss(x) for x in b] if t) for b in s[1])
        return ""

    body = [t for t in (ss(s) for s in p['stmts']) if t]
    body += ["(xor %s)" % " ".join("(b %d)" % bidx["%s#%d" % (n, k)] for k in range(dom)) for n, dom in sorted(edom.items())]
    text = "(problem (exprs%s) (body%s))" % ("".join(" " + e for e in exprs), "".join(" " + b for b in body))
    return text, bidx, xidx


def parse_ref_answer(ans, bidx, xidx):
    """-> ('unsat', None) | ('sat', model dict) | ('error', text)"""
    tk = ans.split()
    if not tk:
        return 'error', ans
    if tk[0] == 'unsat':
        return 'unsat', None
    if tk[0] != 'sat':
        return 'error', ans
    rb = {i: n for n, i in bidx.items()}
    rx = {i: n for n, i in xidx.items()}
    M = {}
    for t in tk[1:]:
        name, val = t.split('=')
        if name[0] == 'b':
            if int(name[1:]) in rb:
                M[rb[int(name[1:])]] = val == '1'
        else:
            n, d = val.split('/')
            sign = -1 if n[0] == '-' else 1
            n = n.lstrip('-')
            if int(name[1:]) in rx:
                M[rx[int(name[1:])]] = Fr(sign * int(n[1:], 2), int(d[1:], 2))
    for n in bidx:
        M.setdefault(n, False)
    for n in xidx:
        M.setdefault(n, Fr(0))
    evars = {n.split('#')[0] for n in bidx if '#' in n}
    for e in evars:
        vals = [int(n.split('#')[1]) for n in bidx if n.startswith(e + '#') and M[n]]
        M[e] = vals[0] if len(vals) == 1 else None          # None: the one-hot constraint is violated (never, if ref_solve is right)
    return 'sat', M


# ------------------------------------------------------------------------------------------------
# generation
# ------------------------------------------------------------------------------------------------
class Gen:
    def __init__(self, rng):
        self.rng = rng
        self.uid = 0

    def fresh(self, prefix):
        self.uid += 1
        return "%s%d" % (prefix, self.uid)

    # ---- variables and a planted model ----
    def new_space(self, nb=None, nx=None, ints=None, ne=None):
        r = self.rng
        nb = r.randint(0, 5) if nb is None else nb
        nx = r.randint(0 if nb else 1, 5) if nx is None else nx
        ne = (r.choice([0, 0, 0, 2, 3]) if ne is None else ne)
        decls, M = [], {}
        self.enums = {}
        if ne:
            dom = r.randint(2, 3)
            self.enums = {'Colour': dom}
            for i in range(ne):
                n = "e%d" % i
                decls.append(('enum:Colour', n))
                M[n] = r.randrange(dom)
        for i in range(nb):
            n = "b%d" % i
            decls.append(('bool', n))
            M[n] = r.random() < 0.5
        for i in range(nx):
            is_int = (r.random() < 0.25) if ints is None else ints
            n = ("i%d" if is_int else "x%d") % i
            decls.append(('int' if is_int else 'real', n))
            M[n] = Fr(r.randint(-6, 6)) if is_int else Fr(r.randint(-12, 12), r.choice([1, 1, 2, 2, 3]))
        return decls, M

    def rand_lin(self, xs, M, nterms=None):
        r = self.rng
        n = min(len(xs), nterms or r.choice([1, 1, 2, 2, 3]))
        vs = r.sample(xs, n)
        terms = {}
        for x in vs:
            c = r.choice([1, 1, 1, -1, -1, 2, -2, 3, Fr(1, 2), Fr(-3, 2)])
            if x.startswith('i'):
                c = Fr(r.choice([1, 1, -1, 2, -2, 3]))
            terms[x] = Fr(c)
        return terms

    def tight_cmp(self, xs, M, want=True, head=False):
        """an atom over 1..3 variables whose truth value in M is `want`, aimed at the boundary: the constant is the value
        of the expression in M (tight) or just next to it"""
        r = self.rng
        terms = self.rand_lin(xs, M)
        q = lin_val((terms, Fr(0)), M)
        d = r.choice([0, 0, 0, 0, Fr(1, 2), 1, 1, 3])
        # candidates  (op, constant k)  meaning  terms + k op 0 ; value of terms + k in M is q + k
        cands = []
        for op in (('lt', 'le', 'ge', 'gt') if head else ('lt', 'le', 'eq', 'ne', 'ge', 'gt')):
            for k in (-q, -q + d, -q - d):
                if cmp_val(op, q + k) == want:
                    cands.append((op, k))
        # prefer the tight ones (k = -q)
        tightc = [c for c in cands if c[1] == -q]
        op, k = r.choice(tightc if tightc and r.random() < 0.7 else cands)
        return ('cmp', op, (terms, Fr(k)))

    def enum_atom(self, M, want=None):
        r = self.rng
        es = sorted(n for n in M if n.startswith('e') and isinstance(M[n], int) and not isinstance(M[n], bool))
        if len(es) < 2:
            return None
        a, b = r.sample(es, 2)
        k = r.choice(['eeq', 'ene'])
        if want is not None and ((M[a] == M[b]) == (k == 'eeq')) != want:
            k = 'ene' if k == 'eeq' else 'eeq'
        return (k, a, b)

    def lit_for(self, bs, xs, M, want=True):
        r = self.rng
        if r.random() < 0.2:
            f = self.enum_atom(M, want)
            if f:
                return f
        if bs and (not xs or r.random() < 0.4):
            b = r.choice(bs)
            return ('b', b) if M[b] == want else ('not', ('b', b))
        return self.tight_cmp(xs, M, want)

    def simple_any(self, bs, xs, M, head=True):
        """a simple formula (variable or atom) with a random truth value in M; with head=True it can be followed by
        boolean operators on the same level"""
        r = self.rng
        if not head and r.random() < 0.15:
            f = self.enum_atom(M)
            if f:
                return f
        if bs and (not xs or r.random() < 0.45):
            return ('b', r.choice(bs))
        return self.tight_cmp(xs, M, r.random() < 0.5, head=head)

    def rand_form(self, bs, xs, M, depth):
        r = self.rng
        if depth == 0 or r.random() < 0.25:
            f = self.simple_any(bs, xs, M, head=False)
            return ('not', f) if r.random() < 0.3 else f
        k = r.choice(['and', 'or', 'or', 'xor', 'imp', 'iff', 'neq', 'not'])
        if k == 'not':
            return ('not', self.rand_form(bs, xs, M, depth - 1))
        if k in ('and', 'or', 'xor'):
            n = r.choice([2, 2, 3, 3, 4])
            ops = [self.simple_any(bs, xs, M)] + [self.rand_form(bs, xs, M, depth - 1) for _ in range(n - 1)]
            # no syntactically repeated operand (a ^ a has no agreed reading)
            uniq = []
            for o in ops:
                if o not in uniq:
                    uniq.append(o)
            if len(uniq) < 2:
                return uniq[0]
            r.shuffle(uniq)
            return (k, uniq)
        a = self.simple_any(bs, xs, M, head=(k == 'imp'))
        b = self.rand_form(bs, xs, M, depth - 1)
        return (k, a, b)

    def true_form(self, bs, xs, M, depth):
        f = self.rand_form(bs, xs, M, depth)
        return f if ev(f, M) else ('not', f)

    # ---- (1) planted-solution constraint problems ----
    def planted(self, n_stmts=None, with_disj=True):
        r = self.rng
        decls, M = self.new_space()
        bs = [n for t, n in decls if t == 'bool']
        xs = [n for t, n in decls if t in ('real', 'int')]
        stmts = []
        n = n_stmts or r.randint(2, 9)
        for _ in range(n):
            c = r.random()
            if c < 0.45:
                stmts.append(('c', self.lit_for(bs, xs, M, True)))
            elif c < 0.85 or not with_disj:
                stmts.append(('c', self.true_form(bs, xs, M, r.choice([1, 1, 2]))))
            else:
                stmts.append(self.disj_stmt(bs, xs, M, True))
        p = {'decls': decls, 'stmts': stmts, 'enums': dict(self.enums)}
        self.trim(p)
        assert ev_problem(p, M)
        return p, M

    def disj_stmt(self, bs, xs, M, want):
        """`{..} or {..}`; with want=True one body (at a random position) holds in M"""
        r = self.rng
        nb = r.choice([2, 2, 3])
        good = r.randrange(nb) if want else -1
        bodies = []
        for j in range(nb):
            body = []
            lbs, lxs = list(bs), list(xs)
            if r.random() < 0.3:   # a local variable
                if r.random() < 0.5:
                    n = self.fresh("lb")
                    body.append(('decl', 'bool', n))
                    M[n] = r.random() < 0.5
                    lbs.append(n)
                else:
                    n = self.fresh("lx")
                    body.append(('decl', 'real', n))
                    M[n] = Fr(r.randint(-8, 8), r.choice([1, 2]))
                    lxs.append(n)
            for _ in range(r.choice([1, 1, 2])):
                if j == good:
                    body.append(('c', self.lit_for(lbs, lxs, M, True) if r.random() < 0.6 else self.true_form(lbs, lxs, M, 1)))
                else:
                    body.append(('c', self.lit_for(lbs, lxs, M, r.random() < 0.4) if r.random() < 0.7 else self.rand_form(lbs, lxs, M, 1)))
            bodies.append(body)
        return ('disj', bodies)

    def trim(self, p, max_atoms=25):
        while count_atoms(p) > max_atoms and len(p['stmts']) > 1:
            p['stmts'].pop()

    # ---- (2) problems near the boundary, judged by the reference procedure ----
    def near(self):
        r = self.rng
        fam = r.choice(['cut', 'cut', 'cut', 'cycle', 'squeeze', 'guard', 'parity', 'random', 'pigeon'])
        if fam == 'pigeon':
            # n enum variables over m values, (almost) all different: feasible iff the difference graph is m-colourable
            m = r.randint(2, 3)
            n = m + r.choice([-1, 0, 0, 1, 1])
            n = max(2, n)
            decls = [('enum:Colour', "e%d" % i) for i in range(n)]
            stmts = []
            for i in range(n):
                for j in range(i + 1, n):
                    c = r.random()
                    if c < 0.75:
                        stmts.append(('c', ('ene', "e%d" % i, "e%d" % j)))
                    elif c < 0.85:
                        stmts.append(('c', ('not', ('eeq', "e%d" % i, "e%d" % j))))
            if r.random() < 0.4 and n >= 3:
                stmts.append(('c', ('or', [('b', 'b0'), ('eeq', 'e0', 'e%d' % (n - 1))])))
                stmts.append(('c', ('not', ('b', 'b0'))))
                decls.append(('bool', 'b0'))
            r.shuffle(stmts)
            if not stmts:
                stmts.append(('c', ('ene', 'e0', 'e1')))
            return {'decls': decls, 'stmts': stmts, 'enums': {'Colour': m}}, 'pigeon'
        if fam == 'cut':
            p, M = self.planted(with_disj=r.random() < 0.5)
            bs = [n for t, n in p['decls'] if t == 'bool']
            xs = [n for t, n in p['decls'] if t in ('real', 'int')]
            for _ in range(r.choice([1, 1, 2, 3])):
                c = r.random()
                if c < 0.6 or not p['stmts']:
                    p['stmts'].append(('c', self.lit_for(bs, xs, M, False)))     # false in the planted model, tight
                elif c < 0.8:
                    f = self.rand_form(bs, xs, M, 1)
                    p['stmts'].append(('c', f if not ev(f, M) else ('not', f)))
                else:
                    p['stmts'].append(self.disj_stmt(bs, xs, M, False))
            r.shuffle(p['stmts'])
            self.trim(p)
            return p, 'cut'
        if fam == 'cycle':
            n = r.randint(2, 6)
            xs = ["x%d" % i for i in range(n)]
            decls = [('real' if r.random() < 0.8 else 'int', x) for x in xs]
            xs = [("i%d" % i if t == 'int' else "x%d" % i) for i, (t, _) in enumerate(decls)]
            decls = [(t, x) for (t, _), x in zip(decls, xs)]
            stmts = []
            slack = r.choice([0, 0, 0, 1, -1])
            for i in range(n):
                a, b = xs[i], xs[(i + 1) % n]
                op = r.choice(['le', 'le', 'le', 'lt'])
                k = Fr(slack) if i == n - 1 else Fr(0)
                stmts.append(('c', ('cmp', op, ({a: Fr(1), b: Fr(-1)}, -k))))      # a - b - k op 0
            if r.random() < 0.4:
                stmts.append(('c', ('cmp', 'ne', ({xs[0]: Fr(1), xs[-1]: Fr(-1)}, Fr(0)))))
            r.shuffle(stmts)
            return {'decls': decls, 'stmts': stmts}, 'cycle'
        if fam == 'squeeze':
            n = r.randint(1, 4)
            decls = [('real', "x%d" % i) for i in range(n)]
            stmts = []
            for i in range(n):
                x = "x%d" % i
                lo = Fr(r.randint(-5, 5), r.choice([1, 2]))
                hi = lo + r.choice([0, 0, 0, Fr(1, 2), Fr(-1, 2), 1])
                stmts.append(('c', ('cmp', r.choice(['ge', 'ge', 'gt']), ({x: Fr(1)}, -lo))))
                stmts.append(('c', ('cmp', r.choice(['le', 'le', 'lt']), ({x: Fr(1)}, -hi))))
                if r.random() < 0.4:
                    stmts.append(('c', ('cmp', 'ne', ({x: Fr(1)}, -lo))))
            if n >= 2 and r.random() < 0.6:
                stmts.append(('c', ('cmp', r.choice(['eq', 'le', 'ge', 'lt']), ({"x0": Fr(1), "x1": Fr(1)}, Fr(r.randint(-10, 10), 2)))))
            r.shuffle(stmts)
            return {'decls': decls, 'stmts': stmts}, 'squeeze'
        if fam == 'guard':
            nb = r.randint(1, 4)
            decls = [('bool', "b%d" % i) for i in range(nb)] + [('real', 'x0'), ('real', 'x1')]
            stmts = []
            for i in range(nb):
                b = ('b', "b%d" % i)
                v = Fr(r.randint(-3, 3))
                x = r.choice(['x0', 'x1'])
                stmts.append(('c', ('imp', b, ('cmp', r.choice(['ge', 'gt']), ({x: Fr(1)}, -v)))))
                stmts.append(('c', ('or', [b, ('cmp', r.choice(['le', 'lt']), ({x: Fr(1)}, -(v - r.choice([0, 1, 2]))))])))
            stmts.append(('c', ('cmp', r.choice(['eq', 'le', 'ge']), ({'x0': Fr(1), 'x1': Fr(r.choice([1, -1]))}, Fr(r.randint(-2, 2))))))
            if r.random() < 0.5:
                stmts.append(('c', ('xor', [('b', "b%d" % i) for i in range(nb)] + [('cmp', 'gt', ({'x0': Fr(1)}, Fr(0)))])))
            r.shuffle(stmts)
            return {'decls': decls, 'stmts': stmts}, 'guard'
        if fam == 'parity':
            nb = r.randint(2, 6)
            decls = [('bool', "b%d" % i) for i in range(nb)]
            bsf = [('b', "b%d" % i) for i in range(nb)]
            stmts = []
            for _ in range(r.randint(2, 6)):
                k = r.choice(['xor', 'iff', 'neq', 'or', 'nand'])
                a, b = r.sample(bsf, 2)
                if k == 'xor':
                    stmts.append(('c', ('xor', r.sample(bsf, r.randint(2, min(4, nb))))))
                elif k == 'nand':
                    stmts.append(('c', ('not', ('and', [a, b]))))
                elif k == 'or':
                    stmts.append(('c', ('or', [a, ('not', b)])))
                else:
                    stmts.append(('c', (k, a, b)))
            return {'decls': decls, 'stmts': stmts}, 'parity'
        # random: no planted model at all
        decls, M = self.new_space(nb=r.randint(1, 4), nx=r.randint(1, 4))
        bs = [n for t, n in decls if t == 'bool']
        xs = [n for t, n in decls if t in ('real', 'int')]
        stmts = []
        for _ in range(r.randint(3, 8)):
            c = r.random()
            if c < 0.5:
                stmts.append(('c', self.lit_for(bs, xs, M, r.random() < 0.75)))
            elif c < 0.9:
                stmts.append(('c', self.rand_form(bs, xs, M, r.choice([1, 2]))))
            else:
                stmts.append(self.disj_stmt(bs, xs, M, r.random() < 0.5))
        p = {'decls': decls, 'stmts': stmts, 'enums': dict(self.enums)}
        self.trim(p)
        return p, 'random'

    # ---- (2b) a branch that tightens ONE bound several times (weaker first) fails and is backtracked; the surviving
    #      branch needs a value beyond the intermediate bounds (undo records of lra_theory::assert_lower / assert_upper) ----
    def retighten(self):
        r = self.rng
        nx = r.randint(1, 3)
        xs = ["x%d" % i for i in range(nx)]
        decls = [('real', x) for x in xs]
        M = {x: Fr(r.randint(-6, 6)) for x in xs}

        def atom(op, terms, k):
            return ('c', ('cmp', op, ({a: Fr(c) for a, c in terms.items()}, Fr(k))))

        def failing_branch():
            x = r.choice(xs)
            upper = r.random() < 0.5
            sgn = 1 if upper else -1                    # upper: x <= c ...; lower: x >= c ...
            v = M[x]
            n = r.randint(2, 4)
            # bounds strictly on the wrong side of v, weaker first:  v - 1 > c1 > c2 > ...   (upper)
            cs = []
            c = v - sgn * Fr(r.randint(1, 2))
            for _ in range(n):
                cs.append(c)
                c = c - sgn * Fr(r.choice([1, 1, 2, Fr(1, 2)]))
            if r.random() < 0.25:
                r.shuffle(cs)                           # not always monotone
            body = []
            via = r.choice(xs + [None, None]) if nx > 1 else None
            if via is not None and via != x and r.random() < 0.6:
                # through another variable:  x <= y; y <= c1; y <= c2
                body.append(atom('le' if upper else 'ge', {x: 1, via: -1}, 0))
                tgt = via
            else:
                tgt = x
            for c in cs:
                op = r.choice(['le', 'le', 'lt']) if upper else r.choice(['ge', 'ge', 'gt'])
                body.append(atom(op, {tgt: 1}, -c))
            # the contradiction: x beyond the tightest bound, still on the wrong side of v (or not)
            tight = min(cs) if upper else max(cs)
            d = tight + sgn * Fr(r.choice([Fr(1, 2), 1, 0]))
            op = ('ge' if upper else 'le') if d != tight else ('gt' if upper else 'lt')
            body.append(atom(op, {x: 1}, -d))
            if r.random() < 0.3:
                r.shuffle(body)
            body.append(('cost', Fr(r.choice([1, 1, 2]))))
            return body

        def surviving_branch():
            body = []
            for x in r.sample(xs, r.randint(1, nx)):
                k = r.choice(['ge', 'le', 'eq'])
                body.append(atom(k, {x: 1}, -M[x]))
            body.append(('cost', Fr(r.choice([2, 3, 5]))))
            return body

        def disj(depth):
            bodies = [failing_branch() for _ in range(r.randint(1, 2))]
            if depth > 0 and r.random() < 0.35:
                bodies.append([disj(depth - 1), ('cost', Fr(1))])       # a nested disjunction that can survive
            else:
                bodies.append(surviving_branch())
            if r.random() < 0.3:
                r.shuffle(bodies)
            return ('disj', bodies)
        stmts = [disj(1) for _ in range(r.randint(1, 2))]
        for _ in range(r.randint(0, 2)):
            stmts.append(('c', self.tight_cmp(xs, M, True)))
        r.shuffle(stmts)
        p = {'decls': decls, 'stmts': stmts, 'enums': {}}
        assert ev_problem(p, M)
        return p, M

    # ---- (2c) difference logic through `tp` variables: a negative cycle split over two disjunctions, edges asserted in
    #      every order (appending and PREPENDING to existing chains), strict and non-strict; the failing combination is
    #      cheaper than the surviving one (explanations of idl / rdl_theory: predecessors of composed paths) ----
    def tpcycle(self):
        r = self.rng
        n = r.randint(3, 5)
        ts = ["t%d" % i for i in range(n)]
        decls = [('tp', t) for t in ts]
        M = {t: Fr(r.randint(0, 12)) for t in ts}

        def edge(a, b, w, strict):
            # b - a <= w   (edge a -> b of weight w)
            return ('c', ('cmp', 'lt' if strict else 'le', ({b: Fr(1), a: Fr(-1)}, Fr(-w))))

        L = r.randint(3, n)
        cyc = r.sample(ts, L)
        # weights of a cycle that cannot hold: total < 0, or total = 0 with a strict edge (total = 0, no strict edge: it can)
        ws = [Fr(r.randint(-3, 3)) for _ in range(L)]
        kind = r.choice(['neg', 'neg', 'zero-strict', 'zero-ok'])
        target = {'neg': Fr(-r.randint(1, 3)), 'zero-strict': Fr(0), 'zero-ok': Fr(0)}[kind]
        ws[-1] += target - sum(ws)
        stricts = [r.random() < 0.25 for _ in range(L)]
        if kind == 'zero-strict':
            stricts[r.randrange(L)] = True
        if kind == 'zero-ok':
            stricts = [False] * L
        edges = [edge(cyc[i], cyc[(i + 1) % L], ws[i], stricts[i]) for i in range(L)]
        # the planted model satisfies the path e_0 .. e_{L-2} (tightly, most of the time) and not the closing edge e_{L-1}
        for i in range(L - 1):
            M[cyc[i + 1]] = M[cyc[i]] + ws[i] - (1 if stricts[i] else 0) - r.choice([0, 0, 0, 1])
        closing = edges[-1]
        uncond, first, failing = [], [], [closing]
        for e in edges[:-1]:
            c = r.random()
            (failing if c < 0.55 else uncond if c < 0.8 else first).append(e)
        # the order in which the failing branch states its edges: every order, i.e. appending AND prepending to the chains
        # that exist already
        c = r.random()
        if c < 0.3:
            failing.reverse()
        elif c < 0.8:
            r.shuffle(failing)

        def planted_edges(k):
            out = []
            for _ in range(k):
                a, b = r.sample(ts, 2)
                out.append(edge(a, b, M[b] - M[a] + r.choice([0, 0, 1, 2]), False))
            return out
        # the surviving branch repeats the edges of the failing one except the closing edge (same constraints, so that a
        # lemma that is too strong for them shows)
        surviving = [e for e in failing if e is not closing]
        if r.random() < 0.3:
            r.shuffle(surviving)
        surviving = surviving + planted_edges(r.choice([0, 0, 1])) or planted_edges(1)
        stmts = list(uncond)
        if first:
            stmts.append(('disj', [first + [('cost', Fr(1))], planted_edges(r.randint(1, 2)) + [('cost', Fr(r.choice([3, 5])))]]))
        second = [failing + [('cost', Fr(1))], surviving + [('cost', Fr(r.choice([3, 5])))]]
        if r.random() < 0.2:
            second.reverse()
        stmts.append(('disj', second))
        stmts += planted_edges(r.choice([0, 0, 1]))
        if r.random() < 0.4:
            r.shuffle(stmts)
        p = {'decls': decls, 'stmts': stmts, 'enums': {}}
        return p, (M if ev_problem(p, M) else None)

    # ---- (2d) a dead disjunct whose inner flaws have problem literals as resolvers, decisions on those literals, then a
    #      backjump to root caused by an arithmetic conflict in the last disjunction (bookkeeping of flaws that were never
    #      active: solver::propagate / pop) ----
    def backjump(self):
        r = self.rng
        nb = r.randint(2, 4)
        bs = ["b%d" % i for i in range(nb)]
        decls = [('bool', b) for b in bs] + [('real', 'v')]
        M = {b: r.random() < 0.5 for b in bs}
        M['v'] = Fr(r.randint(0, 4))
        enums, classes = {}, []
        kind = r.choice(['disj', 'disj', 'bool', 'enum', 'obj', 'mix'])
        evs = []
        if kind in ('enum', 'obj', 'mix'):
            tname = 'Kobj' if kind == 'obj' or (kind == 'mix' and r.random() < 0.5) else 'Colour'
            enums[tname] = 2
            if tname == 'Kobj':
                classes.append(tname)
            evs = ["e%d" % i for i in range(2)]
            for e in evs:
                decls.append(('enum:' + tname, e))
                M[e] = r.randrange(2)

        def lit(x, pos):
            return ('b', x) if pos else ('not', ('b', x))

        def core(depth):
            """statements that cannot all hold, but not by unit propagation alone"""
            k = kind if kind != 'mix' else r.choice(['disj', 'bool', 'enum'])
            body = []
            if k == 'enum' and evs:
                tname = [t for t, n in decls if n == evs[0]][0]
                le = self.fresh("le")
                body.append(('decl', tname, le))
                M[le] = 0
                # three variables over two values, pairwise different
                body += [('c', ('ene', le, evs[0])), ('c', ('ene', le, evs[1])), ('c', ('ene', evs[0], evs[1]))]
            else:
                x, y = r.sample(bs, 2)
                if k == 'bool':
                    x = self.fresh("lb")
                    body.append(('decl', 'bool', x))
                    M[x] = False
                shape = r.choice(['square', 'chain'])
                if shape == 'square':
                    cls = [[lit(x, a), lit(y, b)] for a in (True, False) for b in (True, False)]
                else:
                    z = r.choice([b for b in bs if b not in (x, y)] or [y])
                    cls = [[lit(x, True), lit(y, True)], [lit(x, False), lit(z, True)], [lit(y, False), lit(z, True)], [lit(z, False), lit(x, False)],
                           [lit(z, False), lit(y, False)]] if z != y else [[lit(x, a), lit(y, b)] for a in (True, False) for b in (True, False)]
                r.shuffle(cls)
                body += [('c', ('or', c)) for c in cls]
            if depth > 0 and r.random() < 0.4:
                # the contradiction sits one disjunction deeper
                return [('disj', [body + [('cost', Fr(1))], core(depth - 1) + [('cost', Fr(2))]])]
            return body

        def true_lits(k):
            out = []
            for _ in range(k):
                x = r.choice(bs)
                out.append(('c', lit(x, M[x])))
            return out
        dead = core(r.choice([0, 0, 1])) + [('cost', Fr(1))]
        # the surviving disjunct has an inner flaw of its own (a disjunction that holds in the planted model), so that the
        # cost of the whole disjunction is unknown until the inner flaws of BOTH disjuncts have been expanded
        x, y = r.sample(bs, 2)
        alive = true_lits(r.randint(0, 2)) + [('c', ('or', [lit(x, M[x]), lit(y, r.random() < 0.5)]))]
        r.shuffle(alive)
        alive.append(('cost', Fr(r.choice([2, 3]))))
        if evs and r.random() < 0.5:
            alive.insert(0, ('c', ('eeq' if M[evs[0]] == M[evs[1]] else 'ene', evs[0], evs[1])))
        first = ('disj', [dead, alive])
        first_twin = ('disj', [alive])
        # intermediate decisions: costed disjunctions (dearer than the cheap branch of the last one, hence decided before it)
        # that fix the free variables occurring in the dead disjunct; the first disjunct holds in the planted model
        middle = []
        for _ in range(r.randint(1, 3)):
            x, y = r.sample(bs, 2)
            d1 = [('c', lit(x, M[x]))] + ([('c', lit(y, M[y]))] if r.random() < 0.5 else []) + [('cost', Fr(r.choice([2, 2, 3])))]
            d2 = [('c', lit(x, not M[x]))] + ([('c', lit(y, r.random() < 0.5))] if r.random() < 0.5 else []) + [('cost', Fr(r.choice([3, 4, 5])))]
            middle.append(('disj', [d1, d2] if r.random() < 0.8 else [d2, d1]))
        for _ in range(r.randint(0, 2)):
            x, y = r.sample(bs, 2)
            middle.append(('c', ('or', [lit(x, M[x]), lit(y, r.random() < 0.5)])))
        lo = Fr(r.randint(4, 6))
        last = ('disj', [[('c', ('cmp', 'ge', ({'v': Fr(1)}, -lo))), ('c', ('cmp', r.choice(['le', 'lt']), ({'v': Fr(1)}, -(lo - r.choice([1, 2, 3]))))), ('cost', Fr(1))],
                         [('c', ('cmp', 'ge', ({'v': Fr(1)}, Fr(0)))), ('c', ('cmp', 'le', ({'v': Fr(1)}, -M['v']))), ('cost', Fr(r.choice([3, 4])))]])
        stmts = [first] + middle + [last]
        twin = [first_twin] + middle + [last]
        if r.random() < 0.25:
            stmts = [last] + middle + [first]
            twin = [last] + middle + [first_twin]
        p = {'decls': decls, 'stmts': stmts, 'enums': enums, 'classes': classes}
        q = {'decls': decls, 'stmts': twin, 'enums': enums, 'classes': classes}
        assert ev_problem(p, M) and ev_problem(q, M)
        return p, M, q

    # ---- (2e) LARGE problems: 110-150 variables, nearly all unconstrained, a handful of constraints between variables picked
    #      at random and between pairs whose indices are digit-wise re-splittings of each other ((1,112) / (11,12)): caches
    #      keyed on variable ids.  Returns (full problem, the constrained part for the reference procedure, permuted twin)
    def large_n(self, numeric=False):
        r = self.rng
        n = r.randint(110, 150)
        if numeric:
            names = ["x%d" % i for i in range(n)]
            decls = [('real', x) for x in names]
            stmts = []
            for _ in range(r.randint(2, 5)):
                a, b = r.sample(range(n), 2)
                if abs(a - b) < 60:
                    b = (a + 60 + r.randint(0, 40)) % n
                stmts.append(('c', ('cmp', r.choice(['le', 'lt', 'eq', 'ge']), ({names[a]: Fr(1), names[b]: Fr(-1)}, Fr(r.randint(-2, 2))))))
            enums, classes = {}, []
        else:
            dom = r.randint(2, 4)
            tname = r.choice(['Colour', 'Kobj'])
            enums, classes = {tname: dom}, ([tname] if tname == 'Kobj' else [])
            names = ["e%d" % i for i in range(n)]
            decls = [('enum:' + tname, x) for x in names]
            pairs = []
            # pairs whose indices concatenate to the same digit string
            for _ in range(40):
                # (a, 1cd) and (a1, cd): the only way two ordered pairs below 1000 concatenate to the same digits
                a, c, d = r.randint(1, 9), r.randint(0, 4), r.randint(0, 9)
                off = r.choice([0, 0, 0, 0, 1, 2])               # the planner's ids may be shifted against the declaration indices
                cand = [(a - off, 100 + 10 * c + d - off), (10 * a + 1 - off, 10 * c + d - off)]
                if all(0 <= x < y < n for x, y in cand):
                    pairs = cand
                    break
            k = r.randint(2, 6)
            stmts = []
            if pairs:
                pol = r.choice([('eeq', 'ene'), ('ene', 'eeq'), ('eeq', 'ene'), ('ene', 'eeq'), ('eeq', 'eeq'), ('ene', 'ene')])
                stmts = [('c', (pol[0], names[pairs[0][0]], names[pairs[0][1]])), ('c', (pol[1], names[pairs[1][0]], names[pairs[1][1]]))]
            while len(stmts) < k:
                a, b = r.sample(range(n), 2)
                stmts.append(('c', (r.choice(['eeq', 'ene']), names[a], names[b])))
            if r.random() < 0.25:                        # sometimes infeasible: one pair both equal and different
                f = r.choice(stmts)[1]
                stmts.append(('c', ('ene' if f[0] == 'eeq' else 'eeq', f[2], f[1])))
            r.shuffle(stmts)
        used = set()
        for st in stmts:
            f = st[1]
            used |= set(f[2][0]) if f[0] == 'cmp' else {f[1], f[2]}
        full = {'decls': decls, 'stmts': stmts, 'enums': enums, 'classes': classes}
        small = {'decls': [d for d in decls if d[1] in used], 'stmts': stmts, 'enums': enums, 'classes': classes}
        # twin: declarations permuted and renamed, so that every id shifts
        ren = {x: "w%d" % i for i, x in enumerate(r.sample(names, n))}
        twin = rename(full, ren)
        twin['decls'] = sorted(twin['decls'], key=lambda d: int(d[1][1:]))
        small_twin = rename(small, ren)
        return full, small, twin, small_twin

    # ---- (3) equivalence classes ----
    def variants(self, p, k=3, force=()):
        """semantically equivalent rewritings of p: [(name, problem, style_of)]"""
        r = self.rng
        out = []
        names = ['reorder', 'rename', 'tautology', 'duplicate', 'imp-as-or', 'sides', 'demorgan', 'reorder-inner']
        chosen = list(force) + r.sample([n for n in names if n not in force], max(0, min(k - len(force), len(names) - len(force))))
        for name in chosen:
            q = clone(p)
            style = None
            if name == 'reorder':
                r.shuffle(q['stmts'])
                q['decls'] = sorted(q['decls'], key=lambda d: r.random())
            elif name == 'reorder-inner':
                q['stmts'] = [shuffle_inner(st, r) for st in q['stmts']]
            elif name == 'rename':
                ren = {}
                for t, n in all_decls(q):
                    ren[n] = {'bool': 'p', 'real': 'r', 'int': 'k'}.get(t, 'c') + "_" + n[::-1] + "z"
                q = rename(q, ren)
            elif name == 'tautology':
                xs = [n for t, n in q['decls'] if t in ('real', 'int')]
                bs = [n for t, n in q['decls'] if t == 'bool']
                if not xs and not bs:
                    bs = ['tb0']
                    q['decls'].append(('bool', 'tb0'))
                for _ in range(r.randint(1, 3)):
                    c = r.random()
                    if xs and c < 0.4:
                        x = r.choice(xs)
                        taut = ('xx', x, r.choice(['le', 'ge', 'eq']))                        # x <= x
                    elif bs and c < 0.8:
                        b = r.choice(bs)
                        taut = ('or', [('b', b), ('not', ('b', b))])
                    elif xs:
                        x = r.choice(xs)
                        taut = ('or', [('cmp', 'le', ({x: Fr(1)}, Fr(0))), ('cmp', 'gt', ({x: Fr(1)}, Fr(0)))])
                    else:
                        b = r.choice(bs)
                        taut = ('imp', ('b', b), ('b', b))
                    q['stmts'].insert(r.randint(0, len(q['stmts'])), ('c', taut))
            elif name == 'duplicate':
                cs = [s for s in q['stmts'] if s[0] == 'c']
                for s in r.sample(cs, min(len(cs), r.randint(1, 3))):
                    q['stmts'].insert(r.randint(0, len(q['stmts'])), s)
            elif name == 'imp-as-or':
                q['stmts'] = [rewrite_stmt(s, imp_as_or) for s in q['stmts']]
            elif name == 'demorgan':
                q['stmts'] = [rewrite_stmt(s, demorgan) for s in q['stmts']]
            elif name == 'sides':
                salt = r.randint(1, 1 << 20)
                style = (lambda f, salt=salt: (zlib.crc32(repr(f).encode()) ^ salt) & 63)
            out.append((name, q, style))
        return out


def shuffle_inner(s, r):
    """the independent statements of every disjunct in another order (declarations stay in front)"""
    if s[0] != 'disj':
        return s
    bodies = []
    for b in s[1]:
        head = [t for t in b if t[0] == 'decl']
        rest = [shuffle_inner(t, r) for t in b if t[0] != 'decl']
        r.shuffle(rest)
        bodies.append(head + rest)
    return ('disj', bodies)


def clone(p):
    import copy
    return copy.deepcopy(p)


def map_form(f, fn):
    k = f[0]
    if k in ('b', 'cmp', 'xx', 'eeq', 'ene'):
        g = f
    elif k == 'not':
        g = ('not', map_form(f[1], fn))
    elif k in ('and', 'or', 'xor'):
        g = (k, [map_form(x, fn) for x in f[1]])
    else:
        g = (k, map_form(f[1], fn), map_form(f[2], fn))
    return fn(g)


def rewrite_stmt(s, fn):
    if s[0] == 'c':
        return ('c', map_form(s[1], fn))
    if s[0] == 'disj':
        return ('disj', [[rewrite_stmt(t, fn) for t in b] for b in s[1]])
    return s


def imp_as_or(f):
    if f[0] == 'imp' and simple(f[2]):
        return ('or', [f[2], ('not', f[1])])          # a -> b  ==  b | !a   (the simple operand is printed first)
    return f


def demorgan(f):
    if f[0] == 'not' and f[1][0] == 'cmp':
        return ('cmp', NEGOP[f[1][1]], f[1][2])                # !(e < 0)  ==  e >= 0
    if f[0] == 'not' and f[1][0] in ('eeq', 'ene'):
        return ('ene' if f[1][0] == 'eeq' else 'eeq', f[1][1], f[1][2])
    if f[0] == 'neq':
        return ('not', ('iff', f[1], f[2]))
    return f


def rename(p, ren):
    def rf(f):
        k = f[0]
        if k == 'b':
            return ('b', ren[f[1]])
        if k == 'cmp':
            return ('cmp', f[1], ({ren[x]: c for x, c in f[2][0].items()}, f[2][1]))
        if k == 'xx':
            return ('xx', ren[f[1]], f[2])
        if k in ('eeq', 'ene'):
            return (k, ren[f[1]], ren[f[2]])
        if k == 'not':
            return ('not', rf(f[1]))
        if k in ('and', 'or', 'xor'):
            return (k, [rf(g) for g in f[1]])
        return (k, rf(f[1]), rf(f[2]))

    def rs(s):
        if s[0] == 'c':
            return ('c', rf(s[1]))
        if s[0] == 'decl':
            return ('decl', s[1], ren[s[2]])
        if s[0] == 'cost':
            return s
        return ('disj', [[rs(t) for t in b] for b in s[1]])
    return {'decls': [(t, ren[n]) for t, n in p['decls']], 'stmts': [rs(s) for s in p['stmts']], 'enums': dict(p.get('enums', {})),
            'classes': list(p.get('classes', ()))}
