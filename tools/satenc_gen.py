"""Generator of construction histories for the C13 (sat_core encodings) correspondence and truth-table judge.

A history is a list of protocol lines (see harness/h_satenc.cpp). Literals are 2*var+sign. The generator tracks the
variable count it expects only loosely (results of requests are fed back by a *static* guess: it never needs the real
returned literal, because argument pools are user variables, constants and 'result placeholders' resolved by the
runner).  To keep the runner simple, placeholders are resolved here by running the implementation harness
incrementally -- no: histories are generated blind; results of earlier requests are referenced through the token
`$k` (result of the k-th request of this history, `~$k` for its negation), substituted by the runner from the
IMPLEMENTATION's answers before the line is sent to both sides in lock-step.
"""

ARG_COUNTS = [0, 1, 2, 2, 2, 3, 3, 3, 4, 4, 4, 5, 5, 6, 7, 8, 9, 9, 10, 10, 12, 15, 16, 16, 17, 17, 20]
SMALL_COUNTS = [0, 1, 2, 2, 3, 3, 4, 4, 5, 5, 6]
KINDS = ["E", "A", "O", "M", "X"]
STABLE_BOUND = 16  # libstdc++ std::sort is an insertion sort (stable) below 16 elements


def neg(tok):
    if isinstance(tok, int):
        return tok ^ 1
    return tok[1:] if tok.startswith("~") else "~" + tok


class Hist:
    def __init__(self):
        self.lines = []      # list of (op, [tokens])
        self.nuser = 0
        self.nreq = 0
        self.tags = set()

    def add(self, op, toks=()):
        self.lines.append((op, list(toks)))


def gen_args(rng, h, kind, n, user_lits, res_toks, tags):
    """n argument tokens for a request of the given kind."""
    pool = list(user_lits)
    args = []
    distinct_vars_only = kind in ("A", "O", "C") and n >= STABLE_BOUND
    if distinct_vars_only:
        # one literal per variable (the tie's bound: std::sort by variable is not stable from 16 elements on)
        vs = sorted({x >> 1 for x in pool})
        rng.shuffle(vs)
        vs = vs[:n]
        args = [2 * v + rng.randint(0, 1) for v in vs]
        tags.add("n>=16-distinct-vars")
        rng.shuffle(args)
        return args
    while len(args) < n:
        r = rng.random()
        if args and r < 0.12:
            args.append(rng.choice(args))                       # duplicate
            tags.add("duplicate")
        elif args and r < 0.22:
            args.append(neg(rng.choice(args)))                  # complementary pair
            tags.add("complementary")
        elif res_toks and r < 0.36:
            t = rng.choice(res_toks)                            # nested construct
            args.append(t if rng.random() < 0.7 else neg(t))
            tags.add("nested")
        elif r < 0.39:
            args.append(rng.choice([0, 1]))                     # TRUE_lit / FALSE_lit
            tags.add("constant")
        else:
            args.append(rng.choice(pool))
    rng.shuffle(args)
    if n >= 3 and rng.random() < 0.15:
        # the interleaved pattern a, !a, a
        a = rng.choice(pool)
        args[0], args[1], args[2] = a, a ^ 1, a
        tags.add("interleaved-a-na-a")
    return args


def gen_history(rng, big=False):
    h = Hist()
    nuser = rng.choice([2, 3, 3, 4, 4, 5, 6]) if not big else rng.choice([8, 12, 17, 20, 24])
    for _ in range(nuser):
        h.add("V")
    h.nuser = nuser
    user_lits = [2 * v + s for v in range(1, nuser + 1) for s in (0, 1)]
    res_toks = []
    requests = []  # (kind, args) for permuted repeats
    nops = rng.randint(2, 9) if not big else rng.randint(1, 4)
    for _ in range(nops):
        r = rng.random()
        if r < 0.16:
            # root-level pre-assignment through a unit clause (mostly on user literals)
            if res_toks and rng.random() < 0.25:
                t = rng.choice(res_toks)
                h.add("C", [t if rng.random() < 0.6 else neg(t)])
                h.tags.add("assert-result")
            else:
                h.add("C", [rng.choice(user_lits)])
                h.tags.add("root-unit")
        elif r < 0.22:
            k = rng.choice([2, 2, 3])
            h.add("C", [rng.choice(user_lits) for _ in range(k)])
            h.tags.add("user-clause")
        elif r < 0.27:
            h.add("P")
            h.tags.add("propagate")
        elif r < 0.37 and requests:
            kind, args = rng.choice(requests)
            args = list(args)
            rng.shuffle(args)
            if len(args) >= STABLE_BOUND and kind in ("A", "O"):
                pass
            h.add(kind, args)
            res_toks.append("$%d" % h.nreq)
            h.nreq += 1
            h.tags.add("permuted-repeat")
        else:
            kind = rng.choice(KINDS)
            if kind == "E":
                args = gen_args(rng, h, kind, 2, user_lits, res_toks, h.tags)
            else:
                n = rng.choice(ARG_COUNTS if big else SMALL_COUNTS)
                if kind in ("A", "O") and n >= STABLE_BOUND:
                    n = min(n, nuser)
                args = gen_args(rng, h, kind, n, user_lits, res_toks, h.tags)
            h.add(kind, args)
            requests.append((kind, args))
            res_toks.append("$%d" % h.nreq)
            h.nreq += 1
            h.tags.add("%s%d" % (kind, len(args)))
    return h


def gen_grid_history(rng):
    """One product-encoding request over n user variables (n = 4..10, 16, 17, 20), optionally preceded by root
    assignments and followed by a permuted repeat / the other cardinality construct on the same arguments."""
    h = Hist()
    n = rng.choice([4, 4, 5, 5, 6, 7, 8, 9, 9, 10, 10, 16, 17, 20])
    for _ in range(n):
        h.add("V")
    h.nuser = n
    args = [2 * v + (0 if rng.random() < 0.2 else 1) for v in range(1, n + 1)]
    r = rng.random()
    if r < 0.3:
        h.add("C", [rng.choice(args) ^ 1])       # one argument false at root: n-1 arguments remain
        h.tags.add("grid-root-false")
    elif r < 0.4:
        h.add("C", [rng.choice(args)])
        h.tags.add("grid-root-true")
    if rng.random() < 0.2:
        args.append(rng.choice(args))
        h.tags.add("duplicate")
    rng.shuffle(args)
    kind = rng.choice(["M", "M", "X"])
    h.add(kind, args)
    h.nreq = 1
    h.tags.add("grid-%s%d" % (kind, n))
    if rng.random() < 0.4:
        a2 = list(args)
        rng.shuffle(a2)
        h.add(rng.choice(["M", "X"]), a2)
        h.nreq += 1
        h.tags.add("permuted-repeat")
    if rng.random() < 0.3:
        h.add("C", ["$0" if rng.random() < 0.7 else "~$0"])
        h.tags.add("assert-result")
    return h


def splittings(digits, maxv):
    """All ways to cut the digit string into decimal numbers in [1, maxv] without leading zeros."""
    if not digits:
        return [[]]
    out = []
    for n in (1, 2, 3):
        if n <= len(digits):
            head = digits[:n]
            if head[0] == "0" or int(head) > maxv:
                continue
            for rest in splittings(digits[n:], maxv):
                out.append([int(head)] + rest)
    return out


def gen_wide_history(rng):
    """Many variables (60-150, indices with 1, 2 and 3 decimal digits), new_var interleaved with long runs of distinct requests
    of different lengths; half of the histories request every construct over argument lists that are digit-wise re-splittings
    of each other (b5 b7 b9 / b5 b79 / b57 b9 ...), in both polarities. Every request is judged (JQ) right after it."""
    h = Hist()
    nuser = rng.randint(60, 150)
    first = rng.randint(nuser // 2, nuser)
    for _ in range(first):
        h.add("V")
    created = first
    h.nuser = nuser
    h.tags.add("wide")

    def more_vars():
        nonlocal created
        k = min(nuser - created, rng.randint(1, 12))
        for _ in range(k):
            h.add("V")
        created += k

    def lit(v, sign):
        return 2 * v + (1 if sign else 0)

    def request(kind, vs, signs):
        args = [lit(v, sg) for v, sg in zip(vs, signs)]
        if kind == "E":
            if len(args) < 2:
                return
            args = args[:2]
        h.add(kind, args)
        h.nreq += 1
        h.tags.add("wide-%s" % kind)

    if rng.random() < 0.5:
        h.tags.add("resplit")
        for _ in range(rng.randint(2, 4)):
            nd = rng.randint(3, 6)
            digits = "".join(rng.choice("123456789" if i == 0 or rng.random() < 0.85 else "0123456789") for i in range(nd))
            fam = [sp for sp in splittings(digits, created) if len(sp) == len(set(sp))]
            rng.shuffle(fam)
            fam = fam[:8]
            kinds = rng.sample(["A", "O", "M", "X", "E"], rng.randint(2, 4))
            for kind in kinds:
                for pol in rng.sample([True, False], rng.choice([1, 2])):
                    for sp in fam:
                        vs = list(sp)
                        rng.shuffle(vs)
                        request(kind, vs, [pol] * len(vs))
                        if rng.random() < 0.1 and created < nuser:
                            more_vars()
            if created < nuser and rng.random() < 0.7:
                more_vars()
    else:
        n_req = rng.randint(20, 45)
        for _ in range(n_req):
            r = rng.random()
            if r < 0.15 and created < nuser:
                more_vars()
                continue
            if r < 0.2:
                h.add("C", [lit(rng.randint(1, created), rng.random() < 0.5)])
                h.tags.add("root-unit")
                continue
            kind = rng.choice(["E", "A", "O", "M", "X"])
            k = 2 if kind == "E" else rng.choice([2, 2, 3, 3, 4, 5, 6, 8])
            # mix 1-, 2- and 3-digit indices
            pool = [rng.randint(1, min(9, created)), rng.randint(min(10, created), min(99, created)), rng.randint(min(100, created), created)]
            vs = []
            while len(vs) < k:
                v = rng.choice(pool) if rng.random() < 0.3 else rng.randint(1, created)
                if v not in vs:
                    vs.append(v)
            signs = [rng.random() < 0.6 for _ in vs]
            request(kind, vs, signs)
            if kind != "E" and rng.random() < 0.5:
                # closely related argument lists for the same construct: prefix, one more argument, one variable replaced, one sign
                # flipped, same index sum, same variables for another construct
                h.tags.add("related-lists")
                rel = []
                if len(vs) > 2:
                    rel.append((vs[:-1], signs[:-1]))
                extra = rng.randint(1, created)
                if extra not in vs:
                    rel.append((vs + [extra], signs + [True]))
                i = rng.randrange(len(vs))
                repl = rng.randint(1, created)
                if repl not in vs:
                    rel.append((vs[:i] + [repl] + vs[i + 1:], signs))
                rel.append((vs, signs[:i] + [not signs[i]] + signs[i + 1:]))
                if len(vs) >= 2 and vs[0] + 1 <= created and vs[1] - 1 >= 1 and vs[0] + 1 not in vs and vs[1] - 1 not in vs and vs[0] + 1 != vs[1] - 1:
                    rel.append(([vs[0] + 1, vs[1] - 1] + vs[2:], signs))
                rng.shuffle(rel)
                for rv, rs in rel[:rng.randint(1, 4)]:
                    request(kind if rng.random() < 0.7 else rng.choice(["A", "O", "M", "X"]), rv, rs)
    return h


def corner_histories():
    """Hand-written boundary histories (always run first)."""
    out = []

    def H(*lines):
        h = Hist()
        for ln in lines:
            tk = ln.split()
            toks = [int(t) if t.lstrip("-").isdigit() else t for t in tk[1:]]
            h.add(tk[0], toks)
            if tk[0] in KINDS:
                h.nreq += 1
        h.tags.add("corner")
        out.append(h)
    H("V", "M 3 2 3")                       # a, !a, a
    H("V", "M 3 3 2")
    H("V", "X 2")                           # exactly-one of a single negative literal
    H("V", "X 3")
    H("V", "E 3 3")
    H("V", "E 3 2")
    H("V", "V", "M 3 5", "X 3 5")           # at-most-one then exactly-one on the same arguments
    H("V", "V", "M 3 5", "C $0", "X 3 5")
    H("V", "V", "X 3 5", "M 3 5", "C ~$0")
    H("V", "V", "C 2", "X 3 4")             # argument false at root
    H("V", "V", "C 3", "M 3 3 5")           # argument true at root, repeated
    H("V", "V", "C 3", "M 3 2 5")
    H("V", "V", "C 3", "C 5", "M 3 5")
    H("V", "V", "C 3", "E 2 5")             # the fixed new_eq shortcut
    H("V", "V", "C 2", "E 2 5")
    H("X", "M", "A", "O")                   # empty argument lists
    H("V", "V", "V", "V", "M 3 2 3 5")
    H("V", "V", "V", "V", "M 3 5 7 9", "M 9 7 5 3", "X 3 5 7 9")
    H("V", "V", "V", "V", "V", "M 3 5 7 9 11", "X 11 9 7 5 3")
    H("V", "V", "V", "V", "V", "V", "V", "V", "V", "M 3 5 7 9 11 13 15 17 19")
    H("V", "V", "C 2 5", "C 3", "P", "A 3 5", "O 2 4", "E 3 5")   # root values obtained by propagation
    H("V", "V", "A 3 5", "A 5 3", "O $0 ~$1", "E $0 $1")
    H("V", "V", "V", "A 3 5 7", "C 3", "A 3 5 7", "A 5 7")
    H("V", "A 1 3", "O 0 3", "A 0 3", "O 1 3", "M 1 1 3", "X 1 0 3", "E 1 3", "E 0 3")
    return out
