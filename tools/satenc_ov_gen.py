"""Generator of histories for the C14 (ov_theory) correspondence: new_var / new_var(lits, vals) / new_eq at root level,
root-level exclusions of values through unit clauses, and assume / pop over the value literals.
Tokens: @v.k = allows(v, k) (resolved by each side with its own state), ~@v.k its negation."""


class Hist:
    def __init__(self):
        self.lines = []
        self.tags = set()

    def add(self, *toks):
        self.lines.append(" ".join(str(t) for t in toks))


def gen_history(rng, small=True):
    h = Hist()
    doms = []          # per variable: list of values (distinct, as the model's domain keys)
    level = 0
    chosen, stack = [], []   # variables with a positively assumed value; (len(chosen), len(excluded)) per level
    chosen_val, excluded, litvars, n_root_excl = {}, [], set(), [0]
    pool = list(range(0, 8 if small else 14))
    nvars = rng.choice([2, 2, 3, 3, 4]) if small else rng.choice([3, 4, 5, 6])
    budget = 16 if small else 60   # rough bound on the number of propositional variables (for the judge)

    def new_var():
        kind = rng.random()
        size = rng.choice([1, 1, 2, 2, 3, 3, 4] if small else [1, 2, 3, 4, 5, 6, 9])
        if doms and kind < 0.35:
            # overlapping / nested / disjoint with an existing domain
            base = rng.choice(doms)
            mode = rng.choice(["nested", "overlap", "disjoint", "same"])
            if mode == "nested":
                vals = rng.sample(base, max(1, min(len(base), size)))
            elif mode == "same":
                vals = list(base)
            elif mode == "disjoint":
                rest = [v for v in pool if v not in base]
                vals = rng.sample(rest, max(1, min(len(rest), size))) if rest else [rng.choice(pool)]
            else:
                vals = list(set(rng.sample(base, max(1, len(base) // 2)) + rng.sample(pool, min(len(pool), size))))
            h.tags.add("dom-" + mode)
        else:
            vals = rng.sample(pool, min(len(pool), size))
        rng.shuffle(vals)
        items = list(vals)
        if len(items) > 1 and rng.random() < 0.08:
            items.append(rng.choice(items))          # a repeated item (first binding wins, an orphan variable is created)
            h.tags.add("repeated-item")
        enforce = 0 if rng.random() < 0.12 else 1
        if not enforce:
            h.tags.add("not-enforced")
        if len(vals) == 1:
            h.tags.add("singleton")
        h.add("N", enforce, *items)
        seen = []
        for v in items:
            if v not in seen:
                seen.append(v)
        doms.append(seen)

    for _ in range(nvars):
        new_var()
    nops = rng.randint(2, 8 if small else 14)
    for _ in range(nops):
        r = rng.random()
        if level == 0 and r < 0.40:
            a, b = rng.randrange(len(doms)), rng.randrange(len(doms))
            if rng.random() < 0.08:
                b = a
                h.tags.add("eq-same-var")
            h.add("Q", a, b)
            if a != b:
                inter = set(doms[a]) & set(doms[b])
                h.tags.add("eq-disjoint" if not inter else "eq-overlap" if inter != set(doms[a]) or inter != set(doms[b]) else "eq-same-domain")
        elif level == 0 and r < 0.48:
            new_var()
        elif level == 0 and r < 0.56:
            # exclude (or fix) a value at root level
            v = rng.randrange(len(doms))
            k = rng.choice(doms[v])
            rem = [k2 for k2 in doms[v] if (v, k2) not in excluded]
            if rng.random() < 0.75:
                if len(rem) >= 2 or rng.random() < 0.1:
                    k = rng.choice(rem) if rem else k
                    h.add("C", "~@%d.%d" % (v, k))
                    excluded.append((v, k))
                    h.tags.add("root-exclude")
            else:
                k = rng.choice(rem) if rem else k
                h.add("C", "@%d.%d" % (v, k))
                for k2 in rem:
                    if k2 != k:
                        excluded.append((v, k2))
                h.tags.add("root-fix")
            n_root_excl[0] = len(excluded)
        elif level == 0 and r < 0.60 and len(doms) >= 1:
            # a variable whose values are controlled by existing literals
            v = rng.randrange(len(doms))
            ks = rng.sample(doms[v], min(len(doms[v]), rng.choice([1, 2, 3])))
            lits = ["@%d.%d" % (v, k) if rng.random() < 0.8 else "~@%d.%d" % (v, k) for k in ks]
            vals = [rng.choice(pool) for _ in ks]
            h.add("L", *(lits + ["|"] + vals))
            seen = []
            for x in vals:
                if x not in seen:
                    seen.append(x)
            doms.append(seen)
            litvars.add(len(doms) - 1)
            h.tags.add("lit-var")
        elif r < 0.86:
            # mostly consistent assumptions (an approximate bookkeeping of the values still possible per variable)
            cands = [v for v in range(len(doms)) if v not in litvars]
            v = rng.choice(cands) if cands and rng.random() < 0.9 else rng.randrange(len(doms))
            rem = [k for k in doms[v] if (v, k) not in excluded]
            if rng.random() < 0.1 or not rem:
                k = rng.choice(doms[v])                    # anything, possibly conflicting
                h.add("A", ("@%d.%d" if rng.random() < 0.5 else "~@%d.%d") % (v, k))
            elif v in chosen or len(rem) < 2 or rng.random() < 0.35:
                k = rng.choice(rem)
                if v in chosen or len(rem) < 2:
                    h.add("A", "@%d.%d" % (v, chosen_val.get(v, k)))   # re-assume what already holds
                else:
                    h.add("A", "@%d.%d" % (v, k))
                    chosen.append(v)
                    chosen_val[v] = k
                    for k2 in rem:
                        if k2 != k:
                            excluded.append((v, k2))
            else:
                k = rng.choice(rem)
                h.add("A", "~@%d.%d" % (v, k))
                excluded.append((v, k))
            stack.append((len(chosen), len(excluded)))
            level += 1
            h.tags.add("assume")
        elif level > 0:
            h.add("O")
            level -= 1
            stack.pop()
            nc, ne = stack[-1] if stack else (0, n_root_excl[0])
            for v in chosen[nc:]:
                chosen_val.pop(v, None)
            del chosen[nc:]
            del excluded[ne:]
            h.tags.add("pop")
        else:
            a, b = rng.randrange(len(doms)), rng.randrange(len(doms))
            h.add("Q", a, b)
    while level > 0 and rng.random() < 0.7:
        h.add("O")
        level -= 1
    return h


def gen_wide_history(rng):
    """12-40 object variables created INTERLEAVED with new_eq requests (so that anything computed from the current number of
    variables changes between requests), pairs whose indices have one and two decimal digits, including pairs that are digit-wise
    re-splittings of each other ((1,12)/(11,2), (1,23)/(12,3), (2,13)/(21,3) ...), both argument orders, repeated requests.
    Every equality literal is judged (JQ) right after the request."""
    h = Hist()
    h.tags.add("wide")
    target = rng.randint(12, 40)
    pool = list(range(0, 6))
    doms = []

    def new_var():
        size = rng.choice([1, 2, 2, 2, 3])
        vals = rng.sample(pool[:4] if rng.random() < 0.7 else pool, size)
        enforce = 0 if (size > 1 and rng.random() < 0.5) else 1   # unenforced variables need no exactly-one encoding: smaller networks
        h.add("N", enforce, *vals)
        doms.append(vals)

    for _ in range(rng.randint(2, 6)):
        new_var()
    pairs = []
    # re-splittings of one digit string into two indices
    for _ in range(6):
        digits = "".join(rng.choice("123") for _ in range(3))
        a, b = (int(digits[0]), int(digits[1:])), (int(digits[:2]), int(digits[2]))
        pairs += [a, b]
    steps = 0
    while (len(doms) < target or pairs) and steps < 200:
        steps += 1
        r = rng.random()
        ready = [p for p in pairs if max(p) < len(doms) and p[0] != p[1]]
        if ready and r < 0.45:
            p = ready[0]
            pairs.remove(p)
            a, b = p if rng.random() < 0.5 else (p[1], p[0])
            h.add("Q", a, b)
            h.tags.add("resplit-pair")
        elif len(doms) >= 2 and r < 0.7:
            a = rng.randrange(len(doms))
            b = rng.randrange(len(doms))
            h.add("Q", a, b)
        elif len(doms) < target:
            new_var()
        elif not ready:
            break
    # a long run of further requests over many different pairs: pairs sharing an end point, pairs with equal index sums /
    # products / digit strings, both argument orders, some repeated
    n = len(doms)
    for _ in range(rng.randint(15, 40)):
        a = rng.randrange(n)
        mode = rng.random()
        if mode < 0.3:
            b = rng.randrange(n)
        elif mode < 0.5:
            b = (a + rng.choice([1, 2, 9, 10, 11])) % n
        elif mode < 0.7:
            # same sum as the previous pair
            s = sum(last) if (last := getattr(h, "_last", None)) else a
            b = s - a if 0 <= s - a < n else rng.randrange(n)
        else:
            t = str(a) + str(rng.randrange(10))
            b = int(t) if int(t) < n else rng.randrange(n)
        h._last = (a, b)
        h.add("Q", a, b)
    return h


def gen_multi_true_history(rng):
    """Variables WITHOUT the enforced exactly-one (new_var(items, false), the way solver enums are created) and variables over
    user-supplied literals (new_var(lits, vals)) with 2-4 value literals made True at once -- by unit clauses, by assume, through an
    asserted equality with another variable -- and some made False; value() is judged after every step, at every level."""
    h = Hist()
    h.tags.add("multi-true")
    pool = list(range(0, 8))
    size = rng.choice([3, 4, 4, 5, 6])
    vals = rng.sample(pool, size)
    h.add("N", 0, *vals)                               # variable 0: not enforced
    doms = [list(vals)]
    if rng.random() < 0.6:
        other = list(vals) if rng.random() < 0.5 else list(set(rng.sample(vals, max(2, size - 1)) + rng.sample(pool, 2)))
        rng.shuffle(other)
        h.add("N", 0, *other)                          # variable 1: not enforced, overlapping
        doms.append(other)
    if rng.random() < 0.6:
        ks = rng.sample(vals, rng.choice([2, 3, min(4, size)]))
        lits = ["@0.%d" % k if rng.random() < 0.8 else "~@0.%d" % k for k in ks]
        nv = rng.sample(pool, len(ks))
        h.add("L", *(lits + ["|"] + nv))               # a variable over user-supplied literals
        doms.append(nv)
        h.tags.add("lit-var")
    if rng.random() < 0.3:
        h.add("N", 1, *rng.sample(pool, rng.choice([2, 3])))   # an enforced one, for contrast
        doms.append(None)
    neq = 0
    if len(doms) > 1 and doms[1] is not None and rng.random() < 0.6 and set(doms[0]) & set(doms[1]):
        h.add("Q", 0, 1)
        h.add("C", "$%d" % neq)                        # b == c asserted: c's true values become b's
        neq += 1
        h.tags.add("asserted-equality")
    target = 1 if (neq and rng.random() < 0.7) else 0
    tv = rng.sample(doms[target], min(len(doms[target]), rng.choice([2, 2, 3, 4])))
    fv = [k for k in doms[target] if k not in tv]
    rng.shuffle(fv)
    fv = fv[:rng.randint(0, len(fv))]
    steps = [("T", k) for k in tv] + [("F", k) for k in fv]
    rng.shuffle(steps)
    level = 0
    for kind, k in steps:
        tok = ("@%d.%d" if kind == "T" else "~@%d.%d") % (target, k)
        if level > 0 or rng.random() < 0.5:
            h.add("A", tok)
            level += 1
        else:
            h.add("C", tok)
        if rng.random() < 0.15 and level == 0 and len(doms) > 1 and doms[1] is not None:
            h.add("Q", rng.randrange(2), rng.randrange(2))
            neq += 1
    while level > 0:
        h.add("O")
        level -= 1
    return h


def gen_very_wide_history(rng):
    """115-140 object variables with small domains (2-3 values, mostly without the exactly-one encoding so that creation is cheap),
    created first; then new_eq on pairs whose decimal ids are digit-wise re-splittings of one another with 3-digit ids
    ((1,112)/(11,12), (2,123)/(21,23), (12,130)/(121,30) ...), in both request orders; every request is judged (JQ)."""
    h = Hist()
    h.tags.add("very-wide")
    n = rng.randint(115, 140)
    for _ in range(n):
        size = rng.choice([2, 2, 3])
        vals = rng.sample([0, 1, 2, 3], size)
        h.add("N", 1 if rng.random() < 0.15 else 0, *vals)
    fams = []
    for d in range(1000, 10000):
        t = str(d)
        if t[1] == "0" or t[2] == "0":
            continue
        p1, p2 = (int(t[0]), int(t[1:])), (int(t[:2]), int(t[2:]))
        if max(p1) < n and max(p2) < n and p1[0] != p1[1] and p2[0] != p2[1]:
            fams.append([p1, p2])
    for d in range(10000, 20000):
        t = str(d)
        if t[2] == "0" or t[3] == "0":
            continue
        p1, p2 = (int(t[:2]), int(t[2:])), (int(t[:3]), int(t[3:]))
        if max(p1) < n and max(p2) < n and p1[0] != p1[1] and p2[0] != p2[1]:
            fams.append([p1, p2])
    rng.shuffle(fams)
    for fam in fams[:rng.randint(10, 16)]:
        prs = list(fam)
        rng.shuffle(prs)
        for a, b in prs:
            if rng.random() < 0.5:
                a, b = b, a
            h.add("Q", a, b)
            if rng.random() < 0.3:
                h.add("Q", b, a)
        h.tags.add("resplit-3digit")
    return h


def corner_histories():
    out = []

    def H(*lines):
        h = Hist()
        h.lines = list(lines)
        h.tags.add("corner")
        out.append(h)
    H("N 1 0 1 2", "N 1 1 2 3", "Q 0 1", "Q 1 0", "A @0.1", "A @1.2", "O", "O")          # test_ov-like
    H("N 1 5", "N 1 5", "Q 0 1")                                                        # two singletons, same value
    H("N 1 5", "N 1 6", "Q 0 1")                                                        # two singletons, disjoint
    H("N 1 5", "N 1 4 5 6", "Q 0 1", "Q 1 0", "A ~@1.5")                                # singleton vs larger
    H("N 1 0 1", "N 1 2 3", "Q 0 1")                                                    # disjoint
    H("N 1 0 1 2", "Q 0 0")                                                             # x = x
    H("N 1 0 1 2 3", "N 1 2 3 4 5", "Q 0 1", "A @0.0", "O", "A @0.2", "A ~@1.2")        # pruned value / conflict
    H("N 1 0 1 2", "N 1 0 1 2", "C ~@0.0", "Q 0 1", "A @1.0")                           # value excluded at root before the equality
    H("N 1 0 1 2", "N 1 0 1 2", "C @0.1", "Q 0 1")                                      # value fixed at root before the equality
    H("N 1 0 1 2", "N 1 0 1 2", "C @0.1", "C @1.1", "Q 0 1")                            # both fixed: literal forced true
    H("N 1 0 1 2", "N 1 0 1 2", "C @0.1", "C @1.2", "Q 0 1")                            # fixed to different values
    H("N 0 0 1 2", "N 1 0 1", "Q 0 1", "A @0.2")                                        # not enforced
    H("N 1 0 1 2 3 4 5 6 7 8", "N 1 0 1 2 3 4 5 6 7 8", "Q 0 1", "A @0.3")              # 9 values: product encoding
    H("N 1 0 1 1 2", "N 1 1 2", "Q 0 1")                                                # repeated item
    H("N 1 0 1", "L @0.0 @0.1 | 3 4", "N 1 3 4", "Q 1 2")                               # literals shared between variables
    return out
