"""Generators of difference-logic histories (C10 / C12). A generator talks to a live harness session (the
IMPLEMENTATION) and looks at the dumped state to choose the next command: which constraint literals exist, which are
still undefined, whether the last propagation reported a conflict. The commands are recorded; the recorded script is
afterwards replayed on the extracted model and compared (tools/dl_common.py), and judged (tools/dl_judge.py).

Profiles
  hist      primitive sat_core steps (assume = push; enq; drain / pop / assert at root / several enqueues before a
            drain), several constraints per pair, repeated tightening of one pair across levels, constraints and
            variables created in between, both polarities
  growth    more than 40 time points from a constructor size of 16 (capacities 16 -> 25 -> 38 -> 58), chains
  rel       all five relations x {0,1,2 variables} x sign of the leading coefficient x variable order x integer /
            rational constants, bounds / distance / equates on expressions, on networks with asserted root constraints
  realsat   the real sat_core API (new_clause / propagate / assume / pop / check) with clauses between constraint
            literals: conflict analysis, backjumping and learnt clauses interleave with the theory (judge only)
"""
from fractions import Fraction

from dl_common import parse_state, parse_result

RELS = ["lt", "leq", "eq", "geq", "gt"]


def frac_s(x):
    x = Fraction(x)
    return "%d/%d" % (x.numerator, x.denominator) if x.denominator != 1 else str(x.numerator)


class Gen:
    def __init__(self, rng, sess, theory, cov):
        self.rng, self.s, self.theory, self.cov = rng, sess, theory, cov
        self.st = None
        self.level = 0
        self.dead = False
        self.last = ""

    # -------------------------------------------------------------------------------------------
    def cmd(self, line):
        r, s = self.s.cmd(line)
        self.last = r or ""
        k = line.split()[0]
        self.cov[k] = self.cov.get(k, 0) + 1
        st = parse_state(self.theory, s) if s else None
        if st is None or r is None or r.startswith("?"):
            self.dead = True
            return r
        self.st = st
        self.level = len(st.T) - 1
        if "prop false" in r:
            self.cov["conflicts"] = self.cov.get("conflicts", 0) + 1
        self.cov["lemmas"] = self.cov.get("lemmas", 0) + r.count("E2:")
        return r

    def init(self, size):
        self.cmd("init %s %d" % (self.theory, size))

    def dist_s(self, small=False):
        rng = self.rng
        r = rng.choice([0, 0, 1, -1, 2, 3, -2, 5, -4, 7, 10, -6, 12]) if not small else rng.choice([0, 1, -1, 2, -2, 3])
        if self.theory == "idl":
            return str(r)
        if rng.random() < 0.3:
            r = Fraction(r) + rng.choice([Fraction(1, 2), Fraction(-1, 2), Fraction(1, 3), Fraction(3, 2)])
        e = rng.choice([0, 0, 0, 1, -1, -1, 2])
        return "%s,%d/1" % ("%d/%d" % (Fraction(r).numerator, Fraction(r).denominator), e)

    def undefined_constraints(self):
        return [v for v in sorted(self.st.V) if self.st.value(v) == "U"]

    def new_vars(self, k):
        for _ in range(k):
            self.cmd("newvar")

    def rand_pair(self, hot=None):
        n = self.st.n
        if hot and self.rng.random() < 0.5:
            return hot if self.rng.random() < 0.6 else (hot[1], hot[0])
        a = self.rng.randrange(n)
        b = self.rng.randrange(n)
        while b == a:
            b = self.rng.randrange(n)
        return a, b

    def new_dist(self, hot=None, small=False):
        a, b = self.rand_pair(hot)
        if self.rng.random() < 0.08 and self.level == 0:
            self.cmd("newdist2 %d %d %s %s" % (a, b, self.dist_s(True), self.dist_s()))
        else:
            self.cmd("newdist %d %d %s" % (a, b, self.dist_s(small)))

    def conflict_pending(self):
        return "prop false" in self.last

    # -------------------------------------------------------------------------------------------
    def lin_s(self, vs, coefs, k):
        return ";".join([frac_s(k)] + ["%d:%s" % (v, frac_s(c)) for v, c in zip(vs, coefs)])

    def rand_const(self, integral):
        rng = self.rng
        k = Fraction(rng.choice([0, 1, -1, 2, 3, -3, 5, 8, -7, 10, 20]))
        if not integral and rng.random() < 0.5:
            k += rng.choice([Fraction(1, 2), Fraction(-1, 3), Fraction(5, 4)])
        return k

    def rand_rel_cmd(self):
        """one relation between difference expressions; shapes are drawn so that all case splits are hit"""
        rng = self.rng
        n = self.st.n
        shape = rng.choice(["0", "1", "1", "1s", "2", "2", "2", "2s", "2bad", "3", "1f", "2f"])
        c = Fraction(rng.choice([1, 1, -1, -1, 2, -2, 3, -3]))
        if shape.endswith("f") or (self.theory == "rdl" and rng.random() < 0.3):
            c *= rng.choice([Fraction(1, 2), Fraction(3, 2), Fraction(1), Fraction(2, 3)])
        integral = self.theory == "idl" and rng.random() < 0.8
        k1, k2 = self.rand_const(integral), self.rand_const(integral)
        if integral and rng.random() < 0.7:
            k1, k2 = k1 * c, k2 * c           # keeps (k1 - k2) / c integral
        vs = list(range(1, n)) or [0]
        x = rng.choice(vs)
        y = rng.choice([v for v in vs if v != x] or [x])
        z = rng.choice(vs)
        if shape == "0":
            left, right = self.lin_s([], [], k1), self.lin_s([], [], k2)
            if rng.random() < 0.5:
                left, right = self.lin_s([x], [c], k1), self.lin_s([x], [c], k2)     # the variable cancels
        elif shape in ("1", "1f"):
            left, right = self.lin_s([x], [c], k1), self.lin_s([], [], k2)
            if rng.random() < 0.5:
                left, right = self.lin_s([], [], k1), self.lin_s([x], [-c], k2)
        elif shape == "1s":                                                            # c1*x on the left, c2*x on the right
            c2 = c + rng.choice([1, -1, 2, -2])
            left, right = self.lin_s([x], [c], k1), self.lin_s([x], [c2], k2)
        elif shape in ("2", "2f"):
            left, right = self.lin_s([x], [c], k1), self.lin_s([y], [c], k2)
            if rng.random() < 0.3:
                left, right = self.lin_s([x, y], [c, -c], k1), self.lin_s([], [], k2)
        elif shape == "2s":                                                            # both variables on both sides
            left, right = self.lin_s([x, y], [c + 1, 1], k1), self.lin_s([x, y], [1, c + 1], k2)
        elif shape == "2bad":
            left, right = self.lin_s([x], [c], k1), self.lin_s([y], [c * rng.choice([2, -1, Fraction(1, 2)])], k2)
        else:
            left, right = self.lin_s([x, y], [c, -c], k1), self.lin_s([z if z not in (x, y) else 0], [1], k2)
        self.cov["rel_shape_" + shape] = self.cov.get("rel_shape_" + shape, 0) + 1
        return left, right

    def rand_lin(self):
        rng = self.rng
        n = self.st.n
        vs = list(range(1, n)) or [0]
        x = rng.choice(vs)
        y = rng.choice([v for v in vs if v != x] or [x])
        c = Fraction(rng.choice([1, -1, 2, -2, 3, -1]))
        if rng.random() < 0.25:
            c *= rng.choice([Fraction(1, 2), Fraction(3, 2)])
        k = self.rand_const(self.theory == "idl" and rng.random() < 0.85)
        t = rng.random()
        if t < 0.15:
            return self.lin_s([], [], k)
        if t < 0.55:
            return self.lin_s([x], [c], k)
        if t < 0.9 and x != y:
            return self.lin_s([x, y], [c, -c], k)
        if t < 0.95 and x != y:
            return self.lin_s([x, y], [c, c], k)
        return self.lin_s([x], [c], k)

    def query(self):
        rng = self.rng
        n = self.st.n
        t = rng.random()
        if t < 0.2:
            self.cmd("bounds %d" % rng.randrange(n))
        elif t < 0.4:
            self.cmd("dist %d %d" % (rng.randrange(n), rng.randrange(n)))
        elif t < 0.65:
            self.cmd("boundsl " + self.rand_lin())
        elif t < 0.85:
            self.cmd("distl %s %s" % (self.rand_lin(), self.rand_lin()))
        else:
            self.cmd("equates %s %s" % (self.rand_lin(), self.rand_lin()))

    # -------------------------------------------------------------------------------------------
    def opposing(self, v):
        """an undefined constraint on the reverse pair of v's (a conflict candidate when both are enqueued before a drain)"""
        f, t, _ = self.st.V[v]
        return [u for u in self.undefined_constraints() if u != v and self.st.V[u][0] == t and self.st.V[u][1] == f]

    def assume_random(self, prefer=None):
        und = self.undefined_constraints()
        if not und:
            return False
        v = prefer if (prefer in und) else self.rng.choice(und)
        s = 1 if self.rng.random() < 0.65 else 0
        if self.rng.random() < 0.3 and len(und) > 1:
            # several enqueues before the theory sees any of them: the only way to a conflict, because the lemma pass
            # assigns every constraint the distances decide
            opp = self.opposing(v)
            w = self.rng.choice(opp) if opp and self.rng.random() < 0.7 else self.rng.choice([u for u in und if u != v])
            self.cmd("push")
            self.cmd("enq %d %d" % (v, s))
            self.cmd("enq %d %d" % (w, s if w in opp else self.rng.randrange(2)))
            if self.rng.random() < 0.3 and len(und) > 2:
                self.cmd("enq %d %d" % (self.rng.choice([u for u in und if u not in (v, w)]), self.rng.randrange(2)))
            if self.rng.random() < 0.4:
                self.cmd("prop")
                if not self.conflict_pending():
                    self.cmd("drain")
            else:
                self.cmd("drain")
        else:
            self.cmd("assume %d %d" % (v, s))
        return True

    def settle(self):
        """after a conflict the level must be popped; at root level the history ends"""
        if self.conflict_pending():
            if self.level > 0:
                self.cmd("pop")
                return True
            self.dead = True
            return False
        return True

    def hist(self, steps):
        rng = self.rng
        self.init(rng.choice([2, 3, 5, 5, 16]))
        self.new_vars(rng.randint(2, 7))
        hot = self.rand_pair()
        for _ in range(rng.randint(3, 9)):
            self.new_dist(hot)
        # some root-level assertions
        for _ in range(rng.randint(0, 3)):
            und = self.undefined_constraints()
            if und and not self.dead:
                self.cmd("assert %d %d" % (rng.choice(und), 1 if rng.random() < 0.7 else 0))
                if not self.settle():
                    return
        for _ in range(steps):
            if self.dead:
                return
            t = rng.random()
            if t < 0.45:
                if not self.assume_random():
                    self.new_dist(hot)
                if not self.settle():
                    return
            elif t < 0.62:
                if self.level > 0:
                    self.cmd("pop")
                    if rng.random() < 0.3 and self.level > 0:
                        self.cmd("pop")
            elif t < 0.76:
                self.new_dist(hot, small=rng.random() < 0.5)
            elif t < 0.80 and self.level == 0:
                und = self.undefined_constraints()
                if und:
                    self.cmd("assert %d %d" % (rng.choice(und), 1 if rng.random() < 0.6 else 0))
                    if not self.settle():
                        return
            elif t < 0.84 and self.level == 0:
                self.cmd("newvar")
            elif t < 0.90 and self.level == 0:
                l, r = self.rand_rel_cmd()
                self.cmd("rel %s %s %s" % (rng.choice(RELS), l, r))
            else:
                self.query()
        while self.level > 0 and not self.dead and rng.random() < 0.7:
            self.cmd("pop")

    def tighten(self):
        """one pair tightened again and again across levels, then unwound: the first-write-wins layers"""
        rng = self.rng
        self.init(rng.choice([3, 5]))
        self.new_vars(rng.randint(2, 4))
        a, b = self.rand_pair()
        n = self.st.n
        others = [(i, j) for i in range(n) for j in range(n) if i != j]
        bounds = sorted({rng.randint(-3, 14) for _ in range(rng.randint(3, 6))}, reverse=True)
        lits = []
        for bd in bounds:
            d = str(bd) if self.theory == "idl" else "%d/1,%d/1" % (bd, rng.choice([0, 0, -1, 1]))
            r = self.cmd("newdist %d %d %s" % (a, b, d))
            if r and r.startswith("lit +") and r != "lit +0":
                lits.append(int(r[5:]))
        for _ in range(rng.randint(2, 5)):
            i, j = rng.choice(others)
            self.cmd("newdist %d %d %s" % (i, j, self.dist_s()))
        for v in lits:
            if self.dead:
                return
            if self.st.value(v) == "U":
                self.cmd("assume %d 1" % v)
                if not self.settle():
                    return
            if rng.random() < 0.4:
                self.assume_random()
                if not self.settle():
                    return
            if rng.random() < 0.3:
                self.query()
        while self.level > 0 and not self.dead:
            self.cmd("pop")
            if rng.random() < 0.3:
                self.assume_random()
                if not self.settle():
                    return

    def growth(self):
        rng = self.rng
        self.init(16)
        target = rng.choice([27, 40, 41])
        chain_lits = []
        while self.st.n < target and not self.dead:
            self.cmd("newvar")
            v = self.st.n - 1
            if v >= 2 and rng.random() < 0.8:
                r = self.cmd("newdist %d %d %s" % (v - 1, v, self.dist_s(True)))
                if r and r.startswith("lit +") and r != "lit +0":
                    chain_lits.append(int(r[5:]))
            if rng.random() < 0.3 and chain_lits:
                w = chain_lits.pop(rng.randrange(len(chain_lits)))
                if self.st.value(w) == "U":
                    self.cmd("assert %d %d" % (w, 1 if rng.random() < 0.8 else 0))
                    if not self.settle():
                        return
        for _ in range(10):
            if self.dead:
                return
            t = rng.random()
            if t < 0.5:
                self.assume_random()
                if not self.settle():
                    return
            elif t < 0.7 and self.level > 0:
                self.cmd("pop")
            elif t < 0.85:
                self.new_dist()
            else:
                self.cmd("dist %d %d" % (rng.randrange(self.st.n), rng.randrange(self.st.n)))

    def boundary_newdist(self):
        """bounds exactly at, one unit below and one unit above an existing finite distance: the edges of the two shortcuts"""
        import math
        from dl_common import fmt_dist
        n = self.st.n
        cells = [(i, j) for i in range(n) for j in range(n) if i != j and self.st.D[i][j][0] != math.inf]
        if not cells:
            return
        i, j = self.rng.choice(cells)
        g = self.st.D[i][j]
        u = (Fraction(1), Fraction(0)) if self.theory == "idl" else (Fraction(0), Fraction(1))
        for d in (g, (g[0] - u[0], g[1] - u[1]), (g[0] + u[0], g[1] + u[1])):
            self.cmd("newdist %d %d %s" % (i, j, fmt_dist(self.theory, d)))
        for d in ((-g[0], -g[1]), (-g[0] - u[0], -g[1] - u[1]), (-g[0] + u[0], -g[1] + u[1])):
            self.cmd("newdist %d %d %s" % (j, i, fmt_dist(self.theory, d)))
        self.cov["boundary_newdist"] = self.cov.get("boundary_newdist", 0) + 6

    # -------------------------------------------------------------------------------------------
    def bound_s(self, r, e=0):
        return str(r) if self.theory == "idl" else "%d/1,%d/1" % (r, e)

    def fresh(self, r):
        """the variable of the literal just returned by newdist (None for a shortcut)"""
        r = (r or "").split(" | ")[0].strip()
        return int(r[5:]) if r.startswith("lit +") and r != "lit +0" else None

    def retighten(self):
        """the SAME cell tightened two or three times within ONE level (directly and through a third point), then the level is
        popped and the restored value is looked at, used by new constraints and by a partial re-assertion"""
        rng = self.rng
        self.init(rng.choice([3, 5, 16]))
        self.new_vars(rng.randint(3, 5))
        n = self.st.n
        a, b, c = rng.sample(range(n), 3)
        eps = (lambda: rng.choice([0, 0, -1, 1])) if self.theory == "rdl" else (lambda: 0)
        hi = rng.randint(9, 14)
        steps = sorted({hi - rng.randint(1, 3), hi - rng.randint(4, 6), hi - rng.randint(7, 9)}, reverse=True)
        root = self.fresh(self.cmd("newdist %d %d %s" % (a, b, self.bound_s(hi, eps()))))
        direct = [self.fresh(self.cmd("newdist %d %d %s" % (a, b, self.bound_s(d, eps())))) for d in steps[:2]]
        w1 = rng.randint(0, 2)
        via = [self.fresh(self.cmd("newdist %d %d %s" % (a, c, self.bound_s(w1, eps())))),
               self.fresh(self.cmd("newdist %d %d %s" % (c, b, self.bound_s(steps[-1] - w1 - rng.randint(0, 1), eps()))))]
        back = self.fresh(self.cmd("newdist %d %d %s" % (b, a, self.bound_s(-rng.randint(0, 2), eps()))))
        for _ in range(rng.randint(0, 3)):
            self.new_dist((a, b))
        if root is not None and rng.random() < 0.7:
            self.cmd("assert %d 1" % root)
            if not self.settle():
                return
        if rng.random() < 0.4 and back is not None and self.st.value(back) == "U":
            self.cmd("assume %d 1" % back)
            if not self.settle():
                return
        lits = [v for v in direct + via if v is not None and self.st.value(v) == "U"]
        if rng.random() < 0.5:
            rng.shuffle(lits)
        base = self.level
        self.cmd("push")
        for v in lits:
            self.cmd("enq %d 1" % v)
        if rng.random() < 0.5:
            for _ in lits:
                if self.dead or self.conflict_pending() or not self.st.Q:
                    break
                self.cmd("prop")
                if rng.random() < 0.3:
                    self.cmd("dist %d %d" % (a, b))
        if not self.conflict_pending():
            self.cmd("drain")
        self.cmd("dist %d %d" % (a, b))
        self.cmd("dist %d %d" % (b, a))
        while self.level > base and not self.dead:
            self.cmd("pop")
        # the restored value: queries, constraints decided / not decided by it, and a partial re-assertion
        self.cmd("dist %d %d" % (a, b))
        self.cmd("bounds %d" % b)
        self.boundary_cell(a, b)
        if lits:
            v = rng.choice(lits)
            if self.st.value(v) == "U":
                self.cmd("assume %d 1" % v)
                if self.settle():
                    self.cmd("dist %d %d" % (a, b))
        und = self.undefined_constraints()
        if und:
            self.cmd("assume %d %d" % (rng.choice(und), rng.randrange(2)))
            self.settle()
        while self.level > 0 and not self.dead:
            self.cmd("pop")
        self.cmd("dist %d %d" % (a, b))

    def boundary_cell(self, i, j):
        import math
        from dl_common import fmt_dist
        if self.dead:
            return
        g = self.st.D[i][j]
        if g[0] == math.inf:
            return
        u = (Fraction(1), Fraction(0)) if self.theory == "idl" else (Fraction(0), Fraction(1))
        for d in (g, (g[0] - u[0], g[1] - u[1])):
            self.cmd("newdist %d %d %s" % (i, j, fmt_dist(self.theory, d)))
        for d in ((-g[0] - u[0], -g[1] - u[1]), (-g[0], -g[1])):
            self.cmd("newdist %d %d %s" % (j, i, fmt_dist(self.theory, d)))

    def prepend(self, real):
        """a new edge from -> to whose `to` already reaches u through a chain of two or three asserted (non-root) edges; undecided
        constraints on (from, u) / (u, from) make the theory explain the new distances through the prepended predecessor; then a
        conflict through (from, u), pops and a partial re-assertion of the chain"""
        rng = self.rng
        self.init(rng.choice([5, 16]))
        self.new_vars(rng.randint(4, 6))
        n = self.st.n
        k = rng.choice([2, 2, 3]) if n >= 6 else 2
        pts = rng.sample(range(1, n), k + 2) if n - 1 >= k + 2 else rng.sample(range(n), k + 2)
        f, chain = pts[0], pts[1:]                       # f -> chain[0] -> chain[1] -> ... -> chain[-1] = u
        u = chain[-1]
        eps = (lambda: rng.choice([0, 0, -1])) if self.theory == "rdl" else (lambda: 0)
        ws = [rng.randint(-1, 4) for _ in range(k)]
        w0 = rng.randint(-1, 3)
        chain_lits = [self.fresh(self.cmd("newdist %d %d %s" % (chain[x], chain[x + 1], self.bound_s(ws[x], eps())))) for x in range(k)]
        head = self.fresh(self.cmd("newdist %d %d %s" % (f, chain[0], self.bound_s(w0, eps()))))
        total = w0 + sum(ws)
        probes = []
        for tgt, tot in [(u, total), (chain[1], w0 + ws[0])]:
            probes.append(self.fresh(self.cmd("newdist %d %d %s" % (f, tgt, self.bound_s(tot + rng.choice([0, 0, 1]), 0)))))
            probes.append(self.fresh(self.cmd("newdist %d %d %s" % (tgt, f, self.bound_s(-tot - rng.choice([1, 1, 2]), 0)))))
        closing = self.fresh(self.cmd("newdist %d %d %s" % (u, f, self.bound_s(-total - 3, 0))))
        if any(v is None for v in chain_lits + [head]):
            return
        ass = (lambda v: "sassume %d 1" % v) if real else (lambda v: "assume %d 1" % v)
        pop = "spop" if real else "pop"
        if real:
            self.cmd("sprop")
        for v in chain_lits:
            self.cmd(ass(v))
            if self.dead or (not real and not self.settle()):
                return
        self.cmd(ass(head))                                # the prepended edge: lemmas for the probes, explained through (f, u)
        if self.dead or (not real and not self.settle()):
            return
        self.cmd("dist %d %d" % (f, u))
        self.cmd(pop)
        if not real:
            # a conflict whose explanation walks row f from u
            if closing is not None and self.st.value(closing) == "U" and self.st.value(head) == "U":
                self.cmd("push")
                self.cmd("enq %d 1" % head)
                self.cmd("enq %d 1" % closing)
                self.cmd("drain")
                self.cmd("pop")
            for p in probes:
                if p is not None and self.st.value(p) == "U" and self.st.value(head) == "U" and rng.random() < 0.5:
                    self.cmd("push")
                    self.cmd("enq %d 1" % head)
                    self.cmd("enq %d %d" % (p, rng.randrange(2)))
                    self.cmd("drain")
                    self.cmd("pop")
        while self.level > 0 and not self.dead:
            self.cmd(pop)
        # partial re-assertion: the new edge and only a part of the chain
        part = [head] + chain_lits[:rng.randint(1, k - 1)]
        if rng.random() < 0.5:
            part.reverse()
        for v in part:
            if self.dead:
                return
            if self.st.value(v) == "U":
                self.cmd(ass(v))
                if not real and not self.settle():
                    return
        for tgt in (u, chain[1]):
            self.cmd("dist %d %d" % (f, tgt))
        for p in probes:
            if p is not None and self.st.value(p) == "U" and rng.random() < 0.5:
                self.cmd(ass(p))
                if not real and not self.settle():
                    return
        while self.level > 0 and not self.dead:
            self.cmd(pop)

    def negrel(self, real):
        """a relation literal (strict or not, any coefficient form) is created while the network does not decide it, assigned FALSE or
        TRUE (decision / unit clause at root / several enqueues at one level; with the real sat_core: unit clause, or a clause that
        propagates it later), and then the boundary is probed: queries on the expression, new relations at the boundary and one unit
        / one infinitesimal beside it, boundary constraints asserted together with it (must / must not conflict)"""
        rng = self.rng
        idl = self.theory == "idl"
        self.init(rng.choice([3, 5, 16]))
        self.new_vars(rng.randint(2, 4))
        n = self.st.n
        single = rng.random() < 0.35
        x = rng.randrange(1, n)
        y = 0 if single else rng.choice([v for v in range(1, n) if v != x])
        c = Fraction(rng.choice([1, 1, -1, -1, 2, -2, 3, -3]))
        if not idl and rng.random() < 0.3:
            c *= rng.choice([Fraction(1, 2), Fraction(3, 2)])
        mval = Fraction(rng.randint(-6, 9))
        if not idl and rng.random() < 0.5:
            mval += rng.choice([Fraction(1, 2), Fraction(-1, 2), Fraction(1, 3)])
        k0 = -mval * c                                    # c*(x - y) + k0  r  0   <=>   x - y  r'  mval
        k2 = self.rand_const(True) * (c if idl else 1)
        form = rng.choice(["sides", "left", "swapped"]) if not single else rng.choice(["single", "single_swapped"])
        if form == "sides":
            left, right = self.lin_s([x], [c], k0 + k2), self.lin_s([y], [c], k2)
        elif form == "left":
            left, right = self.lin_s([x, y], [c, -c], k0 + k2), self.lin_s([], [], k2)
        elif form == "swapped":
            left, right = self.lin_s([y], [-c], k0 + k2), self.lin_s([x], [-c], k2)
        elif form == "single":
            left, right = self.lin_s([x], [c], 0), self.lin_s([], [], -k0)
        else:
            left, right = self.lin_s([], [], k0), self.lin_s([x], [-c], 0)
        a, b = x, y

        def bnd(val, e=0):
            return str(int(val)) if idl else "%d/%d,%d/1" % (Fraction(val).numerator, Fraction(val).denominator, e)
        # a background that leaves the relation undecided
        for _ in range(rng.randint(0, 2)):
            others = [(i, j) for i in range(n) for j in range(n) if i != j and {i, j} != {a, b}]
            if others:
                i, j = rng.choice(others)
                r = self.cmd("newdist %d %d %s" % (i, j, self.dist_s()))
        if rng.random() < 0.5:
            self.cmd("newdist %d %d %s" % (b, a, bnd(mval + rng.randint(6, 9))))       # x_a - x_b <= far above
            v0 = self.fresh(self.last)
            if v0 is not None:
                self.cmd(("sclause %d 1" if real else "assert %d 1") % v0)
                if real:
                    self.cmd("sprop")
                elif not self.settle():
                    return
        # boundary constraints, created while everything is still undecided
        pre = []
        deltas = [(0, 0), (1, 0), (-1, 0)] + ([] if idl else [(0, 1), (0, -1)])
        if not idl or mval.denominator == 1:
            for dv, de in rng.sample(deltas, min(len(deltas), rng.choice([2, 3, 4]))):
                pre.append(self.fresh(self.cmd("newdist %d %d %s" % (b, a, bnd(mval + dv, de)))))        # x_a - x_b <= m + delta
                pre.append(self.fresh(self.cmd("newdist %d %d %s" % (a, b, bnd(-(mval + dv), -de)))))    # x_a - x_b >= m + delta
        pre = [v for v in pre if v is not None]
        rel = rng.choice(RELS)
        self.cov["negrel_" + rel] = self.cov.get("negrel_" + rel, 0) + 1
        if real:
            self.cmd("sprop")
        r0 = self.cmd("rel %s %s %s" % (rel, left, right))
        v = self.fresh(r0)
        pol = rng.randrange(2)
        if rel == "eq":
            pol = 1
        scalings = [Fraction(1), Fraction(-1), Fraction(2), Fraction(-3)]

        def probes(allow_eq):
            for _ in range(rng.randint(3, 6)):
                if self.dead:
                    return
                dv = rng.choice([0, 0, 1, -1])
                t = rng.random()
                sc = rng.choice(scalings)
                if t < 0.45:
                    r2 = rng.choice([q for q in RELS if allow_eq or q != "eq"])
                    if single:
                        self.cmd("rel %s %s %s" % (r2, self.lin_s([a], [sc], 0), self.lin_s([], [], sc * (mval + dv))))
                    else:
                        self.cmd("rel %s %s %s" % (r2, self.lin_s([a], [sc], 0), self.lin_s([b], [sc], sc * (mval + dv))))
                elif t < 0.6:
                    self.cmd("boundsl " + (self.lin_s([a], [sc], 0) if single else self.lin_s([a, b], [sc, -sc], sc * dv)))
                elif t < 0.75:
                    self.cmd("distl %s %s" % (self.lin_s([b], [1], 0) if not single else self.lin_s([], [], 0), self.lin_s([a], [1], 0)))
                elif t < 0.9:
                    self.cmd("equates %s %s" % (self.lin_s([a], [1], 0), self.lin_s([b], [1], mval + dv) if not single else self.lin_s([], [], mval + dv)))
                else:
                    self.cmd("dist %d %d" % (b, a))
        if v is None:
            probes(self.level == 0)
            return
        if real:
            if rng.random() < 0.5 or rel == "eq":
                self.cmd("sclause %d %d" % (v, pol))
                r = self.cmd("sprop")
                if r and r.startswith("false"):
                    return
            else:
                z = self.fresh(self.cmd("newdist 0 %d %s" % (a, bnd(mval + 40))))
                if z is None:
                    return
                self.cmd("sclause %d 0 %d %d" % (z, v, pol))
                self.cmd("sprop")
                if rng.random() < 0.5:
                    probes(True)
                self.cmd("sassume %d 1" % z)
            probes(self.level == 0)
            for w in pre:
                if self.dead:
                    return
                if self.st.value(w) == "U" and rng.random() < 0.6:
                    r = self.cmd("sassume %d %d" % (w, rng.randrange(2)))
                    if r and r.startswith("false") and self.level == 0:
                        return
                    if rng.random() < 0.5:
                        probes(self.level == 0)
            und = [w for w in pre if self.st.value(w) == "U"]
            if und:
                self.cmd("scheck " + " ".join("%d %d" % (w, rng.randrange(2)) for w in rng.sample(und, min(2, len(und)))))
            while self.level > 0 and not self.dead:
                self.cmd("spop")
            probes(True)
            return
        if rel == "eq" and v not in self.st.V:
            probes(True)
            return
        mode = rng.choice(["assume", "assert", "multi", "multi"])
        if mode == "assert":
            self.cmd("assert %d %d" % (v, pol))
            if not self.settle():
                return
            probes(True)
        elif mode == "assume":
            self.cmd("assume %d %d" % (v, pol))
            if not self.settle():
                return
            probes(False)
        if mode != "multi":
            for w in pre:
                if self.dead:
                    return
                if self.st.value(w) == "U" and rng.random() < 0.7:
                    self.cmd("assume %d %d" % (w, rng.randrange(2)))
                    if not self.settle():
                        return
                    if rng.random() < 0.4:
                        probes(False)
        # the literal and boundary constraints seen by the theory within ONE level: must / must not conflict
        while self.level > 0 and not self.dead:
            self.cmd("pop")
        for _ in range(rng.randint(2, 4)):
            if self.dead or self.st.value(v) != "U":
                break
            und = [w for w in pre if self.st.value(w) == "U"]
            if not und:
                break
            ws = rng.sample(und, min(len(und), rng.choice([1, 1, 2])))
            seq = [(v, pol)] + [(w, rng.randrange(2)) for w in ws]
            if rng.random() < 0.5:
                seq.reverse()
            self.cmd("push")
            for w, sg in seq:
                self.cmd("enq %d %d" % (w, sg))
            self.cmd("drain")
            if not self.conflict_pending() and rng.random() < 0.5:
                probes(False)
            self.cmd("pop")
        probes(True)

    def rel(self, count):
        rng = self.rng
        self.init(rng.choice([3, 5, 16]))
        self.new_vars(rng.randint(2, 5))
        # a network with some root constraints so that the TRUE / FALSE shortcuts fire
        for _ in range(rng.randint(0, 6)):
            self.new_dist()
            und = self.undefined_constraints()
            if und and rng.random() < 0.7:
                self.cmd("assert %d %d" % (rng.choice(und), 1 if rng.random() < 0.75 else 0))
                if not self.settle():
                    return
        for _ in range(count):
            if self.dead:
                return
            t = rng.random()
            if t < 0.08:
                self.boundary_newdist()
            elif t < 0.6:
                l, r = self.rand_rel_cmd()
                self.cmd("rel %s %s %s" % (rng.choice(RELS), l, r))
                if rng.random() < 0.3:
                    und = self.undefined_constraints()
                    if und:
                        self.cmd("assert %d %d" % (rng.choice(und), 1 if rng.random() < 0.7 else 0))
                        if not self.settle():
                            return
            else:
                self.query()

    def realsat(self, steps):
        rng = self.rng
        self.init(rng.choice([3, 5, 16]))
        self.new_vars(rng.randint(3, 7))
        hot = self.rand_pair()
        for _ in range(rng.randint(5, 12)):
            self.new_dist(hot)
        vs = sorted(self.st.V)
        # clauses between constraint literals
        for _ in range(rng.randint(0, 5)):
            if len(vs) >= 2:
                k = rng.choice([1, 2, 2, 3])
                lits = rng.sample(vs, min(k, len(vs)))
                r = self.cmd("sclause " + " ".join("%d %d" % (v, rng.randrange(2)) for v in lits))
                if r and r.startswith("false"):
                    return
        r = self.cmd("sprop")
        if r and r.startswith("false"):
            return
        for _ in range(steps):
            if self.dead:
                return
            t = rng.random()
            und = self.undefined_constraints()
            if t < 0.55 and und:
                r = self.cmd("sassume %d %d" % (rng.choice(und), 1 if rng.random() < 0.6 else 0))
                if r and r.startswith("false") and self.level == 0:
                    return
            elif t < 0.7:
                self.cmd("spop")
            elif t < 0.8 and und:
                k = min(len(und), rng.choice([1, 2, 3]))
                self.cmd("scheck " + " ".join("%d %d" % (v, rng.randrange(2)) for v in rng.sample(und, k)))
            elif t < 0.9 and self.level == 0:
                self.new_dist(hot)
            else:
                self.query()
