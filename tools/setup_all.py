"""MANIFEST.setup_cmd: regenerate the generated models from /repo, build the whole Coq development (full .vo),
then let every check module prebuild its oracle and harness (each is also rebuilt on demand by the check itself,
from /repo's current sources, whenever an input changed)."""
import glob
import importlib
import os
import sys
import time
import traceback

import vlib


def main():
    t0 = time.time()
    mods = []
    for f in sorted(glob.glob(os.path.join(os.path.dirname(__file__), "checks", "c*.py"))):
        name = os.path.basename(f)[:-3]
        try:
            mods.append(importlib.import_module("checks." + name))
        except Exception:
            traceback.print_exc()
    for m in mods:
        if hasattr(m, "regenerate_all"):
            try:
                m.regenerate_all()
            except Exception:
                traceback.print_exc()
    with vlib.Lock("coq"):
        vlib.coq_prepare()
        r = vlib.run(["make", "-k", "-j%d" % vlib.NPROC], cwd=vlib.COQ, timeout=3 * 3600)
    print(r.out[-2000:])
    print(r.err[-4000:])
    print("[setup] coq build rc=%d in %.0fs" % (r.rc, time.time() - t0), flush=True)
    for m in mods:
        if hasattr(m, "prebuild"):
            try:
                t1 = time.time()
                m.prebuild()
                print("[setup] prebuilt %s in %.0fs" % (m.__name__, time.time() - t1), flush=True)
            except Exception:
                traceback.print_exc()
    print("[setup] done in %.0fs" % (time.time() - t0))
    return 0
