"""Regenerates coq/props/Properties_C15.v from the lemma statements of proofs/{Rat,InfRat,Lin}_Proofs.v (helper for the
author of C15, NOT run by the check): each listed lemma becomes `Theorem C15_<lemma> : <its statement, as printed by
Check>. Proof. exact <lemma>. Qed.  Print Assumptions C15_<lemma>.`  The proofs must be built first
(tools/coqmake.py proofs/Lin_Proofs.vo proofs/InfRat_Proofs.vo).  usage: python3 tools/arith_genprops.py [coq-root]"""
import subprocess,re,json,sys,os,tempfile
ROOT=sys.argv[1] if len(sys.argv)>1 else os.path.join(os.path.dirname(os.path.dirname(os.path.abspath(__file__))),'coq')
TMP=tempfile.mkdtemp()
rat = """ctor2_spec ctor_int_spec consts_spec neg_spec
add_spec sub_spec mul_spec div_spec add_int_spec sub_int_spec mul_int_spec div_int_spec
int_add_spec int_sub_spec int_mul_spec int_div_spec rat_compound_exact rat_compound_is_binary
lt_spec le_spec eq_spec ne_spec ge_spec gt_spec rat_int_cmp_spec
rat_order_total rat_lt_trans wf_val_inj rat_predicates_spec numerator_denominator_spec""".split()
irat = """ictors_spec
iadd_spec isub_spec iadd_rat_spec iadd_int_spec rat_add_irat_spec int_add_irat_spec isub_rat_spec isub_int_spec rat_sub_irat_spec int_sub_irat_spec ineg_spec
imul_rat_spec imul_int_spec rat_mul_irat_spec int_mul_irat_spec idiv_rat_spec idiv_int_spec rat_div_irat_spec int_div_irat_spec
irat_compound_is_binary irat_cmp_spec irat_rat_cmp_spec irat_int_cmp_spec irat_order_total irat_lt_trans irat_predicates_spec iget_spec""".split()
lin = """lin_ctors_spec lin_add_lin_spec lin_add_rat_spec rat_add_lin_spec lin_sub_lin_spec lin_sub_rat_spec rat_sub_lin_spec
lin_neg_spec lin_mul_rat_spec rat_mul_lin_spec lin_div_rat_spec lin_div_inf_spec
lin_compound_is_binary lin_muleq_rat_spec lin_diveq_rat_spec lin_diveq_inf_spec lin_neg_is_minus_one lop_run_spec""".split()
strs = """decimal_printing_spec rat_to_string_inj irat_to_string_inj irat_to_string_refuted_without_side_condition
lin_to_string_inj lin_to_string_inj_coefs asrt_key_inj""".split()
names = rat+irat+lin+strs
pre = '''From Coq Require Import ZArith NArith QArith List Bool String Ascii.
From ORatio Require Import gen.Gen_arith base.RatSpec base.Lin base.DecStr base.ArithStr.
From ORatio Require Import proofs.Rat_Proofs proofs.InfRat_Proofs proofs.Lin_Proofs proofs.DecStr_Proofs proofs.ArithStr_Proofs.
Import ListNotations.
Local Open Scope Z_scope.
'''
src = pre + "Set Printing Width 112.\n" + "\n".join("Check %s." % n for n in names) + "\n"
open(os.path.join(TMP,'Chk2.v'),'w').write(src)
r = subprocess.run(['timeout','120','coqc','-w','-notation-overridden','-Q',ROOT,'ORatio',os.path.join(TMP,'Chk2.v')],capture_output=True,text=True,cwd=TMP)
assert r.returncode==0, r.stderr
blocks = re.split(r"(?m)^(?=[A-Za-z0-9_']+\n     : )", r.stdout)
T = {}
for b in blocks:
    if not b.strip(): continue
    n, rest = b.split("\n",1)
    T[n.strip()] = rest.strip()[2:]
def wrapQ(t):
    key="(forall rho : var -> Q,"
    out="";i=0
    while True:
        j=t.find(key,i)
        if j<0: out+=t[i:];break
        out+=t[i:j]+key
        k=j+len(key);depth=1;m=k
        while depth:
            c=t[m]
            if c=='(':depth+=1
            elif c==')':depth-=1
            m+=1
        body=" ".join(t[k:m-1].split())
        out+=" ("+body+")%Q)"
        i=m
    return out
doc={
'rat':"(* ---- smt::rational (generated functions rat_*, int_*_rat, is_*_rat) ------------------------------------------------\n   shape: canonical operands, operation defined in Q+-inf (ext_op .. = Some e)  ->  canonical result with exactly the value e *)",
'irat':"(* ---- smt::inf_rational (generated functions irat_*, rat_*_irat, int_*_irat, is_*_irat) ---------------------------------\n   values are pairs (r, i) = r + i*eps; arithmetic is component-wise, k/(r + i eps) = k/r - (k i/r^2) eps; the order is\n   lexicographic *)",
'lin':"(* ---- smt::lin (hand model base/Lin.v, tied to lin.cpp by the differential of tools/checks/c15.py) -----------------------\n   for every valuation rho the operators act on eval rho as the mathematical operations (known term included), keep the\n   map invariant (strictly increasing keys) and canonical finite coefficients (lwf), and keep the map zero-free (lnz) where\n   the code guarantees it; lop_run: any sequence of the 16 operator forms applied to one object *)",
}
hdr='''(* Property C15 -- rational, infinitesimal and linear-expression arithmetic is exact.
   This file contains only the property theorems, each closed by `exact <lemma>` and followed by Print Assumptions.
   rat_*, irat_*, int_*, is_* are GENERATED from /repo on every run (gen/Gen_arith.v, from smt/arith/rational.cpp and
   smt/arith/inf_rational.h); lin_*, lop_* are the hand model base/Lin.v of smt/arith/lin.cpp built on the generated
   rational operations. Specification side: base/RatSpec.v (ext = Q with +-infinity, wf = canonical form, val, ext_add/
   ext_mul/ext_div with None = undefined (inf-inf, 0*inf, x/0), lexicographic pairs) and, for lin, eval/lwf/lnz of Lin.v.
   (generated from the lemma statements by `Check`; families of operators are bundled into one conjunction each because
   Print Assumptions costs 0.4 s per theorem) *)
''' + pre
doc['str']=("(* ---- printed keys: std::to_string of integers (base/DecStr.v) and to_string(rational / inf_rational / lin) (base/ArithStr.v,\n"
 "   compared with the C++ printers on every generated value) determine the values they print. lra_theory shares slack\n"
 "   variables by to_string(lin) and assertions by \"x<slack> <= \" + to_string(inf_rational): two different canonical expressions /\n"
 "   bounds can never share a key. to_string(inf_rational) prints every value with an infinite rational part as that infinity:\n"
 "   injective where the infinitesimal part is then zero (icanon), refuted otherwise (witness +inf vs +inf + eps) *)")
old={'decimal_printing_spec':'C15_decimal_printing_injective','rat_to_string_inj':'C15_rational_to_string_injective',
     'irat_to_string_inj':'C15_inf_rational_to_string_injective','irat_to_string_refuted_without_side_condition':'C15_inf_rational_to_string_injective_without_side_condition_refuted',
     'lin_to_string_inj':'C15_lin_to_string_injective','lin_to_string_inj_coefs':'C15_lin_to_string_injective_unsorted','asrt_key_inj':'C15_assertion_key_injective',
     'ctor2_spec':'C15_ctor_canonical','neg_spec':'C15_neg_exact','lt_spec':'C15_lt_exact','le_spec':'C15_le_exact','eq_spec':'C15_eq_exact',
     'ne_spec':'C15_ne_exact','ge_spec':'C15_ge_exact','gt_spec':'C15_gt_exact','rat_order_total':'C15_order_total'}
out=[hdr]
for g,L in (('rat',rat),('irat',irat),('lin',lin),('str',strs)):
    out.append(doc[g]+"\n")
    for n in L:
        t=T[n]
        if g=='lin': t=wrapQ(t)
        name=old.get(n,'C15_'+n)
        t="\n".join("  "+l.strip() if i else l for i,l in enumerate(t.split("\n")))
        out.append("Theorem %s :\n  %s.\nProof. exact %s. Qed.\nPrint Assumptions %s.\n"%(name,t,n,name))
open(ROOT+'/props/Properties_C15.v','w').write("\n".join(out))
print(len(names))
