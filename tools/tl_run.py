"""Pipeline shared by the C04 (state variables) and C05 (reusable resources) checks; see tools/checks/c04.py.

  1. source-level tie of the to_check event model (which listeners exist, to_check only grows)
  2. build the oracle (extracted plan/Sweep.v + plan/RRSweep.v) and the harness (h_timelines.cpp + /repo's current
     sources) in the configurations of the tier
  3. corpus, then seeded generated problems (tools/tl_gen.py); every problem runs in every configuration
  4. per run: every sweep the planner made and the final solution are (a) compared with an independent python
     reference AND with the extracted verified model, (b) judged by the property itself, (c) monitored for to_check coverage
  5. proofs (props/Properties_Cxx.v); a failed obligation counts as explained only if stage 4 found a concrete failing input
"""
import glob
import json
import os
import re
import time
from concurrent.futures import ThreadPoolExecutor

import vlib
import tl_build
import tl_check
import tl_gen
import tl_ref as R

EXTRACT = '''From Coq Require Import Extraction ExtrOcamlBasic.
From ORatio Require Import plan.Sweep plan.RRSweep.
Extraction "tl_model.ml" sv_sweep_ids sv_instance_ok sv_timeline rr_sweep rr_instance_ok rr_timeline tc_init tc_step tc_coveredb.
'''
ORACLE_DEPS = ["plan/Sweep.vo", "plan/RRSweep.vo"]
ORACLE_ML = [("tl_io.ml", None), ("tl_main.ml", None)]

PROFILE_MIX = {
    "SV": [("sv_const", 0.24), ("sv_sched", 0.27), ("sv_rules", 0.17), ("mixed", 0.16), ("sv_flawless", 0.16)],
    "RR": [("rr_const", 0.24), ("rr_sched", 0.36), ("mixed", 0.2), ("rr_flawless", 0.2)],
}


def build_oracle():
    return vlib.ocaml_build("tl", ORACLE_DEPS, EXTRACT, ORACLE_ML)


def prebuild():
    build_oracle()
    for c in tl_build.QUICK:
        tl_build.build(c)


# ------------------------------------------------------------------------------------------------------------------
# source-level tie of the event model
# ------------------------------------------------------------------------------------------------------------------
def strip_cxx_comments(s):
    s = re.sub(r"/\*.*?\*/", "", s, flags=re.S)
    return re.sub(r"//[^\n]*", "", s)


def wiring():
    """What the to_check model assumes about the code, read from /repo's current text:
       listens_sigma  : atom_listener's constructor calls listen_sat(atm.get_sigma())
       grow_only      : in state_variable.cpp / reusable_resource.cpp `to_check` is only used with insert( and count(
       new_atom_checks: new_atom inserts the allowed instances when sigma is already True (both types)"""
    out = {}
    st = strip_cxx_comments(open(os.path.join(vlib.REPO, "solver/smart_type.cpp")).read())
    m = re.search(r"atom_listener::atom_listener\s*\([^)]*\)\s*:[^{]*\{(.*?)\n    \}", st, re.S)
    body = m.group(1) if m else ""
    out["listens_sigma"] = bool(re.search(r"listen_sat\s*\([^;]*get_sigma\s*\(\s*\)\s*\)", body))
    out["listens_parameters"] = all(x in body for x in ("listen_sat", "listen_lra", "listen_rdl", "listen_set"))
    grow = True
    uses = {}
    for f in ("solver/types/state_variable.cpp", "solver/types/reusable_resource.cpp"):
        txt = strip_cxx_comments(open(os.path.join(vlib.REPO, f)).read())
        u = re.findall(r"to_check\s*(\.\s*\w+|[^\s.;,)])", txt)
        u = [re.sub(r"\s", "", x) for x in u]
        uses[f] = sorted(set(u))
        if any(x not in (".insert", ".count") for x in u):
            grow = False
        out["new_atom_checks:" + os.path.basename(f)] = bool(re.search(r"::new_atom\s*\([^)]*\).*?get_sigma\(\)\)\s*==\s*True.*?to_check\.insert", txt, re.S))
        out["something_changed:" + os.path.basename(f)] = bool(re.search(r"::something_changed\s*\(\s*\).*?get_sigma\(\)\)\s*==\s*True.*?to_check\.insert", txt, re.S))
    out["grow_only"] = grow
    out["to_check_uses"] = uses
    return out


# ------------------------------------------------------------------------------------------------------------------
def pending(prop):
    p = os.path.join(vlib.VERIF, "notes", "fixes", "%s-pending.json" % prop)
    if not os.path.exists(p):
        return {}
    try:
        return {e["signature"]: e.get("what", "") for e in json.load(open(p))}
    except (ValueError, KeyError):
        return {}


def corpus(prop):
    out = []
    for f in sorted(glob.glob(os.path.join(vlib.VERIF, "corpus", prop, "*.rddl"))):
        out.append((open(f).read(), {"profile": "corpus", "file": os.path.basename(f)}))
    return out


def pick_profile(rng, kind):
    x = rng.random()
    acc = 0
    for name, w in PROFILE_MIX[kind]:
        acc += w
        if x < acc:
            return name
    return PROFILE_MIX[kind][-1][0]


def crash_signature(kind, stats, stderr=""):
    if "store_variables" in stderr and "Assertion `nc'" in stderr:
        # the clause !(a.end <= b.start) | !(b.end <= a.start) is false for two empty atoms at one instant
        return ("sv" if "state_variable" in stderr else "rr") + ":abort:order-clause-on-empty-atoms"
    ev = stats.get("cut_short_state")
    if ev and ev.get("kind") == "RR":
        atoms = R.atoms_of(ev)
        caps = [R.qd(c) for c in ev["capacity"]]
        for i, ats in R.per_instance(atoms, set(ev["to_check"])).items():
            if 0 <= i < len(caps):
                for p, lv, am, ids, distinct in R.rr_sweep_ref(ats, caps[i]):
                    if any(len(w) == 1 for w in am):
                        return "rr:crash:single-atom-over-capacity"
        return "rr:crash:in-sweep"
    if ev and ev.get("kind") == "SV":
        return "sv:crash:in-sweep"
    return "%s:crash" % kind.lower()


class Reporter:
    """ctx.violation with (a) pending-fix signatures printed as KNOWN-FINDING, (b) one replay per signature."""

    def __init__(self, ctx):
        self.ctx = ctx
        self.pend = pending(ctx.prop)
        self.seen = {}
        self.pending_hits = {}
        self.input_hits = 0      # violations that come with a concrete failing input

    def report(self, sig, replay, no_input=False):
        self.seen[sig] = self.seen.get(sig, 0) + 1
        if not no_input:
            self.input_hits += 1
        if sig in self.pend:
            if sig not in self.pending_hits:
                print("KNOWN-FINDING: property=%s (fix pending review: notes/fixes) %s" % (self.ctx.prop, self.pend[sig]), flush=True)
            self.pending_hits[sig] = self.pending_hits.get(sig, 0) + 1
            return
        if self.seen[sig] == 1:
            self.ctx.violation(sig, replay, no_input=no_input)

    @property
    def any_input_violation(self):
        return self.input_hits > 0


def run_oracle(oexe, queries, timeout=600):
    lines = [q for q, _, _ in queries]
    if not lines:
        return []
    r = vlib.run([oexe], stdin="\n".join(lines) + "\n", timeout=timeout)
    out = r.out.split("\n") if r.out else []
    return out[:len(lines)]


def run_check(ctx, kind):
    prop = ctx.prop
    cov = ctx.cov
    rep = Reporter(ctx)
    t_start = time.time()

    # 1. source-level tie --------------------------------------------------------------------------------------
    w = wiring()
    cov["wiring"] = w
    wiring_ok = w["listens_sigma"] and w["grow_only"] and w["listens_parameters"] and all(v for k, v in w.items() if k.startswith("new_atom_checks") or k.startswith("something_changed"))

    # 2. builds ---------------------------------------------------------------------------------------------------
    cfgs = tl_build.THOROUGH if ctx.thorough else tl_build.QUICK
    exes = {}
    for c in cfgs:
        exe, log = tl_build.build(c)
        if not exe:
            rep.report("build:h_timelines:" + c, {"kind": "harness-build-failed", "config": c, "defines": tl_build.CONFIGS[c], "log": log[-3000:]}, no_input=True)
            continue
        exes[c] = exe
    ctx.log("harness built in %d configurations" % len(exes))
    if not exes:
        return rep

    # 3. problems ---------------------------------------------------------------------------------------------------
    probs = corpus(prop)
    n_corpus = len(probs)
    n_gen = (4000 if ctx.thorough else 400)
    tl_gen.EXTRA = 3 if ctx.thorough else 0
    for _ in range(n_gen):
        probs.append(tl_gen.gen_problem(ctx.rng, pick_profile(ctx.rng, kind)))
    tmo = 10 if ctx.thorough else 5
    jobs = [(pi, c) for pi in range(len(probs)) for c in cfgs if c in exes]

    def one(job):
        pi, c = job
        return job, vlib.run([exes[c], "250"], stdin=probs[pi][0], timeout=tmo)
    t0 = time.time()
    with ThreadPoolExecutor(max_workers=max(2, min(8, vlib.NPROC // 2))) as ex:
        results = list(ex.map(one, jobs))
    ctx.log("%d problems x %d configurations run in %.1fs" % (len(probs), len(exes), time.time() - t0))

    # 4. analyse --------------------------------------------------------------------------------------------------
    totals, dist, verdicts = {}, {}, {}
    all_queries = []          # (query, expected, (problem index, config, where))
    nontrivial = set()
    timeouts = crashes = 0
    per_cfg = {c: {"runs": 0, "solved": 0, "unsolvable": 0, "timeout": 0} for c in exes}
    by_problem = {}
    for (pi, c), r in results:
        text, meta = probs[pi]
        per_cfg[c]["runs"] += 1
        base = {"riddle": text, "config": c, "defines": tl_build.CONFIGS[c], "generator": meta,
                "replay_cmd": "python3 tools/verif.py %s replay <this file>" % prop}
        issues, queries, stats, solve = tl_check.analyse(kind, r.out)
        for k, v in stats.items():
            if isinstance(v, int):
                totals[k] = totals.get(k, 0) + v
        if c == cfgs[0]:
            dist[meta["profile"]] = dist.get(meta["profile"], 0) + 1
            for k in ("zero_length", "touching", "forced_touch", "tau_var", "strict", "amount_eq_capacity", "amount_zero", "same_start", "nested", "overconstrained", "hierarchy", "sv_hierarchy", "base_predicate_on_derived_instance", "flawless_clauses"):
                if meta.get(k):
                    dist["with_" + k] = dist.get("with_" + k, 0) + 1
        if r.timed_out:
            timeouts += 1
            per_cfg[c]["timeout"] += 1
            if meta["profile"] in ("sv_const", "rr_const"):
                # only facts with constant parameters: nothing to search for, so a hang is the sweep's own
                d = dict(base)
                d.update(kind="implementation-does-not-terminate", what="no verdict within %d s on a problem whose atoms are all facts with constant parameters" % tmo, state_in_the_sweep=stats.get("cut_short_state"))
                rep.report("%s:hang:constant-problem" % kind.lower(), d)
        elif r.rc != 0 or solve is None:
            crashes += 1
            sig = crash_signature(kind, stats, r.err or "")
            d = dict(base)
            d.update(kind="implementation-terminated-abnormally", rc=r.rc, stderr=r.err[-600:], state_in_the_sweep=stats.get("cut_short_state"),
                     what="the planner died (signal / abort) while solving this problem; no verdict was produced")
            rep.report(sig, d)
        if solve is not None:
            v = "read:" + solve["read"] if solve["solved"] is None else ("solved" if solve["solved"] is True else "unsolvable" if solve["solved"] is False else str(solve["solved"]))
            verdicts[v] = verdicts.get(v, 0) + 1
            if isinstance(solve["solved"], str):
                d = dict(base)
                d.update(kind="implementation-terminated-abnormally", what="solve() left through an exception that is not unsolvable_exception: " + solve["solved"])
                rep.report("%s:exception-in-solve" % kind.lower(), d)
            if solve["solved"] is None and solve["read"].startswith("exception"):
                d = dict(base)
                d.update(kind="generator-produced-a-problem-read()-rejects", what=solve["read"])
                rep.report("machinery:tl_gen:" + solve["read"], d, no_input=True)
            by_problem.setdefault(pi, {})[c] = v
            if solve["solved"] is True:
                per_cfg[c]["solved"] += 1
            elif solve["solved"] is False:
                per_cfg[c]["unsolvable"] += 1
        for sig, det in issues:
            d = dict(base)
            d.update(det)
            d["kind"] = "property-violated-by-implementation-output" if det.get("property") else "model-differs-from-implementation"
            rep.report(sig, d, no_input=False)
        for q, e, wh in queries:
            all_queries.append((q, e, (pi, c, wh)))
            if len(q) > 40:
                nontrivial.add(q)
        if solve is not None and solve["solved"] is True and c == cfgs[0]:
            ctx.sample({"riddle": text[:600], "config": c, "verdict": "solved", "sweeps": solve.get("n_sweeps")}, cap=4)

    # supporting run (thorough): AddressSanitizer on a part of the problems; memory errors inside the sweeps show here even
    # when they do not crash a normal build (the out-of-bounds read of finding "single atom over capacity" did)
    if ctx.thorough:
        aexe, alog = tl_build.build_asan()
        if aexe:
            sub = list(range(min(len(probs), 800)))

            def one_asan(pi):
                return pi, vlib.run([aexe, "0"], stdin=probs[pi][0], timeout=4 * tmo, env={"ASAN_OPTIONS": "detect_leaks=0"})
            with ThreadPoolExecutor(max_workers=max(2, min(8, vlib.NPROC // 2))) as ex:
                ares = list(ex.map(one_asan, sub))
            bad = [(pi, r) for pi, r in ares if not r.timed_out and r.rc != 0]
            cov["asan"] = {"problems": len(sub), "errors": len(bad), "timeouts": sum(1 for _, r in ares if r.timed_out)}
            for pi, r in bad[:1]:
                rep.report("%s:asan" % kind.lower(), {"kind": "memory-error-under-address-sanitizer", "riddle": probs[pi][0], "generator": probs[pi][1],
                                                     "config": "hmax + -fsanitize=address", "rc": r.rc, "stderr": r.err[-2500:]})
        else:
            cov["asan"] = {"build_failed": alog[-800:]}

    # the same inputs through the extracted verified model ------------------------------------------------------------------
    oexe, olog = build_oracle()
    agree = 0
    if not oexe:
        rep.report("build:oracle_tl", {"kind": "oracle-build-failed", "log": olog[-3000:]}, no_input=True)
    else:
        uniq = {}
        for q, e, wh in all_queries:
            uniq.setdefault(q, (e, wh))
        qs = [(q, e, wh) for q, (e, wh) in uniq.items()]
        got = run_oracle(oexe, qs)
        if len(got) < len(qs):
            rep.report("corr:tl:oracle-died", {"kind": "oracle-died", "answered": len(got), "asked": len(qs)}, no_input=True)
        for (q, e, wh), g in zip(qs, got):
            if g == e:
                agree += 1
            else:
                pi, c, where = wh
                rep.report("corr:tl:model_vs_reference:" + q.split()[0],
                           {"kind": "extracted-model-differs-from-python-reference", "query": q, "model": g, "reference": e,
                            "riddle": probs[pi][0], "config": c, "where": where,
                            "what": "the extracted Coq model and the independent python reference disagree on an input taken from a real run "
                                    "(the implementation agreed with the reference or was reported separately)"}, no_input=True)
        cov["oracle_queries_distinct"] = len(qs)
    # K1 differential on synthetic value lists directly (no planner): model vs reference on boundary-aimed random atoms
    syn = synthetic_queries(ctx, kind, 1500 if ctx.thorough else 400)
    if oexe:
        got = run_oracle(oexe, syn)
        bad = [(q, e, g) for (q, e, _), g in zip(syn, got) if g != e]
        cov["synthetic_model_vs_reference"] = {"cases": len(syn), "agree": len(syn) - len(bad)}
        if bad or len(got) < len(syn):
            q, e, g = bad[0] if bad else (syn[len(got)][0], syn[len(got)][1], "<no answer>")
            rep.report("corr:tl:model_vs_reference:synthetic", {"kind": "extracted-model-differs-from-python-reference", "query": q, "model": g, "reference": e}, no_input=True)

    # the to_check event model against its executable coverage test, for the wiring found in the source -------------------
    if oexe:
        tc_cases = tc_queries(ctx, w["listens_sigma"], 300 if ctx.thorough else 80)
        got = run_oracle(oexe, [(q, None, None) for q in tc_cases])
        uncovered = [q for q, g in zip(tc_cases, got) if "0" in g]
        cov["to_check_model_runs"] = {"random_event_sequences": len(tc_cases), "with_an_uncovered_sweep": len(uncovered), "listens_sigma": w["listens_sigma"]}
        if w["listens_sigma"] and uncovered:
            rep.report("corr:tl:to_check_model", {"kind": "model-coverage-failed", "events": uncovered[0], "theorem": "to_check_covers"}, no_input=True)

    cov["evaluations"] = len(results) + len(syn)
    cov["problems"] = {"corpus": n_corpus, "generated": n_gen, "configurations": list(exes), "runs": len(results), "timeouts": timeouts,
                       "abnormal_terminations": crashes, "timeout_s": tmo, "verdicts": verdicts, "per_configuration": per_cfg}
    # not a subject of this property (C02's): the same problem solved in one configuration and "unsolvable" in another
    dis = [(pi, vs) for pi, vs in by_problem.items() if "solved" in vs.values() and "unsolvable" in vs.values()]
    cov["verdict_disagreements_between_configurations"] = {"count": len(dis), "note": "completeness differs between configurations; property C02's subject, not judged here",
                                                           "samples": [{"riddle": probs[pi][0], "verdicts": vs} for pi, vs in dis[:2]]}
    cov["input_distribution"] = dist
    cov["observed"] = totals
    cov["distinct_nontrivial"] = len(nontrivial)
    cov["traces_validated_against_impl"] = totals.get("sv_sweeps_agree" if kind == "SV" else "rr_sweeps_agree", 0) + totals.get("timelines_agree", 0)
    cov["model_vs_reference_agree"] = agree
    cov["rule"] = ("corpus + seeded RIDDLE problems (profiles %s) run in every configuration; every call of get_current_incs made by the planner "
                   "and the final solution are compared; non-trivial = a sweep / timeline query with at least two atoms" % ", ".join(n for n, _ in PROFILE_MIX[kind]))
    cov["signatures_seen"] = rep.seen
    if rep.pending_hits:
        cov["pending_fix_hits"] = rep.pending_hits
    cov["trusted_base"] += [
        "harness/h_timelines.cpp: the proxy smart_type placed into solver::sts (records and delegates), `#define private public`, "
        "canonical numbering of atoms / instances by creation order",
        "tools/tl_ref.py (independent python reference of sweep, MCS windows, timelines, brute-force overlap / usage) and tools/tl_check.py (comparison, classification)",
        "values are compared as exact rationals (numerator/denominator of rational and infinitesimal part); scaling to Z x Z by the lcm of the denominators per query",
        "the meaning of the ordering literal end(a) <= start(b) (lra new_leq) is property C11's theorem; the sweep theorems assume start <= end for active atoms (C06; monitored: reported as corr:tl:atom_not_well_formed)",
        "std::sort: assumed to return a permutation sorted by descending amount (ties in any order): MCS theorems hold for every such list; identities within ties are compared up to equal amounts",
        "source-level tie of the to_check event model: regular expressions over solver/smart_type.cpp, state_variable.cpp, reusable_resource.cpp (tools/tl_run.py: wiring)",
    ]
    ctx.assumptions += ["scaled values of one query stay below 2^62 (OCaml int in the oracle driver; checked, an overflow is reported as ?failure)",
                        "problems whose solve() exceeds %d s are counted as timeouts, not judged" % tmo]

    # 5. proofs -------------------------------------------------------------------------------------------------
    def search(res):
        return rep.any_input_violation
    res = vlib.proof_stage(ctx, search=search)
    if ctx.thorough and res.get("ok") and hasattr(vlib, "coqchk_stage"):
        vlib.coqchk_stage(ctx)
    if not wiring_ok and not rep.any_input_violation:
        rep.report("corr:tl:wiring", {"kind": "event-model-does-not-describe-the-code", "wiring": w,
                                      "theorem": "ORatio.props.Properties_%s.%s_to_check_covers" % (prop, prop),
                                      "what": "the listener wiring / to_check usage read from the source is not the one the to_check theorem is about, "
                                              "and no run showed an uncovered instance or an overlap"}, no_input=True)
    ctx.log("total %.1fs" % (time.time() - t_start))
    return rep


# ------------------------------------------------------------------------------------------------------------------
# synthetic inputs for the K1 differential model <-> reference (no planner involved)
# ------------------------------------------------------------------------------------------------------------------
class _A:
    __slots__ = ("id", "s", "e", "amt", "tau", "tau_var", "sigma", "pred")


def synthetic_queries(ctx, kind, n):
    from fractions import Fraction as F
    rng = ctx.rng
    out = []
    for k in range(n):
        m = rng.randint(0, 7)
        atoms = []
        for i in range(m):
            a = _A()
            a.id = i if rng.random() < 0.8 else i + 10
            grid = rng.choice([3, 5, 8])
            s = (F(rng.randint(0, grid)), F(rng.choice([0, 0, 0, 1, 2, -1])))
            r = rng.random()
            if r < 0.2:
                e = s
            elif r < 0.3:
                e = (s[0], s[1] + 1)
            elif r < 0.34 and kind == "SV":
                e = (s[0] - rng.randint(0, 2), s[1] - 1)       # end < start: the model is total, the spec `live` covers it
            else:
                e = (s[0] + F(rng.choice([1, 1, 2, 3, F(1, 2), F(3, 2)])), F(rng.choice([0, 0, 1, -1])))
            a.s, a.e = s, e
            a.amt = (F(rng.choice([0, 1, 1, 2, 2, 3, F(1, 2), F(5, 2)])), F(rng.choice([0, 0, 0, 1])))
            a.sigma, a.tau, a.tau_var, a.pred = "T", [0], False, "P"
            atoms.append(a)
        ids = [a.id for a in atoms]
        if len(set(ids)) != len(ids):
            continue
        if kind == "SV":
            out.append((tl_check.q_sv(atoms), tl_check.exp_sv(atoms), "synthetic"))
            if all(a.s <= a.e for a in atoms):
                o, h = (F(0), F(0)), (F(rng.choice([4, 9, 12])), F(0))
                out.append((tl_check.q_svtl(atoms, o, h), tl_check.exp_svtl(atoms, o, h), "synthetic"))
        else:
            atoms = [a for a in atoms if a.s <= a.e]
            cap = (F(rng.choice([0, 1, 2, 3, 4, 5, F(5, 2)])), F(rng.choice([0, 0, 1])))
            q, d = tl_check.q_rr(atoms, cap)
            out.append((q, tl_check.exp_rr(atoms, cap), "synthetic"))
            o, h = (F(0), F(0)), (F(rng.choice([4, 9, 12])), F(0))
            q, d = tl_check.q_rr(atoms, cap, tl=(o, h))
            out.append((q, tl_check.exp_rrtl(atoms, o, h, d), "synthetic"))
    return out


def tc_queries(ctx, listens, n):
    rng = ctx.rng
    out = []
    for _ in range(n):
        ev = []
        known = []
        depth = 0
        for _ in range(rng.randint(3, 25)):
            r = rng.random()
            if r < 0.25 or not known:
                a = len(known)
                dom = rng.sample(range(4), rng.randint(1, 3))
                ev.append("n %d %d %d %s" % (a, 1 if rng.random() < 0.4 else 0, len(dom), " ".join(map(str, dom))))
                known.append(a)
            elif r < 0.45:
                ev.append("s %d" % rng.choice(known))
                depth += 1
            elif r < 0.6:
                ev.append("r %d %d" % (rng.choice(known), rng.randrange(4)))
                depth += 1
            elif r < 0.7:
                ev.append("p %d" % rng.choice(known))
            elif r < 0.82 and depth:
                k = rng.randint(1, depth)
                ev.append("o %d" % k)
                depth -= k
            else:
                ev.append("w")
        ev.append("w")
        out.append("tc %d %s" % (1 if listens else 0, " ".join(ev)))
    return out


def replay(prop, kind, path):
    rp = json.load(open(path))
    text = rp.get("riddle")
    if not text:
        print("replay has no RIDDLE input:", rp.get("kind"), rp.get("theorem"))
        return 1
    cfg = rp.get("config", tl_build.QUICK[0])
    exe, log = tl_build.build(cfg)
    if not exe:
        print(log[-2000:])
        return 1
    r = vlib.run([exe, "250"], stdin=text, timeout=20)
    issues, queries, stats, solve = tl_check.analyse(kind, r.out)
    print("config:", cfg, "rc:", r.rc, "timed out:", r.timed_out, "solve:", solve)
    if r.rc != 0 and not r.timed_out:
        print("REPRODUCED: abnormal termination", crash_signature(kind, stats, r.err or ""), r.err[-300:])
        return 1
    for sig, det in issues:
        print("REPRODUCED:", sig, json.dumps(det, default=str)[:1500])
    if not issues:
        print("not reproduced (the implementation's output is consistent with the model and the property)")
    return 1 if issues else 0
