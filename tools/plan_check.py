"""Common part of the checks of C01, C03, C06, C17 (tools/checks/c01.py ...): regenerate gen/Gen_init.v, prove the
property file, take the shared run of the real planner on generated problems (tools/plan_run.py), report the rejected
solutions that belong to the property with the program text as replay, fill the evidence."""
import json
import os

import vlib
import plan_ast as A
import plan_init
import plan_run

TITLE = {"C01": "a reported solution satisfies every asserted constraint",
         "C03": "every atom is justified, causal support is acyclic",
         "C06": "active atoms are temporally well-formed",
         "C17": "object-oriented semantics: domains, fields, inheritance"}


# ------------------------------------------------------------------------------------------------
# classification of a rejected solution: which property, which signature
# ------------------------------------------------------------------------------------------------
def object_names(prog):
    out = set()
    for s in prog["main"]:
        if s[0] == "new" or (s[0] == "local" and not isinstance(s[1], str)):
            out.add(s[2])
    return out


def walk_expr(e, f, pol=1, ctx="top"):
    """Calls f(node, polarity, context) on every node; polarity +1 / -1 / 0 (both); context: how the truth of the node is
    enforced: 'top' (asserted), 'flaw' (operand of a disjunction / implication: a flaw decides), 'clause' (only clauses
    without a flaw link it to the asserted formula)."""
    f(e, pol, ctx)
    k = e[0]
    if k == "not":
        walk_expr(e[1], f, -pol, ctx if ctx == "top" else ctx)
    elif k == "and":
        for x in e[1]:
            walk_expr(x, f, pol, ctx if pol > 0 else "clause")
    elif k == "or":
        for x in e[1]:
            walk_expr(x, f, pol, "flaw" if pol > 0 and ctx != "clause" else "clause")
    elif k == "imp":
        walk_expr(e[1], f, -pol, "flaw" if pol > 0 and ctx != "clause" else "clause")
        walk_expr(e[2], f, pol, "flaw" if pol > 0 and ctx != "clause" else "clause")
    elif k == "xor":
        for x in e[1]:
            walk_expr(x, f, 0, "clause")
    elif k in ("eq", "ne"):
        for x in (e[1], e[2]):
            walk_expr(x, f, 0, "clause" if is_boolean(x) else ctx)
    elif k in ("lt", "le", "ge", "gt"):
        pass


def is_boolean(e):
    return e[0] in ("not", "and", "or", "xor", "imp", "lt", "le", "ge", "gt", "eq", "ne", "bool")


def is_arith(e):
    return e[0] in ("num", "add", "sub", "mul", "div", "neg")


def expr_class(e, numeric_names):
    """Signature class of a failing constraint."""
    found = {"ne": False, "undecided": False, "negxor": False}

    def arith_operand(x):
        return is_arith(x) or (x[0] == "id" and x[1][-1] in numeric_names)

    def f(n, pol, ctx):
        k = n[0]
        if k == "xor" and pol <= 0:
            found["negxor"] = True
        if k in ("eq", "ne") and arith_operand(n[1]) and arith_operand(n[2]):
            neg = (k == "ne") == (pol >= 0) or pol == 0
            if k == "ne" and pol > 0 and ctx in ("top", "flaw"):
                found["ne"] = True
            elif neg or ctx == "clause":
                found["undecided"] = True
        elif k in ("lt", "le", "ge", "gt") and ctx == "clause":
            found["undecided"] = True
    walk_expr(e, f)
    if found["negxor"]:
        return "negated-exactly-one"
    if found["undecided"]:
        return "undecided-theory-atom"
    if found["ne"]:
        return "arith-disequality"
    return "constraint"


def numeric_names(prog):
    names = set()

    def st(s):
        if s[0] == "local" and s[1] in ("int", "real"):
            names.add(s[2])
        elif s[0] == "disj":
            for br in s[2]:
                for x in br:
                    st(x)
    for s in prog["main"]:
        st(s)
    for p in prog["preds"]:
        for x, t in p["params"]:
            if t in ("int", "real"):
                names.add(x)
        for s in p["body"]:
            st(s)
    for c in prog["classes"]:
        for f, t, _ in c.get("fields", []):
            if t in ("int", "real"):
                names.add(f)
    names.update(["start", "end", "duration", "at", "origin", "horizon", "amount", "capacity"])
    return names


def stmt_exprs(s):
    if s[0] == "expr":
        return [s[1]]
    if s[0] == "disj":
        return [e for br in s[2] for x in br for e in stmt_exprs(x)]
    if s[0] == "local" and s[3] is not None:
        return [s[3]]
    return []


def mentions(e, names):
    if e[0] == "id":
        return e[1][0] in names
    if e[0] in ("bool", "num", "str"):
        return False
    if e[0] in ("neg", "not"):
        return mentions(e[1], names)
    if e[0] in ("lt", "le", "ge", "gt", "eq", "ne", "imp"):
        return mentions(e[1], names) or mentions(e[2], names)
    return any(mentions(x, names) for x in e[1])


def classify(p):
    """List of (property, signature, detail) for a problem record of the shared run whose solution was rejected."""
    out = []
    v = p["verdict"]
    prog = p.get("program")
    if v.get("error"):
        return [("ALL", "machinery:checker", v["error"])]
    fails = p.get("fail", [])
    nn = numeric_names(prog) if prog else set()
    objs = object_names(prog) if prog else set()
    n_init = p.get("n_init_main", 0)
    if v.get("top") is False:
        for t in fails:
            if t[0] != "top":
                continue
            i = t[1] - n_init
            if i < 0 or not prog:
                out.append(("C06" if i < 0 else "C01", "c06:init-main" if i < 0 else "c01:constraint", "top-level statement %d" % i))
                continue
            s = prog["main"][i]
            text = A.pp_stmt(s)
            if s[0] in ("new",) or (s[0] == "local" and not isinstance(s[1], str)):
                out.append(("C17", "c17:object-variable", text))
            elif s[0] == "formula":
                if any(mentions(e, objs) for f, e in s[5]):
                    out.append(("C17", "c17:formula-argument", text))      # an object (variable) given as argument
                elif p.get("undefined_in_plan"):
                    out.append(("C03", "c03:unjustified-atom", "%s: atoms %s are in the plan (phi true) with sigma undefined" % (text, p["undefined_in_plan"])))
                else:
                    out.append(("C03", "c03:top-level-atom", text))
            else:
                es = stmt_exprs(s)
                if any(mentions(e, objs) for e in es):
                    out.append(("C17", "c17:object-constraint", text))
                else:
                    cls = [expr_class(e, nn) for e in es]
                    c = next((x for x in ("negated-exactly-one", "undecided-theory-atom", "arith-disequality") if x in cls), "constraint")
                    if p.get("family") == "incr":
                        c = "stale-controlling-literal"
                    out.append(("C01", "c01:" + c, text))
    if v.get("rules") is False:
        for t in fails:
            if t[0] == "rules":
                kind = t[2] if len(t) > 2 else "constraint"
                if kind == "structure" and p.get("undefined_in_plan"):
                    out.append(("C03", "c03:unjustified-atom", "rule of atom %s: atoms %s are in the plan (reached from an active rule / chosen disjunct, phi true) "
                                "but neither active nor unified (sigma undefined)" % (t[1], p["undefined_in_plan"])))
                elif kind == "structure":
                    out.append(("C03", "c03:rule-structure", "atom %s" % t[1]))
                elif kind == "argument":
                    out.append(("C17" if prog and prog["classes"] else "C03", "c17:formula-argument" if prog and prog["classes"] else "c03:subgoal-argument",
                                "a subgoal of atom %s does not have the arguments written in the rule" % t[1]))
                else:
                    out.append(("C01", "c01:rule-constraint", "atom %s" % t[1]))
    if p.get("n_flaws_left"):
        out.append(("C03", "c03:open-flaws-at-solution", "solver::solve reported a solution with %d flaws still open%s" % (
            p["n_flaws_left"], (" (atoms %s in the plan with sigma undefined)" % p["undefined_in_plan"]) if p.get("undefined_in_plan") else "")))
    if v.get("unified") is False:
        out.append(("C03", "c03:unified", "atoms %s" % [t[1] for t in fails if t[0] == "unified"]))
    if v.get("acyclic") is False:
        out.append(("C03", "c03:cycle", "support graph has a cycle"))
    elif v.get("rank_by_positions") is False:
        out.append(("C03", "corr:positions", "the planner's positions do not certify the (acyclic) support graph"))
    if (v.get("positions_model") or {}).get("violations"):
        out.append(("C03", "corr:positions", "positions violate the model of flaw::init / new_causal_link: %s" % v["positions_model"]["violations"][:2]))
    if v.get("temporal") is False:
        facts = p.get("dump_excerpt", {}).get("atoms", [])
        names = p.get("dump_excerpt", {}).get("names", {})
        sig = "c06:temporal"
        for t in fails:
            if t[0] == "temporal":
                nm = names.get(str(t[1]), "")
                a = next((x for x in facts if "env:" + x["id"] == nm), None)
                if a is not None:
                    plain = ":" not in a["pred"]
                    sig = "c06:plain-fact" if (a.get("fact") and plain) else "c06:fact" if a.get("fact") else "c06:goal"
        if p.get("family") == "shadow":
            sig = "c06:rule-name-capture"
        elif p.get("family") == "smartboth":
            sig = "c06:smart-fact-both-rules"
        elif p.get("family") == "samename":
            sig = "c06:same-simple-name"
        out.append(("C06", sig, "atoms %s" % [t[1] for t in fails if t[0] == "temporal"]))
    if v.get("factrules_missing"):
        out.append(("C06", "c06:fact-rule-missing", "a temporal rule the predicate reaches was not applied to a fact: %s" % v["factrules_missing"][:3]))
    if v.get("factrules_mismatch"):
        out.append(("C06", "corr:temporal:fact_rules", str(v["factrules_mismatch"][:3])))
    if v.get("ctors") is False:
        out.append(("C17", "c17:constructor", "objects %s" % [t[1] for t in fails if t[0] == "ctor"]))
    if v.get("argtypes") is False:
        out.append(("C17", "c17:argument-type", "an argument of an atom of the plan is not an instance of the parameter's type (atoms %s)" % [t[1] for t in fails if t[0] == "argtype"]))
    if v.get("domains") is False:
        enum_union = prog and any(c["kind"] == "enum" and c["incl"] for c in prog["classes"])
        out.append(("C17", "c17:enum-union-domain" if enum_union else "c17:domain", "variables %s" % [t[1] for t in fails if t[0] == "domain"]))
    if (v.get("derived") or {}).get("mismatches"):
        out.append(("C17", "c17:derived-field", json.dumps(v["derived"]["mismatches"][:2], default=str)))
    if v.get("conv_unknown"):
        out.append(("ALL", "corr:plan:linkage", str(v["conv_unknown"][:3])))
    return out


def pending(prop):
    p = os.path.join(vlib.VERIF, "notes", "fixes", "%s-pending.json" % prop)
    if os.path.exists(p):
        return {e["signature"]: e for e in json.load(open(p))}
    return {}


# ------------------------------------------------------------------------------------------------
def run(ctx, prop):
    cov = ctx.cov
    # 1. regeneration of gen/Gen_init.v ---------------------------------------------------------------
    translated = True
    try:
        text, changed, differs = plan_run.regenerate()
        cov["translator"] = {"source": "INIT_STRING (LA) of solver/CMakeLists.txt", "regenerated_changed": changed, "differs_from_reference": differs}
    except (plan_init.InitError, RuntimeError) as e:
        translated = False
        cov["translator"] = {"error": str(e)}
    # 3. shared run (before the proofs: it is also the failing-input search) ----------------------------
    res = plan_run.shared_run(ctx.seed, ctx.tier, log=ctx.log)
    cov["shared_run"] = {"from_cache": bool(res.get("from_cache")), "builds": res.get("builds"), "t_build_s": res.get("t_build"),
                         "t_solve_s": res.get("t_solve"), "t_check_s": res.get("t_check"), "wall_s": res.get("wall")}
    if not res.get("builds") or not all(res["builds"].values()):
        ctx.violation("build:plan", {"kind": "build-failed", "builds": res.get("builds"), "oracle_log": res.get("oracle_log"), "harness_log": res.get("harness_log")}, no_input=True)
        if translated:
            vlib.proof_stage(ctx)
        return
    mine = []
    pend = pending(prop)
    dist, feats = {}, {}
    judged = accepted = 0
    texts = set()
    per_config = {}
    muts = {}
    derived_checked = 0
    for p in res["problems"]:
        key = "%s/%s" % (p["family"], p["status"])
        dist[key] = dist.get(key, 0) + 1
        per_config[p["config"]] = per_config.get(p["config"], 0) + 1
        for k, n in p["feats"].items():
            feats[k] = feats.get(k, 0) + 1
        if p["status"] != "solved":
            continue
        judged += 1
        v = p["verdict"]
        derived_checked += (v.get("derived") or {}).get("checked", 0)
        if p.get("n_atoms", 0) + p.get("n_objs", 0) + p.get("n_disj_chosen", 0) > 0 or p["family"] == "cn":
            texts.add((p["name"], p["config"]))
        for m in p.get("solution_mutations", []):
            d = muts.setdefault(m["kind"], {"attempted": 0, "rejected": 0, "must_detect": bool(m["expected"]), "expected_verdict_failed": 0})
            d["attempted"] += 1
            d["rejected"] += 1 if m["rejected"] else 0
            d["expected_verdict_failed"] += 1 if m["expected_verdicts_failed"] else 0
        cl = classify(p) if (v.get("solution") is not True or p.get("n_flaws_left") or (v.get("derived") or {}).get("mismatches") or v.get("factrules_mismatch") or v.get("factrules_missing") or v.get("conv_unknown")
                             or v.get("rank_by_positions") is False or (v.get("positions_model") or {}).get("violations")) else []
        if not cl:
            accepted += 1
        for (pr, sig, detail) in cl:
            if pr == prop or pr == "ALL":
                mine.append((p, sig, detail))
    # problems of the field-read family that are satisfiable by construction but reported unsolvable: the expression built for `o.w` does
    # not denote the field of any admissible choice (completeness of the field read; the general claim belongs to C02)
    # the same for the other directed families whose problems are satisfiable by construction: the planner must not reject them
    BYC = {"shadow": ("C06", "c06:rule-name-capture"), "smartboth": ("C06", "c06:smart-fact-both-rules"), "fwd": ("C17", "c17:forward-referenced-base-class"),
           "samename": ("C06", "c06:same-simple-name"), "reopen": ("C03", "c03:reopened-flaw:sat-reported-unsolvable")}
    for p in res["problems"]:
        if p.get("expect") == "sat" and p["status"] in ("unsolvable", "exception") and p["family"] in BYC and BYC[p["family"]][0] == prop:
            mine.append((dict(p, verdict={"expected": "satisfiable by construction", "reported": p["status"], "what": p.get("what")}), BYC[p["family"]][1],
                         "valid problem, satisfiable by construction, reported %s %s" % (p["status"], p.get("what", ""))))
    if prop == "C17":
        for p in res["problems"]:
            if p.get("expect") == "sat" and p["status"] == "unsolvable" and p["family"] == "varfield":
                mine.append((dict(p, verdict={"expected": "satisfiable by construction", "reported": "unsolvable"}), "c17:field-read:sat-reported-unsolvable",
                             "satisfiable by construction (an instance meets every constraint stated through the object variable) but reported unsolvable"))
    reported = set()
    for (p, sig, detail) in mine:
        if sig in reported:
            continue
        reported.add(sig)
        if sig in pend:
            print("KNOWN-FINDING: property=%s %s (pending: notes/fixes/%s-pending.json)" % (prop, pend[sig].get("what", sig), prop), flush=True)
            ctx.known_hits.append(sig)
            continue
        ctx.violation(sig, {"kind": "solution-rejected-by-verified-checker" if not sig.startswith("corr:") else "model-differs-from-implementation",
                            "problem": p["name"], "config": p["config"], "detail": detail, "verdict": p["verdict"], "fail": p.get("fail"),
                            "input": p.get("text"), "program": json.loads(json.dumps(p.get("program"), default=A.json_default)), "family": p.get("family"), "solution_excerpt": p.get("dump_excerpt"),
                            "replay_cmd": "python3 tools/verif.py %s replay <this file>" % prop}, no_input=sig.startswith("corr:") or sig.startswith("machinery"))
    # the checker must reject the mutated solutions it is bound to reject
    for kind, d in muts.items():
        if d["must_detect"] and d["expected_verdict_failed"] != d["attempted"]:
            ctx.violation("machinery:checker-missed-mutation:" + kind, {"kind": "checker-vacuous", "mutation": kind, "counts": d}, no_input=True)
    # 2. proofs ---------------------------------------------------------------------------------------
    def search(r):
        return bool([1 for (p, sig, d) in mine if not sig.startswith("corr:") and not sig.startswith("machinery")])
    if translated:
        vlib.proof_stage(ctx, search=search)
        if ctx.thorough and hasattr(vlib, "coqchk_stage"):
            vlib.coqchk_stage(ctx)
    else:
        if not search(None):
            ctx.violation("translator:init_string", {"kind": "translator-failed", "error": cov["translator"]["error"],
                                                     "theorem": "tie: tools/plan_init.py on the INIT_STRING of solver/CMakeLists.txt"}, no_input=True)
    # 5. evidence -------------------------------------------------------------------------------------
    cov["evaluations"] = judged
    cov["accepted_solutions"] = accepted
    cov["distinct_nontrivial"] = len(texts)
    cov["traces_validated_against_impl"] = judged
    cov["rule"] = ("generated well-typed RIDDLE problems (families cn/oo/pl/tl + directed temporal problems + corpus), each solved by the real "
                   "planner built from /repo's current sources; every reported solution judged by the extracted verified checker; "
                   "non-trivial = the solution contains atoms, objects or chosen disjuncts (or is a constraint network)")
    cov["input_distribution"] = dict(sorted(dist.items()))
    cov["feature_counts"] = dict(sorted(feats.items()))
    cov["configurations"] = per_config
    cov["solution_mutations"] = muts
    cov["derived_field_variables_compared"] = derived_checked
    cov["object_variable_domains_checked"] = sum(p["verdict"].get("n_var_recs") or 0 for p in res["problems"] if p["status"] == "solved")
    cov["position_constraints_checked"] = sum((p["verdict"].get("positions_model") or {}).get("checked", 0) for p in res["problems"] if p["status"] == "solved")
    tot = {k: sum(p.get(k, 0) for p in res["problems"] if p["status"] == "solved") for k in
           ("n_atoms", "n_active", "n_unified", "n_objs", "n_edges", "n_disj_chosen", "n_interval_active", "n_vars_multi")}
    cov["solution_totals"] = tot
    cov["timeouts"] = sum(1 for p in res["problems"] if p["status"] == "timeout")
    # problems that are satisfiable / unsatisfiable by construction (an unsatisfiable one reported solved is rejected by the checker anyway;
    # a satisfiable one reported unsolvable belongs to C02 and is only counted here)
    exp = [p for p in res["problems"] if p.get("expect")]
    cov["by_construction"] = {"sat_solved": sum(1 for p in exp if p["expect"] == "sat" and p["status"] == "solved"),
                              "sat_reported_unsolvable": [p["name"] for p in exp if p["expect"] == "sat" and p["status"] != "solved"],
                              "unsat_unsolvable": sum(1 for p in exp if p["expect"] == "unsat" and p["status"] == "unsolvable"),
                              "unsat_reported_solved": [p["name"] for p in exp if p["expect"] == "unsat" and p["status"] == "solved"]}
    cov["crashes"] = [dict(name=p["name"], what=p.get("what")) for p in res["problems"] if p["status"] in ("crash",)][:5]
    for p in res["problems"]:
        if p["status"] == "solved" and p["family"] in ("pl", "tl", "oo"):
            ctx.sample({"problem": p["name"], "family": p["family"], "atoms": p.get("n_atoms"), "active": p.get("n_active"), "unified": p.get("n_unified"),
                        "objects": p.get("n_objs"), "verdict": {k: p["verdict"].get(k) for k in ("top", "rules", "unified", "acyclic", "temporal", "ctors", "argtypes", "domains")}}, cap=6)
    cov["trusted_base"] += [
        "tools/plan_gen.py (generator), tools/plan_conv.py (re-encoding of the harness dump), harness/h_solver.cpp (reads the planner's state through "
        "`#define private public` and the ORATIO_VERIF linkage hook), oracle/plan_sexp.ml + plan_main.ml (input reader of the extracted checker)",
        "tools/plan_init.py (INIT_STRING -> gen/Gen_init.v); the smart types (StateVariable, ReusableResource/Use, Agent) are hand-modelled in plan/Temporal.v",
        "the generator's AST is given to the checker as data and printed to RIDDLE text for the planner: the printer (tools/plan_ast.py) and the real parser "
        "are trusted to agree on the generated fragment (a disagreement shows up as a rejected solution)",
        "name resolution (scope::get_*, env::get chains) is taken from the generator: predicates and classes are referred to by their qualified names",
    ]
    ctx.assumptions += ["K2: the theorems are about the checker and the models; the for-all-programs claim about the 15 k-line planner is observed on %d solutions, not proved" % judged,
                        "values are read after solve() returned true; numeric values are the exact rationals (with infinitesimal part) reported by the LRA theory"]


def replay(prop, path):
    r = json.load(open(path), object_hook=A.json_hook)
    prog, text = r.get("program"), r.get("input")
    if not prog or not text:
        print("replay file without input (kind=%s): %s" % (r.get("kind"), r.get("theorem") or r.get("detail")))
        return 1
    plan_run.regenerate()
    oexe, olog = plan_run.build_oracle()
    hexe, hlog = plan_run.build_harness(r.get("config", "default"))
    if not oexe or not hexe:
        print("build failed")
        return 1
    os.makedirs(os.path.join(vlib.BUILD, "plan_tmp"), exist_ok=True)
    dump, dt = plan_run.solve_one(hexe, text, 30)
    print("status:", dump["status"], dump.get("what", ""))
    if dump["status"] != "solved":
        return 0
    v, info = plan_run.judge(oexe, prog, dump)
    p = {"verdict": v, "fail": v.get("fail", []), "program": prog, "n_init_main": v.get("n_init_main", 0), "dump_excerpt": plan_run.excerpt(dump, v, info)}
    cl = [c for c in classify(p) if c[0] in (prop, "ALL")]
    print("verdict:", {k: v.get(k) for k in ("top", "rules", "goals", "unified", "acyclic", "temporal", "ctors", "argtypes", "domains", "solution")})
    for c in cl:
        print("VIOLATION property=%s signature=%s %s" % (prop, c[1], c[2]))
    return 1 if cl else 0
