"""Generator of well-typed RIDDLE problems for the plan checks (C01, C03, C06, C17), from its own AST (tools/plan_ast.py).

Families (all seeded from the rng given by the caller, i.e. ctx.rng):
  cn  constraint networks over bool/int/real variables: linear arithmetic, relations, connectives, `{..} or {..}`
  oo  classes with fields / constructors / initialiser lists / multi-level and multiple (diamond) inheritance / nested
      types / enums with unions; object variables and existentials; field chains; (dis)equalities between objects
  pl  predicates with rules, facts and goals, layered and recursive (count-down) rules, disjunctions in rule bodies,
      unification opportunities
  tl  Interval / Impulse predicates, StateVariable / ReusableResource / Agent types with facts and goals on them
Problems are small (solve() well below 2 s) and mostly solvable: constraints are drawn so that a hidden assignment
satisfies them, rule structures are solvable by construction.
"""
from fractions import Fraction
import plan_ast as A
from plan_ast import num, var


def F(x, d=1):
    return Fraction(x, d)


class Names:
    def __init__(self):
        self.k = {}

    def __call__(self, prefix):
        self.k[prefix] = self.k.get(prefix, -1) + 1
        return "%s%d" % (prefix, self.k[prefix])


# ------------------------------------------------------------------------------------------------
# expressions true under a hidden assignment
# ------------------------------------------------------------------------------------------------
def lin_expr(rng, nums, depth=0, need_id_first=True):
    """A linear expression over the numeric variables `nums` (list of (path, value)); returns (expr, value).
    The leftmost leaf is always an identifier."""
    (p, v) = rng.choice(nums)
    e, val = var(*p), v
    r = rng.random()
    if depth >= 2 or r < 0.25:
        return e, val
    if r < 0.45:   # c * x  written x * c
        c = rng.choice([2, 3, F(1, 2), F(5, 2), 4])
        if rng.random() < 0.3:
            return ('mul', [num(c, isinstance(c, int)), e]), val * c
        return ('mul', [e, num(c, isinstance(c, int))]), val * c
    if r < 0.55:
        c = rng.choice([2, 4, F(1, 2), 5])
        return ('div', [e, num(c, isinstance(c, int))]), val / c
    n = rng.randint(1, 2)
    ops, vals = [e], [val]
    for _ in range(n):
        if rng.random() < 0.35:
            c = rng.choice([1, 2, F(1, 2), 3, F(3, 2), 10])
            o, ov = num(c, isinstance(c, int)), F(c)
            if rng.random() < 0.2:
                o, ov = ('neg', o), -ov
        else:
            o, ov = lin_expr(rng, nums, depth + 1)
            if rng.random() < 0.15:
                o, ov = ('neg', o), -ov
        ops.append(o)
        vals.append(ov)
    if rng.random() < 0.5:
        if rng.random() < 0.3:      # any operand first (a literal, a negation, a parenthesised sum)
            perm = list(range(len(ops)))
            rng.shuffle(perm)
            ops = [ops[i] for i in perm]
        return ('add', ops), sum(vals, F(0))
    r = vals[0]
    for x in vals[1:]:
        r -= x
    return ('sub', ops), r


def rel_atom(rng, nums, want=True):
    """A comparison between two linear expressions with truth value `want` under the hidden assignment."""
    for _ in range(50):
        a, va = lin_expr(rng, nums)
        if rng.random() < 0.5:
            c = va + rng.choice([0, 0, 1, -1, F(1, 2), 2, -3])
            if c >= 0:
                b, vb = num(c, c.denominator == 1), c
            else:
                b, vb = ('neg', num(-c, c.denominator == 1)), c
        else:
            b, vb = lin_expr(rng, nums)
        ops = ['lt', 'le', 'ge', 'gt', 'eq', 'ne']
        rng.shuffle(ops)
        for op in ops:
            t = {'lt': va < vb, 'le': va <= vb, 'ge': va >= vb, 'gt': va > vb, 'eq': va == vb, 'ne': va != vb}[op]
            if t == want:
                return (op, a, b)
    return ('le', var(*nums[0][0]), var(*nums[0][0])) if want else ('lt', var(*nums[0][0]), var(*nums[0][0]))


def bool_expr(rng, bools, nums, want=True, depth=0):
    """A boolean expression with truth value `want`; leftmost leaf an identifier unless it starts with '!'."""
    r = rng.random()
    if depth >= 2 or r < 0.3:
        if bools and (not nums or rng.random() < 0.5):
            cands = [(p, v) for p, v in bools]
            p, v = rng.choice(cands)
            return var(*p) if v == want else ('not', var(*p))
        return rel_atom(rng, nums, want)
    if r < 0.4 and (bools or nums):
        inner = bool_expr(rng, bools, nums, not want, depth + 1)
        if inner[0] not in ('not',):
            return ('not', inner)
    k = rng.randint(2, 3)
    if r < 0.55:   # and
        if want:
            return ('and', [bool_expr(rng, bools, nums, True, depth + 1) for _ in range(k)])
        vals = [rng.random() < 0.5 for _ in range(k)]
        vals[rng.randrange(k)] = False
        return ('and', [bool_expr(rng, bools, nums, v, depth + 1) for v in vals])
    if r < 0.75:   # or
        if not want:
            return ('or', [bool_expr(rng, bools, nums, False, depth + 1) for _ in range(k)])
        vals = [rng.random() < 0.4 for _ in range(k)]
        vals[rng.randrange(k)] = True
        return ('or', [bool_expr(rng, bools, nums, v, depth + 1) for v in vals])
    if r < 0.85:   # exactly one
        vals = [False] * k
        if want:
            vals[rng.randrange(k)] = True
        else:
            if rng.random() < 0.5:
                vals[0] = vals[1] = True
        return ('xor', [bool_expr(rng, bools, nums, v, depth + 1) for v in vals])
    if r < 0.95:   # implication
        if want:
            a = rng.random() < 0.5
            b = True if a else (rng.random() < 0.5)
        else:
            a, b = True, False
        return ('imp', bool_expr(rng, bools, nums, a, depth + 1), bool_expr(rng, bools, nums, b, depth + 1))
    if bools and len(bools) >= 2:
        (p, v), (q, w) = rng.sample(bools, 2)
        return ('eq' if (v == w) == want else 'ne', var(*p), var(*q))
    return rel_atom(rng, nums, want)


def fix_start(e, bools, rng):
    """Make an expression statement start with an identifier, '!' or a literal, as the parser requires."""
    for _ in range(3):
        try:
            if A.stmt_start_ok(e):
                A.pp(e)
                return e
        except A.Unprintable:
            pass
        e = ('not', ('not', e)) if A.leftmost_is_id(e) and e[0] != 'id' else e
        break
    return e


def constraint(rng, bools, nums, feats):
    for _ in range(30):
        e = bool_expr(rng, bools, nums, True)
        try:
            A.check_expr_text(e, True)
        except A.Unprintable:
            continue
        feats[e[0]] = feats.get(e[0], 0) + 1
        return ('expr', e)
    p, v = nums[0]
    return ('expr', ('le', var(*p), var(*p)))


# ------------------------------------------------------------------------------------------------
# family cn
# ------------------------------------------------------------------------------------------------
def gen_cn(rng, feats):
    N = Names()
    main, bools, nums = [], [], []
    for _ in range(rng.randint(0, 3)):
        x = N("b")
        main.append(('local', 'bool', x, None))
        bools.append(((x,), rng.random() < 0.5))
    for _ in range(rng.randint(0, 2)):
        x = N("i")
        main.append(('local', 'int', x, None))
        nums.append(((x,), F(rng.randint(-5, 9))))
    for _ in range(rng.randint(1, 4)):
        x = N("x")
        main.append(('local', 'real', x, None))
        nums.append(((x,), F(rng.randint(-8, 16), 2)))
    # a defined variable
    if rng.random() < 0.5:
        e, v = lin_expr(rng, nums)
        x = N("z")
        main.append(('local', 'real', x, e))
        nums.append(((x,), v))
        feats['local_init'] = feats.get('local_init', 0) + 1
    for _ in range(rng.randint(2, 7)):
        if rng.random() < 0.2:
            k = rng.randint(2, 3)
            good = rng.randrange(k)
            brs = []
            for j in range(k):
                br = []
                for _ in range(rng.randint(1, 2)):
                    if j == good:
                        br.append(constraint(rng, bools, nums, feats))
                    else:
                        e = bool_expr(rng, bools, nums, rng.random() < 0.5)
                        try:
                            A.check_expr_text(e, True)
                            br.append(('expr', e))
                        except A.Unprintable:
                            br.append(constraint(rng, bools, nums, feats))
                brs.append(br)
            main.append(('disj', N("d"), brs))
            feats['disj_stmt'] = feats.get('disj_stmt', 0) + 1
        else:
            main.append(constraint(rng, bools, nums, feats))
    return {'classes': [], 'preds': [], 'main': main}


# ------------------------------------------------------------------------------------------------
# family oo
# ------------------------------------------------------------------------------------------------
def gen_oo(rng, feats):
    N = Names()
    classes, main = [], []
    ncls = rng.randint(2, 5)
    infos = []   # per class: dict(name, supers, fields(all incl inherited: list (f, ty)), ctor)
    enums = []
    for k in range(rng.randint(0, 2)):
        name = N("E")
        vals = [name.lower() + "_" + str(j) for j in range(rng.randint(1, 3))]
        incl = [rng.choice(enums)['name']] if enums and rng.random() < 0.6 else []
        if incl:
            feats['enum_union'] = feats.get('enum_union', 0) + 1
        c = {'name': name, 'kind': 'enum', 'vals': vals, 'incl': incl, 'supers': [], 'fields': [], 'ctors': []}
        classes.append(c)
        enums.append(c)

    def all_vals(en):
        out = list(en['vals'])
        for i in en['incl']:
            out += all_vals(next(x for x in enums if x['name'] == i))
        return out

    for k in range(ncls):
        name = N("C")
        outer = None
        if infos and rng.random() < 0.15:
            outer = rng.choice([i for i in infos if not i['outer']] or [None])
        qname = name if not outer else outer['name'] + ":" + name
        cands = [i for i in infos if not i['outer'] and (not outer)]
        supers = []
        if cands and rng.random() < 0.7:
            supers = [c['name'] for c in rng.sample(cands, min(len(cands), rng.choice([1, 1, 2])))]
            supers.sort(key=lambda s: [i['name'] for i in infos].index(s))
        if len(supers) == 2:
            feats['multi_inherit'] = feats.get('multi_inherit', 0) + 1
        own_fields = []
        for _ in range(rng.randint(0, 2)):
            f = N("f")
            r = rng.random()
            if r < 0.6:
                c = F(rng.randint(0, 12), 2)
                own_fields.append((f, 'real', num(c, False) if rng.random() < 0.4 else None))
            elif r < 0.75:
                own_fields.append((f, 'bool', None))
            elif infos and r < 0.95:
                t = rng.choice([i for i in infos if not i['outer']] or infos)
                own_fields.append((f, ('ref', t['name']), None))
            else:
                own_fields.append((f, 'int', num(rng.randint(0, 5), True)))
        # constructor
        ctors = []
        sup_infos = [next(i for i in infos if i['name'] == s) for s in supers]
        need_ctor = rng.random() < 0.6 or any(i['ctor_params'] for i in sup_infos)
        ctor_params = []
        if need_ctor:
            params, inits, body, sup_calls = [], [], [], []
            for f, t, init in own_fields:
                if rng.random() < 0.6 and (isinstance(t, str)):
                    p = N("p")
                    params.append((p, t))
                    inits.append((f, var(p)))
                    if t == 'real' and rng.random() < 0.5:
                        body.append(('expr', ('ge', var(f), num(0, False))))
            for si in sup_infos:
                if si['ctor_params'] or rng.random() < 0.3:
                    args = []
                    for (pn, pt) in si['ctor_params']:
                        if params and rng.random() < 0.4 and any(t == pt for _, t in params):
                            args.append(var(rng.choice([x for x, t in params if t == pt])))
                        elif pt == 'real':
                            args.append(num(F(rng.randint(0, 10), 2), False))
                        elif pt == 'int':
                            args.append(num(rng.randint(0, 6), True))
                        else:
                            args.append(('bool', rng.random() < 0.5))
                    sup_calls.append((si['name'], args))
            ctors.append({'params': params, 'supers': sup_calls, 'inits': inits, 'body': body})
            ctor_params = params
            feats['ctor'] = feats.get('ctor', 0) + 1
            if sup_calls:
                feats['super_ctor_call'] = feats.get('super_ctor_call', 0) + 1
        inherited = []
        for si in sup_infos:
            for ft in si['fields']:
                if ft not in inherited:
                    inherited.append(ft)
        info = {'name': qname, 'supers': supers, 'fields': inherited + [(f, t) for f, t, _ in own_fields], 'ctor_params': ctor_params, 'outer': outer}
        infos.append(info)
        c = {'name': qname, 'kind': 'class', 'supers': supers, 'fields': own_fields, 'ctors': ctors}
        if outer:
            c['outer'] = outer['name']
            feats['nested_type'] = feats.get('nested_type', 0) + 1
        classes.append(c)
    # diamond?
    def ancestors(n):
        i = next(x for x in infos if x['name'] == n)
        out = [n]
        for s in i['supers']:
            out += ancestors(s)
        return out
    for i in infos:
        a = ancestors(i['name'])
        if len(a) != len(set(a)):
            feats['diamond'] = feats.get('diamond', 0) + 1
            break

    # instances
    objs = []    # (name, class info, field values dict)
    def subtype(d, c):
        return c in ancestors(d)

    order = list(infos)
    stmts = []
    for _ in range(rng.randint(2, 6)):
        ci = rng.choice(order)
        x = N("o")
        args = []
        for (pn, pt) in ci['ctor_params']:
            if pt == 'real':
                args.append(num(F(rng.randint(0, 12), 2), False))
            elif pt == 'int':
                args.append(num(rng.randint(0, 6), True))
            else:
                args.append(('bool', rng.random() < 0.5))
        # object-typed fields need an instance to exist (otherwise: inconsistency): check
        ok = True
        for f, t in ci['fields']:
            if not isinstance(t, str) and not any(subtype(o[1]['name'], t[1]) for o in objs):
                ok = False
        if not ok:
            continue
        stmts.append(('new', ci['name'], x, args))
        objs.append((x, ci))
    if not objs:
        ci = next((i for i in infos if all(isinstance(t, str) for _, t in i['fields'])), None)
        if ci is None:
            return gen_cn(rng, feats)
        args = [num(1, pt == 'int') if pt != 'bool' else ('bool', True) for _, pt in ci['ctor_params']]
        stmts.append(('new', ci['name'], N("o"), args))
        objs.append((stmts[-1][2], ci))
    main += stmts
    # existentials and enum variables, interleaved with further instances
    exs = []
    for _ in range(rng.randint(1, 3)):
        ci = rng.choice(infos)
        cands = [o for o in objs if subtype(o[1]['name'], ci['name'])]
        if not cands:
            continue
        x = N("v")
        main.append(('local', ('ref', ci['name']), x, None))
        exs.append((x, ci, cands, rng.choice(cands)))
        feats['existential'] = feats.get('existential', 0) + 1
        if len(cands) > 1:
            feats['existential_multi'] = feats.get('existential_multi', 0) + 1
    evars = []
    for en in enums:
        for _ in range(rng.randint(0, 2)):
            x = N("e")
            main.append(('local', ('ref', en['name']), x, None))
            evars.append((x, en, rng.choice(all_vals(en))))
            feats['enum_var'] = feats.get('enum_var', 0) + 1
    # constraints
    for (x, ci, cands, chosen) in exs:
        r = rng.random()
        others = [o for o in cands if o is not chosen]
        if others and r < 0.5:
            o = rng.choice(others)
            main.append(('expr', ('ne', var(x), var(o[0]))))
            feats['obj_ne'] = feats.get('obj_ne', 0) + 1
        elif r < 0.65:
            main.append(('expr', ('eq', var(x), var(chosen[0]))))
            feats['obj_eq'] = feats.get('obj_eq', 0) + 1
        # field constraints through the variable (loose: do not depend on the hidden choice)
        numf = [(f, t) for f, t in ci['fields'] if t in ('real', 'int')]
        if numf and rng.random() < 0.7:
            f, t = rng.choice(numf)
            main.append(('expr', (rng.choice(['ge', 'le']), var(x, f), var(x, f))) if rng.random() < 0.2 else ('expr', ('ge', ('add', [var(x, f), num(100, True)]), num(0, True))))
            feats['field_access'] = feats.get('field_access', 0) + 1
        reff = [(f, t) for f, t in ci['fields'] if not isinstance(t, str)]
        if reff and rng.random() < 0.8:
            f, t = rng.choice(reff)
            ti = next(i for i in infos if i['name'] == t[1])
            numf2 = [(g, u) for g, u in ti['fields'] if u in ('real', 'int')]
            if numf2:
                g, u = rng.choice(numf2)
                main.append(('expr', ('le', var(x, f, g), ('add', [var(x, f, g), num(1, True)]))))
                feats['field_chain'] = feats.get('field_chain', 0) + 1
            others2 = [o for o in objs]
            if others2:
                main.append(('expr', ('eq', var(x, f), var(x, f))))
    if len(exs) >= 2 and rng.random() < 0.7:
        a, b = rng.sample(exs, 2)
        common = [o for o in a[2] if o in b[2]]
        if common and rng.random() < 0.5:
            main.append(('expr', ('eq', var(a[0]), var(b[0]))))
            feats['obj_eq_vars'] = feats.get('obj_eq_vars', 0) + 1
        elif len(set(o[0] for o in a[2]) | set(o[0] for o in b[2])) >= 2:
            main.append(('expr', ('ne', var(a[0]), var(b[0]))))
            feats['obj_ne_vars'] = feats.get('obj_ne_vars', 0) + 1
    # equalities between numeric fields of concrete objects with constructor-given values are avoided (may be inconsistent);
    # use inequalities that are satisfiable whatever the values: f <= g | f > g
    for _ in range(rng.randint(0, 2)):
        o = rng.choice(objs)
        numf = [(f, t) for f, t in o[1]['fields'] if t in ('real', 'int')]
        if numf:
            f, t = rng.choice(numf)
            main.append(('expr', ('or', [('not', ('gt', var(o[0], f), num(3, True))), ('gt', var(o[0], f), num(3, True))])))
            feats['obj_field_constraint'] = feats.get('obj_field_constraint', 0) + 1
    if len(evars) >= 2:
        a, b = rng.sample(evars, 2)
        va, vb = set(all_vals(a[1])), set(all_vals(b[1]))
        if va & vb and rng.random() < 0.5:
            main.append(('expr', ('eq', var(a[0]), var(b[0]))))
            feats['enum_eq'] = feats.get('enum_eq', 0) + 1
        elif len(va | vb) >= 2:
            main.append(('expr', ('ne', var(a[0]), var(b[0]))))
            feats['enum_ne'] = feats.get('enum_ne', 0) + 1
    return {'classes': classes, 'preds': [], 'main': main}


# ------------------------------------------------------------------------------------------------
# family pl
# ------------------------------------------------------------------------------------------------
def gen_pl(rng, feats):
    N = Names()
    preds, main = [], []
    main.append(('local', 'real', 'gv', None))
    # level-0 predicates
    L0 = []
    for _ in range(rng.randint(1, 2)):
        name = N("B")
        params = [('x', 'real')] + ([('y', 'real')] if rng.random() < 0.4 else [])
        body = []
        if rng.random() < 0.6:
            body.append(('expr', ('ge', var('x'), num(0, False))))
        if rng.random() < 0.3:
            body.append(('expr', ('le', var('x'), ('add', [var('gv'), num(100, False)]))))
        preds.append({'name': name, 'owner': None, 'params': params, 'supers': [], 'body': body})
        L0.append(preds[-1])
    # a super-predicate with its own rule (inherited rule applied first)
    base = None
    if rng.random() < 0.5:
        base = {'name': N("S"), 'owner': None, 'params': [('w', 'real')], 'supers': [], 'body': [('expr', ('ge', var('w'), num(1, False)))]}
        preds.append(base)
        feats['pred_inherit'] = feats.get('pred_inherit', 0) + 1
    base2 = None
    if base and rng.random() < 0.5:
        base2 = {'name': N("S"), 'owner': None, 'params': [('u', 'real')], 'supers': [], 'body': [('expr', ('le', var('u'), num(50, False))), ('expr', ('ge', var('u'), var('w')))]}
        preds.append(base2)
    # higher predicates
    levels = [L0]
    for lv in range(rng.randint(1, 2)):
        cur = []
        for _ in range(rng.randint(1, 2)):
            name = N("P")
            params = [('x', 'real')]
            body = []
            nsub = rng.randint(1, 2)

            def subgoal(gname):
                tgt = rng.choice(levels[rng.randrange(len(levels))])
                args = []
                r = rng.random()
                if r < 0.5:
                    args.append(('x', var('x')))
                elif r < 0.75:
                    args.append(('x', ('add', [var('x'), num(1, False)])))
                elif r < 0.9:
                    args.append(('x', num(F(rng.randint(0, 6)), False)))
                return ('formula', False, gname, [], tgt['name'], args)

            if rng.random() < 0.4:
                brs = []
                for j in range(rng.randint(2, 3)):
                    br = [subgoal(N("g"))]
                    if rng.random() < 0.5:
                        br.append(('expr', ('ge', var('x'), num(F(rng.randint(0, 3)), False))))
                    brs.append(br)
                body.append(('disj', N("d"), brs))
                feats['rule_disj'] = feats.get('rule_disj', 0) + 1
            else:
                for _ in range(nsub):
                    g = N("g")
                    body.append(subgoal(g))
                    if rng.random() < 0.4:
                        body.append(('expr', ('le', var(g, 'x'), ('add', [var('x'), num(10, False)]))))
                        feats['child_constraint'] = feats.get('child_constraint', 0) + 1
            if rng.random() < 0.3:
                body.append(('local', 'real', N("t"), None))
                body.append(('expr', ('ge', var(body[-1][2]), var('x'))))
                feats['rule_local'] = feats.get('rule_local', 0) + 1
            sup = []
            if base and rng.random() < 0.5:
                sup = [base['name']]
                if base2 and rng.random() < 0.7:
                    sup.append(base2['name'])      # the rule of S1 relates its parameter to the one inherited from S0
                    feats['pred_multi_inherit'] = feats.get('pred_multi_inherit', 0) + 1
            preds.append({'name': name, 'owner': None, 'params': params, 'supers': sup, 'body': body})
            cur.append(preds[-1])
        levels.append(cur)
    # count-down recursion
    rec = None
    if rng.random() < 0.4:
        rname = N("R")
        rec = {'name': rname, 'owner': None, 'params': [('k', 'real')], 'supers': [],
               'body': [('disj', N("d"), [[('expr', ('le', var('k'), num(0, False)))],
                                          [('expr', ('ge', var('k'), num(1, False))),
                                           ('formula', False, 'nxt', [], rname, [('k', ('sub', [var('k'), num(1, False)]))])]])]}
        preds.append(rec)
        feats['recursion'] = feats.get('recursion', 0) + 1
    # facts for level-0 predicates, goals
    for p in L0:
        for _ in range(rng.randint(0, 2)):
            args = [('x', num(F(rng.randint(0, 6)), False))]
            if len(p['params']) > 1 and rng.random() < 0.5:
                args.append(('y', num(F(rng.randint(0, 6)), False)))
            main.append(('formula', True, N("fa"), [], p['name'], args))
            feats['fact'] = feats.get('fact', 0) + 1
    allp = [p for lv in levels for p in lv]
    for _ in range(rng.randint(1, 3)):
        p = rng.choice(allp)
        args = []
        if rng.random() < 0.7:
            args.append(('x', num(F(rng.randint(0, 6)), False)))
        if any(s for s in p['supers']) and rng.random() < 0.5:
            args.append(('w', num(F(rng.randint(1, 4)), False)))
        g = N("go")
        main.append(('formula', False, g, [], p['name'], args))
        feats['goal'] = feats.get('goal', 0) + 1
        if rng.random() < 0.3:
            main.append(('expr', ('ge', var(g, 'x'), num(0, False))))
    if rec:
        main.append(('formula', False, N("go"), [], rec['name'], [('k', num(F(rng.randint(0, 3)), False))]))
    # duplicate goals (unification opportunities)
    if rng.random() < 0.6:
        p = rng.choice(allp)
        c = num(F(rng.randint(0, 4)), False)
        main.append(('formula', False, N("go"), [], p['name'], [('x', c)]))
        main.append(('formula', False, N("go"), [], p['name'], [('x', c)] if rng.random() < 0.7 else []))
        feats['dup_goals'] = feats.get('dup_goals', 0) + 1
    return {'classes': [], 'preds': preds, 'main': main}


# ------------------------------------------------------------------------------------------------
# family tl
# ------------------------------------------------------------------------------------------------
def gen_tl(rng, feats):
    N = Names()
    classes, preds, main = [], [], []
    kinds = []
    # plain interval / impulse predicates
    if rng.random() < 0.6:
        q = {'name': N("Q"), 'owner': None, 'params': [('v', 'real')], 'supers': ['Interval'], 'body': [('expr', ('ge', var('duration'), num(F(rng.randint(1, 3)), False)))]}
        preds.append(q)
        if rng.random() < 0.5:
            r = {'name': N("Q"), 'owner': None, 'params': [], 'supers': ['Interval'],
                 'body': [('expr', ('ge', var('duration'), num(1, False))), ('formula', False, 'pre', [], q['name'], [('end', var('start'))])]}
            preds.append(r)
            g = N("g")
            main.append(('formula', False, g, [], r['name'], []))
            feats['plain_interval_goal_chain'] = feats.get('plain_interval_goal_chain', 0) + 1
        else:
            g = N("g")
            main.append(('formula', False, g, [], q['name'], [('v', num(2, False))] if rng.random() < 0.5 else []))
            feats['plain_interval_goal'] = feats.get('plain_interval_goal', 0) + 1
        if rng.random() < 0.5:
            f = N("f")
            args = [('start', num(F(rng.randint(0, 5)), False))]
            r_ = rng.random()
            if r_ < 0.4:
                args.append(('end', num(F(rng.randint(6, 9)), False)))
            main.append(('formula', True, f, [], q['name'], args))
            feats['plain_interval_fact'] = feats.get('plain_interval_fact', 0) + 1
    if rng.random() < 0.4:
        m = {'name': N("M"), 'owner': None, 'params': [], 'supers': ['Impulse'], 'body': []}
        preds.append(m)
        g = N("g")
        main.append(('formula', rng.random() < 0.3, g, [], m['name'], [('at', num(F(rng.randint(0, 7)), False))] if rng.random() < 0.6 else []))
        feats['impulse'] = feats.get('impulse', 0) + 1
    # state variable
    if rng.random() < 0.7:
        cn = N("SV")
        a = {'name': cn + ":A", 'owner': cn, 'params': [('x', 'real')], 'supers': [],
             'body': [('expr', ('ge', var('duration'), num(1, False)))]}
        b = {'name': cn + ":B", 'owner': cn, 'params': [], 'supers': [],
             'body': [('expr', ('ge', var('duration'), num(1, False))), ('formula', False, 'pa', [], cn + ":A", [('end', var('start'))] + ([('x', num(1, False))] if rng.random() < 0.5 else []))]}
        if rng.random() < 0.5:
            a['body'].append(('formula', False, 'pb', [], cn + ":B", [('end', var('start'))]))
            b['body'][-1] = ('formula', False, 'pa', [], cn + ":A", [('end', var('start'))])
            # A -> B -> A ... terminates by unification with the fact below (x left free)
            feats['sv_cycle'] = feats.get('sv_cycle', 0) + 1
        classes.append({'name': cn, 'kind': 'class', 'supers': ['StateVariable'], 'fields': [], 'ctors': []})
        preds += [a, b]
        sv = N("sv")
        main.append(('new', cn, sv, []))
        f = N("f")
        main.append(('formula', True, f, [sv], cn + ":A", [('start', var('origin')), ('x', num(0, False))]))
        main.append(('expr', ('ge', var(f, 'duration'), num(1, False))))
        g = N("g")
        main.append(('formula', False, g, [sv], rng.choice([cn + ":A", cn + ":B"]), []))
        if rng.random() < 0.5:
            main.append(('expr', ('ge', var(g, 'start'), var(f, 'end'))))
        if rng.random() < 0.3:
            g2 = N("g")
            main.append(('formula', False, g2, [sv], cn + ":A", [('x', num(2, False))]))
        feats['state_variable'] = feats.get('state_variable', 0) + 1
    # reusable resource
    if rng.random() < 0.5:
        rr = N("rr")
        cap = rng.randint(2, 5)
        main.append(('new', 'ReusableResource', rr, [num(F(cap), False)]))
        for _ in range(rng.randint(1, 3)):
            u = N("u")
            isf = rng.random() < 0.5
            am = F(rng.randint(1, cap))
            args = [('amount', num(am, False))]
            if isf:
                s = rng.randint(0, 5)
                args += [('start', num(F(s), False)), ('end', num(F(s + rng.randint(1, 4)), False))]
            main.append(('formula', isf, u, [rr], 'ReusableResource:Use', args))
            if not isf:
                main.append(('expr', ('ge', var(u, 'duration'), num(1, False))))
        feats['reusable_resource'] = feats.get('reusable_resource', 0) + 1
    # agent
    if rng.random() < 0.4:
        cn = N("Ag")
        p1 = {'name': cn + ":Ping", 'owner': cn, 'params': [], 'supers': ['Impulse'], 'body': []}
        p2 = {'name': cn + ":Work", 'owner': cn, 'params': [('n', 'real')], 'supers': ['Interval'],
              'body': [('expr', ('ge', var('duration'), num(2, False))), ('formula', False, 'pg', [], cn + ":Ping", [('at', var('start'))])]}
        classes.append({'name': cn, 'kind': 'class', 'supers': ['Agent'], 'fields': [], 'ctors': []})
        preds += [p1, p2]
        ag = N("ag")
        main.append(('new', cn, ag, []))
        main.append(('formula', False, N("g"), [ag], cn + ":Work", [('n', num(1, False))]))
        if rng.random() < 0.6:
            main.append(('formula', True, N("f"), [ag], cn + ":Ping", [('at', num(F(rng.randint(0, 4)), False))] if rng.random() < 0.7 else []))
        if rng.random() < 0.4:
            main.append(('formula', True, N("f"), [ag], cn + ":Work", [('n', num(0, False)), ('start', num(1, False))]))
        feats['agent'] = feats.get('agent', 0) + 1
    if not main:
        return gen_tl(rng, feats)
    if rng.random() < 0.5:
        main.append(('expr', ('le', var('horizon'), num(F(rng.randint(30, 60)), False))))
    return {'classes': classes, 'preds': preds, 'main': main}


# ------------------------------------------------------------------------------------------------
# directed families (produced in every run)
# ------------------------------------------------------------------------------------------------
def directed_boundary():
    """C01, sharing of relation literals in the arithmetic theory: a relation `e op1 c` is first only MENTIONED (boolean initialiser,
    disjunct, premise of an implication), later a relation `e op2 c` over the same linear expression and the same constant is asserted
    (all 16 ordered pairs of < <= >= >, i.e. complementary, identical and shifted-by-epsilon relations in both orders), and the other
    constraints push e exactly onto c. Either the problem is unsatisfiable (and must not be solved) or the values must respect every
    relation, the boolean initialised with the first one included."""
    out = []
    x, y, z = var('x'), var('y'), var('z')
    exprs = [x, ('add', [x, y]), ('sub', [x, ('mul', [y, num(2, True)])]), ('add', [y, x]), ('add', [x, y, z])]
    c = num(3, False)
    ops = ['lt', 'le', 'ge', 'gt']
    k = 0
    for op1 in ops:
        for op2 in ops:
            for force in ('both', 'side'):
                e = exprs[k % len(exprs)]
                e2 = exprs[0 if k % len(exprs) == 0 else (3 if k % len(exprs) == 1 and k % 2 else k % len(exprs))]   # sometimes y + x for x + y
                ctx = ('init', 'disj', 'imp')[k % 3]
                k += 1
                main = [('local', 'real', 'x', None), ('local', 'real', 'y', None), ('local', 'real', 'z', None)]
                first = (op1, e, c)
                if ctx == 'init':
                    main.append(('local', 'bool', 'p', first))
                elif ctx == 'disj':
                    main.append(('local', 'bool', 'b', None))
                    main.append(('disj', 'bd%d' % k, [[('expr', first)], [('expr', var('b'))]]))
                else:
                    main += [('local', 'bool', 't', None), ('local', 'bool', 'q', None), ('expr', var('t')),
                             ('expr', ('imp', ('and', [var('t'), first]), var('q')))]
                second = (op2, e2, c)
                if k % 4 == 0:
                    main.append(('local', 'bool', 'r', second))
                    main.append(('expr', var('r')))
                elif k % 7 == 0 and op2 in ('lt', 'gt'):
                    # mirrored sides: c op' e
                    main.append(('expr', ({'lt': 'gt', 'gt': 'lt'}[op2], c, e2)))
                else:
                    main.append(('expr', second))
                if force == 'both':
                    main += [('expr', ('ge', e, c)), ('expr', ('le', e, c))]
                else:
                    main.append(('expr', ('ge', e, c)) if op2 in ('lt', 'le') else ('expr', ('le', e, c)))
                prog = {'classes': [], 'preds': [], 'main': main}
                out.append((prog, A.pp_program(prog)))
    # targeted: the later relation is stricter than / complementary to / identical with the one mentioned first and the only forcing
    # constraint puts e on the boundary, so that re-using the first literal (or its negation) for the second one yields e = c
    k = 0
    for ctx in ('init', 'disj', 'imp'):
        for e in exprs[:3]:
            for (op1, op2, f) in (('ge', 'gt', 'le'), ('le', 'lt', 'ge'), ('gt', 'lt', 'ge'), ('lt', 'gt', 'le'),
                                  ('gt', 'ge', 'le'), ('lt', 'le', 'ge'), ('gt', 'gt', 'le'), ('lt', 'lt', 'ge')):
                k += 1
                main = [('local', 'real', 'x', None), ('local', 'real', 'y', None)]
                first = (op1, e, c)
                if ctx == 'init':
                    main.append(('local', 'bool', 'p', first))
                elif ctx == 'disj':
                    main.append(('local', 'bool', 'b', None))
                    main.append(('disj', 'bt%d' % k, [[('expr', first)], [('expr', var('b'))]]))
                else:
                    main += [('local', 'bool', 't', None), ('local', 'bool', 'q', None), ('expr', var('t')),
                             ('expr', ('imp', ('and', [var('t'), first]), var('q')))]
                if k % 3 == 0:
                    main += [('local', 'bool', 'r', (op2, e, c)), ('expr', var('r'))]
                else:
                    main.append(('expr', (op2, e, c)))
                main.append(('expr', (f, e, c)))
                prog = {'classes': [], 'preds': [], 'main': main}
                out.append((prog, A.pp_program(prog)))
    # the negation of a mentioned strict relation is the non strict complementary one
    for op1, neg_ok in (('gt', 'le'), ('lt', 'ge'), ('ge', 'lt'), ('le', 'gt')):
        e = exprs[1]
        main = [('local', 'real', 'x', None), ('local', 'real', 'y', None), ('local', 'bool', 'p', (op1, e, c)), ('expr', ('not', var('p'))),
                ('expr', ('ge', e, c)) if neg_ok in ('le', 'lt') else ('expr', ('le', e, c))]
        prog = {'classes': [], 'preds': [], 'main': main}
        out.append((prog, A.pp_program(prog)))
    return out


def directed_hierarchy():
    """C03, unification across a predicate hierarchy: goals of a super-predicate while an atom of a sub-predicate with equal inherited
    arguments exists (and the other way round). A goal may only be unified with an atom of ITS OWN predicate; otherwise it is active
    and its rule (subgoals included) is in the plan."""
    out = []
    one, two = num(1, False), num(2, False)

    def base(owner=None, pre=""):
        O = {'name': pre + 'Order', 'owner': owner, 'params': [('q', 'real')], 'supers': [], 'body': []}
        S = {'name': pre + 'Stock', 'owner': owner, 'params': [('q', 'real')], 'supers': [],
             'body': [('formula', False, 'o', [], pre + 'Order', [('q', var('q'))]), ('expr', ('ge', var('q'), num(0, False)))]}
        R = {'name': pre + 'Reserved', 'owner': owner, 'params': [('owner', 'real')], 'supers': [pre + 'Stock'],
             'body': [('expr', ('ge', var('owner'), num(0, False)))]}
        T = {'name': pre + 'Pinned', 'owner': owner, 'params': [('pin', 'real')], 'supers': [pre + 'Reserved'], 'body': []}
        return O, S, R, T
    O, S, R, T = base()
    preds = [O, S, R, T]
    mains = [
        # goal of the super-predicate, fact of the sub-predicate with the same inherited argument
        [('formula', True, 'r', [], 'Reserved', [('q', one), ('owner', two)]), ('formula', False, 's', [], 'Stock', [('q', one)])],
        # ... the sub-predicate atom is an (already expanded) goal
        [('formula', False, 'r', [], 'Reserved', [('q', one), ('owner', two)]), ('formula', False, 's', [], 'Stock', [('q', one)])],
        # ... the goal leaves its argument free
        [('formula', True, 'r', [], 'Reserved', [('q', one), ('owner', two)]), ('formula', False, 's', [], 'Stock', [])],
        # goal of the sub-predicate, fact of the super-predicate
        [('formula', True, 's', [], 'Stock', [('q', one)]), ('formula', False, 'r', [], 'Reserved', [('q', one), ('owner', two)])],
        [('formula', True, 's', [], 'Stock', [('q', one)]), ('formula', False, 'r', [], 'Reserved', [('q', one)])],
        # three levels
        [('formula', True, 't', [], 'Pinned', [('q', one), ('owner', two), ('pin', one)]), ('formula', False, 's', [], 'Stock', [('q', one)]),
         ('formula', False, 'r', [], 'Reserved', [('q', one), ('owner', two)])],
        # a legitimate unification next to the illegitimate candidate
        [('formula', True, 'r', [], 'Reserved', [('q', one), ('owner', two)]), ('formula', True, 's0', [], 'Stock', [('q', one)]),
         ('formula', False, 's', [], 'Stock', [('q', one)]), ('formula', False, 's2', [], 'Stock', [('q', two)])],
        # two goals of the super-predicate and two atoms of sub-predicates
        [('formula', False, 'r', [], 'Reserved', [('q', two), ('owner', one)]), ('formula', True, 't', [], 'Pinned', [('q', one), ('owner', one), ('pin', two)]),
         ('formula', False, 's', [], 'Stock', [('q', one)]), ('formula', False, 's2', [], 'Stock', [('q', two)])],
    ]
    for m in mains:
        prog = {'classes': [], 'preds': preds, 'main': m}
        out.append((prog, A.pp_program(prog)))
    # the same hierarchy inside a class (the scope tau takes part in the comparison)
    O, S, R, T = base('HK', 'HK:')
    cls = {'name': 'HK', 'kind': 'class', 'supers': [], 'fields': [], 'ctors': []}
    for m in ([('new', 'HK', 'k0', []), ('formula', True, 'r', ['k0'], 'HK:Reserved', [('q', one), ('owner', two)]), ('formula', False, 's', ['k0'], 'HK:Stock', [('q', one)])],
              [('new', 'HK', 'k0', []), ('new', 'HK', 'k1', []), ('formula', False, 'r', ['k0'], 'HK:Reserved', [('q', one), ('owner', two)]),
               ('local', ('ref', 'HK'), 'kv', None), ('formula', False, 's', ['kv'], 'HK:Stock', [('q', one)])]):
        prog = {'classes': [cls], 'preds': [O, S, R, T], 'main': m}
        out.append((prog, A.pp_program(prog)))
    return out


def directed_chain():
    """C06, predicate chains of depth >= 2 whose intermediate predicate has an empty body and is the only path to Interval / Impulse,
    with goals (direct and as subgoals) and facts, plain and inside an Agent class; the requested values violate the temporal rule
    unless it is applied: the problem is unsolvable or the atom comes out well-formed."""
    out = []
    R = lambda v: num(v, False)
    P = {'name': 'CP', 'owner': None, 'params': [], 'supers': ['Interval'], 'body': []}
    Q = {'name': 'CQ', 'owner': None, 'params': [('k', 'real')], 'supers': ['CP'], 'body': [('expr', ('ge', var('k'), R(0)))]}
    Q2 = {'name': 'CQ2', 'owner': None, 'params': [], 'supers': ['CQ'], 'body': []}
    W = {'name': 'CW', 'owner': None, 'params': [], 'supers': [], 'body': [('formula', False, 'q', [], 'CQ', [('start', R(5)), ('end', R(3))])]}
    W2 = {'name': 'CW2', 'owner': None, 'params': [], 'supers': ['Interval'],
          'body': [('formula', False, 'q', [], 'CQ', [('end', var('start'))]), ('expr', ('ge', var('q', 'start'), R(2)))]}
    W3 = {'name': 'CW3', 'owner': None, 'params': [], 'supers': [], 'body': [('formula', False, 'q', [], 'CQ2', []), ('expr', ('eq', var('q', 'start'), R(7)))]}
    MP = {'name': 'CM', 'owner': None, 'params': [], 'supers': ['Impulse'], 'body': []}
    MQ = {'name': 'CMQ', 'owner': None, 'params': [('k', 'real')], 'supers': ['CM'], 'body': []}
    preds = [P, Q, Q2, W, W2, W3, MP, MQ]
    g = lambda *path: var('g', *path)
    mains = []
    for isfact in (False, True):
        for pred in ('CQ', 'CQ2'):
            mains += [
                [('formula', isfact, 'g', [], pred, [('start', R(5)), ('end', R(3))])],
                [('formula', isfact, 'g', [], pred, []), ('expr', ('eq', g('start'), R(7)))],
                [('formula', isfact, 'g', [], pred, []), ('expr', ('le', g('end'), ('sub', [g('start'), R(1)])))],
                [('formula', isfact, 'g', [], pred, []), ('expr', ('le', g('duration'), ('neg', R(1))))],
                [('formula', isfact, 'g', [], pred, []), ('expr', ('ge', g('end'), ('add', [var('horizon'), R(1)])))],
                [('formula', isfact, 'g', [], pred, [('start', R(4))]), ('expr', ('ge', g('duration'), ('add', [('sub', [g('end'), g('start')]), R(1)])))],
            ]
        mains += [
            [('formula', isfact, 'g', [], 'CMQ', [('at', R(9))]), ('expr', ('le', var('horizon'), R(5)))],
            [('formula', isfact, 'g', [], 'CMQ', []), ('expr', ('eq', g('at'), R(9)))],
            [('formula', isfact, 'g', [], 'CMQ', []), ('expr', ('le', g('at'), ('sub', [var('origin'), R(1)])))],
        ]
    mains += [[('formula', False, 'w', [], 'CW', [])], [('formula', False, 'w', [], 'CW2', [])], [('formula', False, 'w', [], 'CW3', [])],
              [('formula', False, 'w', [], 'CW2', []), ('expr', ('le', var('w', 'start'), R(1)))]]
    for m in mains:
        prog = {'classes': [], 'preds': preds, 'main': m}
        out.append((prog, A.pp_program(prog)))
    # inside an Agent class: Snap : Act : Impulse,  Job : Shift : Interval
    ag = {'name': 'CAg', 'kind': 'class', 'supers': ['Agent'], 'fields': [], 'ctors': []}
    act = {'name': 'CAg:Act', 'owner': 'CAg', 'params': [], 'supers': ['Impulse'], 'body': []}
    snap = {'name': 'CAg:Snap', 'owner': 'CAg', 'params': [('k', 'real')], 'supers': ['CAg:Act'], 'body': [('expr', ('ge', var('k'), R(0)))]}
    shift = {'name': 'CAg:Shift', 'owner': 'CAg', 'params': [], 'supers': ['Interval'], 'body': []}
    job = {'name': 'CAg:Job', 'owner': 'CAg', 'params': [], 'supers': ['CAg:Shift'],
           'body': [('formula', False, 'sn', [], 'CAg:Snap', [('at', var('start'))])]}
    apreds = [act, snap, shift, job]
    amains = []
    for isfact in (False, True):
        amains += [
            [('formula', isfact, 'g', ['a'], 'CAg:Snap', [('at', R(9))]), ('expr', ('le', var('horizon'), R(5)))],
            [('formula', isfact, 'g', ['a'], 'CAg:Snap', []), ('expr', ('eq', g('at'), R(9)))],
            [('formula', isfact, 'g', ['a'], 'CAg:Snap', []), ('expr', ('ge', g('at'), ('add', [var('horizon'), R(1)])))],
            [('formula', isfact, 'g', ['a'], 'CAg:Job', [('start', R(5)), ('end', R(3))])],
            [('formula', isfact, 'g', ['a'], 'CAg:Job', []), ('expr', ('eq', g('start'), R(6)))],
            [('formula', isfact, 'g', ['a'], 'CAg:Job', []), ('expr', ('le', g('end'), ('sub', [g('start'), R(1)])))],
        ]
    for m in amains:
        prog = {'classes': [ag], 'preds': apreds, 'main': [('new', 'CAg', 'a', [])] + m}
        out.append((prog, A.pp_program(prog)))
    return out


def directed_narrowing():
    """C17, an object VARIABLE declared with a strict supertype of a parameter's type is handed in as argument: after the formula the
    variable ranges over the instances of the parameter's type and of its subtypes only (Item <- Crate <- FragileCrate, Item <- Pallet;
    predicate Grasp(Crate c))."""
    out = []
    cls = [{'name': 'Item', 'kind': 'class', 'supers': [], 'fields': [('w', 'real', None)], 'ctors': []},
           {'name': 'Crate', 'kind': 'class', 'supers': ['Item'], 'fields': [], 'ctors': []},
           {'name': 'FragileCrate', 'kind': 'class', 'supers': ['Crate'], 'fields': [], 'ctors': []},
           {'name': 'Pallet', 'kind': 'class', 'supers': ['Item'], 'fields': [], 'ctors': []},
           {'name': 'Arm', 'kind': 'class', 'supers': [], 'fields': [], 'ctors': []}]
    grasp = {'name': 'Grasp', 'owner': None, 'params': [('c', ('ref', 'Crate'))], 'supers': [], 'body': []}
    use = {'name': 'Use', 'owner': None, 'params': [('it', ('ref', 'Item'))], 'supers': [], 'body': [('formula', False, 'gr', [], 'Grasp', [('c', var('it'))])]}
    lift = {'name': 'Arm:Lift', 'owner': 'Arm', 'params': [('f', ('ref', 'FragileCrate'))], 'supers': [], 'body': []}
    carry = {'name': 'Arm:Carry', 'owner': 'Arm', 'params': [('c', ('ref', 'Crate'))], 'supers': [],
             'body': [('formula', False, 'l', [], 'Arm:Lift', [('f', var('c'))])]}
    preds = [grasp, use, lift, carry]
    inst = [('new', 'Item', 'i0', []), ('new', 'Crate', 'c0', []), ('new', 'FragileCrate', 'f0', []), ('new', 'Pallet', 'p0', []), ('new', 'Arm', 'arm', [])]
    X = ('local', ('ref', 'Item'), 'x', None)
    for isfact in (True, False):
        G = ('formula', isfact, 'g', [], 'Grasp', [('c', var('x'))])
        for extra in ([], [('expr', ('eq', var('x'), var('f0')))], [('expr', ('eq', var('x'), var('i0')))], [('expr', ('eq', var('x'), var('p0')))],
                      [('expr', ('ne', var('x'), var('c0')))], [('expr', ('ne', var('x'), var('f0')))],
                      [('expr', ('ne', var('x'), var('c0'))), ('expr', ('ne', var('x'), var('f0')))]):
            prog = {'classes': cls, 'preds': preds, 'main': inst + [X, G] + extra}
            out.append((prog, A.pp_program(prog)))
        # the constraint on the variable comes BEFORE the formula
        prog = {'classes': cls, 'preds': preds, 'main': inst + [X, ('expr', ('ne', var('x'), var('c0'))), G]}
        out.append((prog, A.pp_program(prog)))
        # more instances created after the variable do not enter its domain
        prog = {'classes': cls, 'preds': preds, 'main': inst + [X, ('new', 'Crate', 'c1', []), G, ('expr', ('ne', var('x'), var('f0')))]}
        out.append((prog, A.pp_program(prog)))
    # through a rule: the parameter of Use is an Item (variable or existential), narrowed by the subgoal under the rule's guard
    for m in ([X, ('formula', False, 'u', [], 'Use', [('it', var('x'))])],
              [('formula', False, 'u', [], 'Use', [])],
              [X, ('formula', False, 'u', [], 'Use', [('it', var('x'))]), ('expr', ('ne', var('x'), var('c0')))],
              [X, ('formula', False, 'u', [], 'Use', [('it', var('x'))]), ('expr', ('eq', var('x'), var('p0')))],
              # two narrowings in a row: Item -> Crate (Carry) -> FragileCrate (Lift, in the rule)
              [X, ('formula', False, 'cy', ['arm'], 'Arm:Carry', [('c', var('x'))])],
              [('local', ('ref', 'Crate'), 'y', None), ('formula', False, 'cy', ['arm'], 'Arm:Carry', [('c', var('y'))])],
              [X, ('formula', True, 'cy', ['arm'], 'Arm:Carry', [('c', var('x'))])]):
        prog = {'classes': cls, 'preds': preds, 'main': inst + m}
        out.append((prog, A.pp_program(prog)))
    return out


def directed_both():
    """C06: FACTS of a plain predicate (global scope or a class that is no smart type) that reaches BOTH Impulse and Interval through
    its super-predicates, in either order and through empty intermediate predicates, with explicit start / end / at / duration values
    away from the all-zero default. Such a fact gets both rules (solver::new_atom): every active one satisfies the Interval conditions
    and the Impulse condition, or the problem is unsolvable."""
    out = []
    R = lambda v: num(v, False)
    S1 = {'name': 'Sample', 'owner': None, 'params': [('value', 'real')], 'supers': ['Impulse', 'Interval'], 'body': []}
    S2 = {'name': 'Sample2', 'owner': None, 'params': [('value', 'real')], 'supers': ['Interval', 'Impulse'], 'body': []}
    MI = {'name': 'BMI', 'owner': None, 'params': [], 'supers': ['Impulse'], 'body': []}
    MV = {'name': 'BMV', 'owner': None, 'params': [], 'supers': ['Interval'], 'body': []}
    S3 = {'name': 'Sample3', 'owner': None, 'params': [('value', 'real')], 'supers': ['BMI', 'BMV'], 'body': []}
    S4 = {'name': 'Sample4', 'owner': None, 'params': [], 'supers': ['BMV', 'Sample'], 'body': [('expr', ('ge', var('value'), R(0)))]}
    probe = {'name': 'Probe', 'kind': 'class', 'supers': [], 'fields': [], 'ctors': []}
    PR = {'name': 'Probe:Read', 'owner': 'Probe', 'params': [('value', 'real')], 'supers': ['Impulse', 'Interval'], 'body': []}
    preds = [S1, S2, MI, MV, S3, S4]
    f = lambda *path: var('f', *path)
    argsets = [
        [('start', R(5)), ('end', R(20)), ('at', R(7))],                 # solvable
        [('start', R(10)), ('end', R(5))],                               # unsolvable
        [('at', R(4))],                                                  # with horizon <= 3: unsolvable
        [('start', R(2)), ('end', R(6)), ('duration', R(1))],            # unsolvable
        [('start', R(5)), ('end', R(20))],                               # solvable, at free
        [('at', R(9))],                                                  # solvable, the interval part free
        [('start', R(3)), ('duration', R(4)), ('at', R(30))],            # solvable: end = 7, horizon >= 30
    ]
    for pi, pred in enumerate(('Sample', 'Sample2', 'Sample3', 'Sample4')):
        for ai, args in enumerate(argsets):
            if (pi + ai) % 2 and pi >= 2 and ai >= 4:
                continue
            main = [('formula', True, 'f', [], pred, args)]
            if ai == 2:
                main.append(('expr', ('le', var('horizon'), R(3))))
            if ai == 5:
                main.append(('expr', ('ge', f('start'), R(12))))          # the Interval rule then needs end >= 12, horizon >= 12
            prog = {'classes': [], 'preds': preds, 'main': main}
            out.append((prog, A.pp_program(prog)))
    # the same fact next to a goal of the same predicate (the goal gets both rules through apply_rule)
    prog = {'classes': [], 'preds': preds, 'main': [('formula', True, 'f', [], 'Sample', [('start', R(5)), ('end', R(20)), ('at', R(7))]),
                                                    ('formula', False, 'g', [], 'Sample', [('start', R(30))])]}
    out.append((prog, A.pp_program(prog)))
    # inside a class that is no smart type
    for ai, args in enumerate(argsets[:5]):
        main = [('new', 'Probe', 'pb', []), ('formula', True, 'f', ['pb'], 'Probe:Read', args)]
        if ai == 2:
            main.append(('expr', ('le', var('horizon'), R(3))))
        prog = {'classes': [probe], 'preds': [PR], 'main': main}
        out.append((prog, A.pp_program(prog)))
    return out


def directed_enums():
    """C17: enum inclusion chains of depth >= 2 (and a diamond of inclusions): variables, unassigned parameters and default fields of
    the OUTERMOST enum range over the declared values and the values of every transitively included enum; solvable problems that need
    the innermost values and pigeonhole problems that must stay unsolvable."""
    out = []

    def en(name, vals, incl):
        return {'name': name, 'kind': 'enum', 'vals': vals, 'incl': incl, 'supers': [], 'fields': [], 'ctors': []}
    metal, solid, material = en('Metal', ['iron', 'copper'], []), en('Solid', ['wood'], ['Metal']), en('Material', ['water'], ['Solid'])
    stuff = en('Stuff', ['plasma'], ['Material'])                       # depth 3: 5 values
    da, db, dc, dd = en('DA', ['a1', 'a2'], []), en('DB', ['b1'], ['DA']), en('DC', ['c1'], ['DA']), en('DD', ['d1'], ['DB', 'DC'])   # diamond: 5 distinct
    chain = [metal, solid, material, stuff]
    made = {'name': 'Made', 'owner': None, 'params': [('of', ('ref', 'Material'))], 'supers': [], 'body': []}
    made2 = {'name': 'Made2', 'owner': None, 'params': [('of', ('ref', 'Stuff'))], 'supers': [], 'body': [('formula', False, 'sub', [], 'Made', [])]}
    box = {'name': 'Box', 'kind': 'class', 'supers': [], 'fields': [('mat', ('ref', 'Material'), None), ('st', ('ref', 'Stuff'), None)], 'ctors': []}

    def decl(t, names):
        return [('local', ('ref', t), n, None) for n in names]

    def alldiff(names):
        return [('expr', ('ne', var(a), var(b))) for i, a in enumerate(names) for b in names[i + 1:]]
    E = lambda a, b: ('expr', ('eq', a, b))
    N = lambda a, b: ('expr', ('ne', a, b))
    mains = [
        # a variable of the outermost enum must take a value of the innermost one
        (chain, [], decl('Material', ['m']) + decl('Metal', ['k']) + [E(var('m'), var('k'))]),
        (chain, [], decl('Metal', ['k']) + decl('Material', ['m']) + [E(var('k'), var('m'))]),
        (chain, [], decl('Stuff', ['s']) + decl('Metal', ['k']) + [E(var('s'), var('k'))]),
        (chain, [], decl('Stuff', ['s']) + decl('Solid', ['o']) + decl('Metal', ['k']) + [E(var('s'), var('o')), E(var('o'), var('k'))]),
        # as many pairwise different variables as the enum has values in total: solvable only with the deep values
        (chain, [], decl('Material', ['m0', 'm1', 'm2', 'm3']) + alldiff(['m0', 'm1', 'm2', 'm3'])),
        (chain, [], decl('Stuff', ['s0', 's1', 's2', 's3', 's4']) + alldiff(['s0', 's1', 's2', 's3', 's4'])),
        (chain, [], decl('Solid', ['o0', 'o1', 'o2']) + alldiff(['o0', 'o1', 'o2'])),
        # one more: pigeonhole, must stay unsolvable
        (chain, [], decl('Material', ['m0', 'm1', 'm2', 'm3', 'm4']) + alldiff(['m0', 'm1', 'm2', 'm3', 'm4'])),
        (chain, [], decl('Solid', ['o0', 'o1', 'o2', 'o3']) + alldiff(['o0', 'o1', 'o2', 'o3'])),
        (chain, [], decl('Stuff', ['s0', 's1', 's2', 's3', 's4', 's5']) + alldiff(['s0', 's1', 's2', 's3', 's4', 's5'])),
        # three Material variables different from both Metal values and from each other: only water and wood are left -> unsolvable
        (chain, [], decl('Metal', ['k0', 'k1']) + [N(var('k0'), var('k1'))] + decl('Material', ['m0', 'm1', 'm2']) + alldiff(['m0', 'm1', 'm2'])
         + [N(var(m), var(k)) for m in ('m0', 'm1', 'm2') for k in ('k0', 'k1')]),
        # ... two are fine
        (chain, [], decl('Metal', ['k0', 'k1']) + [N(var('k0'), var('k1'))] + decl('Material', ['m0', 'm1']) + alldiff(['m0', 'm1'])
         + [N(var(m), var(k)) for m in ('m0', 'm1') for k in ('k0', 'k1')]),
        # unassigned parameters of the outermost type
        (chain, [made, made2], [('formula', False, 'g', [], 'Made', [])] + decl('Metal', ['k']) + [E(var('g', 'of'), var('k'))]),
        (chain, [made, made2], [('formula', True, 'g', [], 'Made', [])] + decl('Metal', ['k']) + [E(var('g', 'of'), var('k'))]),
        (chain, [made, made2], [('formula', False, 'g', [], 'Made2', [])] + decl('Metal', ['k']) + [E(var('g', 'of'), var('k'))]),
        (chain, [made, made2], [('formula', False, 'g%d' % i, [], 'Made', []) for i in range(4)] + alldiff(['g%d.of' % i for i in range(0)])
         + [('expr', ('ne', var('g%d' % i, 'of'), var('g%d' % j, 'of'))) for i in range(4) for j in range(i + 1, 4)]),
        # default fields of the outermost type
        (chain + [box], [], [('new', 'Box', 'bx', [])] + decl('Metal', ['k']) + [E(var('bx', 'mat'), var('k'))]),
        (chain + [box], [], [('new', 'Box', 'bx', [])] + decl('Metal', ['k']) + [E(var('bx', 'st'), var('k')), N(var('bx', 'mat'), var('bx', 'st'))]),
        (chain + [box], [], [('new', 'Box', 'b%d' % i, []) for i in range(4)]
         + [('expr', ('ne', var('b%d' % i, 'mat'), var('b%d' % j, 'mat'))) for i in range(4) for j in range(i + 1, 4)]),
        # a diamond of inclusions: DD = {d1} + DB{b1} + DC{c1} + DA{a1, a2} (DA reached twice)
        ([da, db, dc, dd], [], decl('DD', ['x']) + decl('DA', ['y']) + [E(var('x'), var('y'))]),
        ([da, db, dc, dd], [], decl('DD', ['x0', 'x1', 'x2', 'x3', 'x4']) + alldiff(['x0', 'x1', 'x2', 'x3', 'x4'])),
        ([da, db, dc, dd], [], decl('DD', ['x0', 'x1', 'x2', 'x3', 'x4', 'x5']) + alldiff(['x0', 'x1', 'x2', 'x3', 'x4', 'x5'])),
        ([da, db, dc, dd], [], decl('DB', ['u']) + decl('DC', ['v']) + [E(var('u'), var('v'))]),
    ]
    # problems that do NOT need the deep values (they stay solvable whatever the domain is): here only the check of the initial
    # domain (declared + transitively included values) can notice a missing value
    mains += [
        (chain, [], decl('Material', ['m'])),
        (chain, [], decl('Stuff', ['s']) + decl('Material', ['m']) + [N(var('s'), var('m'))]),
        (chain, [], decl('Stuff', ['s0', 's1']) + alldiff(['s0', 's1'])),
        (chain, [made, made2], [('formula', False, 'g', [], 'Made', [])]),
        (chain, [made, made2], [('formula', True, 'g', [], 'Made2', [])]),
        (chain + [box], [], [('new', 'Box', 'bx', [])]),
        (chain + [box], [], [('new', 'Box', 'bx', []), ('new', 'Box', 'by', []), N(var('bx', 'st'), var('by', 'st'))]),
        ([da, db, dc, dd], [], decl('DD', ['x'])),
        ([da, db, dc, dd], [], decl('DD', ['x']) + decl('DB', ['u']) + [N(var('x'), var('u'))]),
    ]
    for classes, preds, main in mains:
        prog = {'classes': classes, 'preds': preds, 'main': main}
        out.append((prog, A.pp_program(prog)))
    return out


def directed_rings():
    """C03: mutually supporting predicate rings. A_i(x)'s rule opens a goal A_{i+1}(x) with the same argument (ring length 2-4, one to
    three rings) and a goal of every member stands at top level, so that the cheap way to close the open goals is to unify them with
    each other around the ring: each goal justified only by unification with a goal that is its own causal descendant (a cycle closed
    by two or more CROSS-unifications). solver::new_causal_link forbids it through the positions of the flaws. Variants:
      alt+inc  the first rule has a second, more expensive disjunct (a chain of plain goals) and there is a fact whose argument a
               constraint makes incompatible only during the search: the planner has finite estimates for the ring, and the only
               legitimate plan is the expensive disjunct (solved acyclically in milliseconds on a correct planner)
      legal    a compatible fact / the expensive disjunct offers a legal alternative
      pure     only goals (or only the incompatible fact): no finite plan exists, a correct planner extends the graph for ever -
               these few problems get a short time limit and may only end as "timeout" or "unsolvable"
    A reported solution is judged by the verified checker: a cyclic support graph is a concrete violation with the problem as replay.
    Returns (program, text, time limit in seconds)."""
    out = []
    R = lambda v: num(v, False)

    def ring(prefix, n, alt_len=0):
        preds = []
        for i in range(n):
            nxt = '%s%d' % (prefix, (i + 1) % n)
            sub = ('formula', False, 'nx', [], nxt, [('x', var('x'))])
            body = [sub]
            if alt_len and i == 0:
                body = [('disj', prefix + 'dj', [[sub], [('formula', False, 'alt', [], prefix + 'Alt0', [('x', var('x'))])]])]
            preds.append({'name': '%s%d' % (prefix, i), 'owner': None, 'params': [('x', 'real')], 'supers': [], 'body': body})
        for j in range(alt_len):
            preds.append({'name': '%sAlt%d' % (prefix, j), 'owner': None, 'params': [('x', 'real')], 'supers': [],
                          'body': [('formula', False, 'a', [], '%sAlt%d' % (prefix, j + 1), [('x', var('x'))])] if j < alt_len - 1 else []})
        return preds

    def goals(prefix, n, arg):
        return [('formula', False, 'g%s%d' % (prefix, i), [], '%s%d' % (prefix, i), ([('x', arg)] if arg is not None else [])) for i in range(n)]

    def incompatible(prefix, member, other):
        xf = 'xf' + prefix
        return [('local', 'real', xf, None), ('formula', True, 'f' + prefix, [], '%s%d' % (prefix, member), [('x', var(xf))]),
                ('expr', ('ne', var(xf), var(other, 'x')))]
    cases = []
    k = 0
    for n in (2, 3, 4):
        for arg in (R(1), None):
            for alt_len in (1, 3):
                k += 1
                # alt+inc, the incompatible fact on a varying member of the ring
                cases.append((ring('A', n, alt_len), goals('A', n, arg) + incompatible('A', k % n, 'gA0'), 5.0))
            # legal alternatives
            cases.append((ring('A', n), goals('A', n, arg) + [('formula', True, 'f', [], 'A1', ([('x', arg)] if arg is not None else []))], 5.0))
            cases.append((ring('A', n, 3), goals('A', n, arg), 5.0))
            cases.append((ring('A', n), goals('A', n, arg) + incompatible('A', 1, 'gA0') + [('formula', True, 'f0', [], 'A0', ([('x', arg)] if arg is not None else []))], 5.0))
    # two and three rings at once (different arguments), each with its expensive disjunct and its incompatible fact
    for nr in (2, 3):
        preds, main = [], []
        for j in range(nr):
            pre = 'ABC'[j]
            n = 2 + (j % 2)
            preds += ring(pre, n, 2)
            main += goals(pre, n, R(j + 1)) + incompatible(pre, 1, 'g%s0' % pre)
        cases.append((preds, main, 5.0))
    # the members of the ring share one argument variable
    cases.append((ring('A', 2, 2), [('local', 'real', 'v', None)] + goals('A', 2, var('v')) + incompatible('A', 0, 'gA1'), 5.0))
    cases.append((ring('A', 3, 1), [('local', 'real', 'v', None)] + goals('A', 3, var('v')) + incompatible('A', 2, 'gA0'), 5.0))
    # pure rings: no finite plan
    cases.append((ring('A', 2), goals('A', 2, R(1)), 0.6))
    cases.append((ring('A', 3), goals('A', 3, None), 0.6))
    cases.append((ring('A', 2), goals('A', 2, R(1)) + incompatible('A', 1, 'gA0'), 0.6))
    cases.append((ring('A', 4), goals('A', 4, R(1))[:2], 0.6))
    for preds, main, tmo in cases:
        prog = {'classes': [], 'preds': preds, 'main': main}
        out.append((prog, A.pp_program(prog), tmo))
    return out


def directed_varfields():
    """C01 / C17: a field read through an object variable with >= 2 candidate instances (`o.w`: var_item::get -> core::new_enum) where
    the field is a genuine VARIABLE of the candidates (`real w;` / `int n;` without initialiser, only bounded by constraints in the
    constructor or at top level: same bound in all instances, different bounds, one constant and the others variable); 2-4 instances;
    the object variable is a declared existential, an unassigned predicate parameter or a goal argument; constraints on `o.w` of every
    comparison kind against constants and against other reads `p.w`, combined with constraints on `inst_k.w` so that only some choices
    of o are consistent, and UNSAT-by-construction twins (no instance can meet what `o.w` demands). `o.w` means the w of the instance
    o takes in the solution. Returns (program, text, expected) with expected in 'sat' / 'unsat'."""
    out = []
    R = lambda v: num(v, False)
    I = lambda v: num(v, True)
    # W: a bare real member; WB(lo): member bounded from below in the constructor; WN: int member and real member with a common bound
    W = {'name': 'W', 'kind': 'class', 'supers': [], 'fields': [('w', 'real', None)], 'ctors': []}
    WB = {'name': 'WB', 'kind': 'class', 'supers': [], 'fields': [('w', 'real', None)],
          'ctors': [{'params': [('lo', 'real')], 'supers': [], 'inits': [], 'body': [('expr', ('ge', var('w'), var('lo')))]}]}
    WN = {'name': 'WN', 'kind': 'class', 'supers': [], 'fields': [('n', 'int', None), ('w', 'real', None)],
          'ctors': [{'params': [], 'supers': [], 'inits': [], 'body': [('expr', ('ge', var('w'), R(1))), ('expr', ('ge', var('n'), I(0))), ('expr', ('le', var('n'), I(20)))]}]}
    use = {'name': 'Use', 'owner': None, 'params': [('o', ('ref', 'W'))], 'supers': [], 'body': [('expr', ('ge', var('o', 'w'), R(6)))]}
    use2 = {'name': 'Use2', 'owner': None, 'params': [('o', ('ref', 'W')), ('lim', 'real')], 'supers': [],
            'body': [('expr', ('lt', var('o', 'w'), var('lim'))), ('formula', False, 'u', [], 'Use3', [('p', var('o'))])]}
    use3 = {'name': 'Use3', 'owner': None, 'params': [('p', ('ref', 'W'))], 'supers': [], 'body': [('expr', ('ne', var('p', 'w'), R(2)))]}

    def box(name, lo, hi):
        st = []
        if lo is not None:
            st.append(('expr', ('ge', var(name, 'w'), R(lo))))
        if hi is not None:
            st.append(('expr', ('le', var(name, 'w'), R(hi))))
        return st
    cases = []
    # --- bare members, boxes at top level: i0 in [0,2], i1 in [4,6], i2 in [8,10], (i3 == 12 constant) -------------------------------
    for ninst in (2, 3, 4):
        inst = [('new', 'W', 'i%d' % k, []) for k in range(ninst)]
        boxes = []
        for k in range(ninst):
            boxes += [('expr', ('eq', var('i3', 'w'), R(12)))] if k == 3 else box('i%d' % k, 4 * k, 4 * k + 2)
        O = [('local', ('ref', 'W'), 'o', None)]
        top = 4 * (ninst - 1) + 2 if ninst < 4 else 12
        demands = [
            (('ge', var('o', 'w'), R(top - 1)), 'sat'), (('gt', var('o', 'w'), R(top)), 'unsat'),
            (('le', var('o', 'w'), R(1)), 'sat'), (('lt', var('o', 'w'), R(0)), 'unsat'),
            (('eq', var('o', 'w'), R(5)), 'sat'), (('eq', var('o', 'w'), R(3)), 'unsat'),
            (('ne', var('o', 'w'), var('i0', 'w')), 'sat'),
            (('gt', var('o', 'w'), ('add', [var('i0', 'w'), R(1)])), 'sat'),
            (('lt', var('o', 'w'), ('sub', [var('i0', 'w'), R(3)])), 'unsat'),
        ]
        for j, (d, exp) in enumerate(demands):
            order = (j + ninst) % 3
            # the boxes before / after the variable and its constraint
            main = inst + (boxes + O + [('expr', d)] if order == 0 else O + [('expr', d)] + boxes if order == 1 else O + boxes + [('expr', d)])
            cases.append(([W], [], main, exp))
        # the demand is met by exactly one instance, which is then excluded (unsatisfiable), or another one is excluded (satisfiable):
        # a read that does not follow the choice (a constant, a fresh unlinked variable) lets the planner pick a wrong instance
        last = ninst - 1
        uniq = [(('le', var('o', 'w'), R(1)), 0), (('ge', var('o', 'w'), R(top - 1)), last), (('eq', var('o', 'w'), R(5)), 1),
                (('lt', var('o', 'w'), R(3)), 0), (('gt', var('o', 'w'), R(4 * last - 1)), last)]
        for j, (d, only) in enumerate(uniq):
            other = (only + 1) % ninst
            pre = inst + boxes + O if j % 2 else inst + O + boxes
            cases.append(([W], [], pre + [('expr', d), ('expr', ('ne', var('o'), var('i%d' % only)))], 'unsat'))
            cases.append(([W], [], pre + [('expr', ('ne', var('o'), var('i%d' % other))), ('expr', d)], 'sat'))
        # two variables compared through their fields
        cases.append(([W], [], inst + boxes + O + [('local', ('ref', 'W'), 'p', None), ('expr', ('gt', var('o', 'w'), ('add', [var('p', 'w'), R(3)]))),
                                                   ('expr', ('ge', var('p', 'w'), R(3)))], 'sat' if ninst >= 3 else 'unsat'))
        cases.append(([W], [], inst + O + [('local', ('ref', 'W'), 'p', None), ('expr', ('eq', var('o', 'w'), var('p', 'w'))), ('expr', ('ne', var('o'), var('p')))] + boxes, 'unsat'))
        cases.append(([W], [], inst + O + [('local', ('ref', 'W'), 'p', None), ('expr', ('lt', var('o', 'w'), var('p', 'w'))), ('expr', ('ne', var('p'), var('i%d' % (ninst - 1))))] + boxes,
                      'sat' if ninst >= 3 else 'unsat'))
        # the demand fixes the choice, a direct constraint on that instance then contradicts / agrees
        cases.append(([W], [], inst + boxes + O + [('expr', ('ge', var('o', 'w'), R(4))), ('expr', ('le', var('o', 'w'), R(6))), ('expr', ('eq', var('i1', 'w'), R(5))), ('expr', ('ne', var('o', 'w'), R(5)))], 'unsat'))
        cases.append(([W], [], inst + boxes + O + [('expr', ('ge', var('o', 'w'), R(4))), ('expr', ('le', var('o', 'w'), R(6))), ('expr', ('eq', ('mul', [var('o', 'w'), I(2)]), R(9)))], 'sat'))
    # --- unbounded members: only the demand and one direct constraint --------------------------------------------------------------
    inst = [('new', 'W', 'i0', []), ('new', 'W', 'i1', []), ('new', 'W', 'i2', [])]
    O = [('local', ('ref', 'W'), 'o', None)]
    cases.append(([W], [], inst + O + [('expr', ('ge', var('o', 'w'), R(7))), ('expr', ('le', var('i0', 'w'), R(1))), ('expr', ('le', var('i1', 'w'), R(1)))], 'sat'))
    cases.append(([W], [], inst + O + [('expr', ('ge', var('o', 'w'), R(7)))] + [('expr', ('le', var('i%d' % k, 'w'), R(1))) for k in range(3)], 'unsat'))
    cases.append(([W], [], inst + O + [('expr', ('eq', var('o', 'w'), ('add', [var('i0', 'w'), R(1)]))), ('expr', ('eq', var('i1', 'w'), var('i0', 'w'))), ('expr', ('eq', var('i2', 'w'), var('i0', 'w')))], 'unsat'))
    cases.append(([W], [], inst + O + [('expr', ('eq', var('o', 'w'), ('add', [var('i0', 'w'), R(1)]))), ('expr', ('eq', var('i1', 'w'), var('i0', 'w')))], 'sat'))
    # --- bounds posted by the constructor: same bound / different bounds ---------------------------------------------------------------
    for los, tag in (((1, 1, 1), 'same'), ((1, 5, 9), 'diff')):
        inst = [('new', 'WB', 'b%d' % k, [R(lo)]) for k, lo in enumerate(los)]
        O = [('local', ('ref', 'WB'), 'o', None)]
        caps = [('expr', ('le', var('b%d' % k, 'w'), R(lo + 2))) for k, lo in enumerate(los)]
        cases.append(([WB], [], inst + O + [('expr', ('le', var('o', 'w'), R(0)))], 'unsat'))
        cases.append(([WB], [], inst + O + [('expr', ('le', var('o', 'w'), R(2)))] + caps, 'sat'))
        cases.append(([WB], [], inst + caps + O + [('expr', ('gt', var('o', 'w'), R(los[2] + 2)))], 'unsat'))
        cases.append(([WB], [], inst + caps + O + [('expr', ('ge', var('o', 'w'), R(los[2] + 1)))], 'sat'))
        cases.append(([WB], [], inst + O + [('expr', ('eq', var('o', 'w'), R(los[1] + 1)))] + caps + [('expr', ('ne', var('o'), var('b1')))], 'sat' if tag == 'same' else 'unsat'))
    # --- int member -----------------------------------------------------------------------------------------------------------------
    inst = [('new', 'WN', 'n%d' % k, []) for k in range(3)]
    O = [('local', ('ref', 'WN'), 'o', None)]
    pins = [('expr', ('eq', var('n0', 'n'), I(3))), ('expr', ('ge', var('n1', 'n'), I(10))), ('expr', ('le', var('n2', 'n'), I(1)))]
    cases.append(([WN], [], inst + pins + O + [('expr', ('ge', var('o', 'n'), I(4))), ('expr', ('le', var('o', 'w'), R(1)))], 'sat'))
    cases.append(([WN], [], inst + O + [('expr', ('eq', var('o', 'n'), I(2)))] + pins, 'unsat'))
    cases.append(([WN], [], inst + O + [('expr', ('eq', ('add', [var('o', 'n'), var('o', 'w')]), R(4))), ('expr', ('ne', var('o'), var('n0'))), ('expr', ('ne', var('o'), var('n2')))] + pins, 'unsat'))
    cases.append(([WN], [], inst + O + [('expr', ('eq', ('add', [var('o', 'n'), var('o', 'w')]), R(4))), ('expr', ('ne', var('o'), var('n0')))] + pins, 'sat'))
    cases.append(([WN], [], inst + pins + O + [('expr', ('lt', var('o', 'w'), R(1)))], 'unsat'))
    # --- the object variable is a predicate parameter / a goal argument -------------------------------------------------------------------
    inst = [('new', 'W', 'i%d' % k, []) for k in range(3)]
    boxes = box('i0', 0, 2) + box('i1', 4, 6) + box('i2', 8, 10)
    preds = [use, use2, use3]
    cases.append(([W], preds, inst + boxes + [('formula', False, 'g', [], 'Use', [])], 'sat'))
    cases.append(([W], preds, inst + [('formula', False, 'g', [], 'Use', [])] + box('i0', 0, 2) + box('i1', 4, 5) + box('i2', 3, 5), 'unsat'))
    cases.append(([W], preds, inst + boxes + [('local', ('ref', 'W'), 'o', None), ('formula', False, 'g', [], 'Use', [('o', var('o'))]), ('expr', ('ne', var('o'), var('i2'))), ('expr', ('ne', var('o'), var('i1')))], 'unsat'))
    cases.append(([W], preds, inst + boxes + [('local', ('ref', 'W'), 'o', None), ('formula', False, 'g', [], 'Use', [('o', var('o'))]), ('expr', ('ne', var('o'), var('i2')))], 'sat'))
    cases.append(([W], preds, inst + boxes + [('formula', False, 'g', [], 'Use2', [('lim', R(5))])], 'sat'))
    cases.append(([W], preds, inst + boxes + [('formula', False, 'g', [], 'Use2', [('lim', R(5))]), ('expr', ('eq', var('i0', 'w'), R(2))), ('expr', ('ne', var('g', 'o'), var('i1')))], 'unsat'))
    cases.append(([W], preds, inst + boxes + [('formula', True, 'g', [], 'Use', []), ('expr', ('le', var('g', 'o', 'w'), R(1)))], 'sat'))
    cases.append(([W], preds, inst + boxes + [('formula', False, 'g', [], 'Use', []), ('expr', ('le', var('g', 'o', 'w'), R(5)))], 'unsat'))
    cases.append(([W], preds, inst + boxes + [('formula', False, 'g', [], 'Use', []), ('expr', ('le', var('g', 'o', 'w'), R(7)))], 'sat'))
    # --- the read happens when the bounds of the members are already known to the arithmetic theory: inside a rule body (executed
    #     during solve()) and in a second read() after a solve() (incremental) ----------------------------------------------------------
    def subst(e, frm, to):
        if e[0] == 'id':
            return ('id', (to + list(e[1][1:])) if e[1][0] == frm else list(e[1]))
        if e[0] in ('bool', 'num', 'str'):
            return e
        if e[0] in ('neg', 'not'):
            return (e[0], subst(e[1], frm, to))
        if e[0] in ('lt', 'le', 'ge', 'gt', 'eq', 'ne', 'imp'):
            return (e[0], subst(e[1], frm, to), subst(e[2], frm, to))
        return (e[0], [subst(x, frm, to) for x in e[1]])
    late = []
    for ninst in (2, 3):
        inst = [('new', 'W', 'i%d' % k, []) for k in range(ninst)]
        boxes = []
        for k in range(ninst):
            boxes += box('i%d' % k, 4 * k, 4 * k + 2)
        last, top = ninst - 1, 4 * (ninst - 1) + 2
        dem = [(('le', var('o', 'w'), R(1)), 0), (('ge', var('o', 'w'), R(top - 1)), last), (('eq', var('o', 'w'), R(5)), 1),
               (('lt', var('o', 'w'), R(3)), 0), (('gt', var('o', 'w'), R(4 * last - 1)), last),
               (('ne', var('o', 'w'), var('i0', 'w')), None), (('ge', var('o', 'w'), ('add', [var('i0', 'w'), R(2)])), None)]
        for j, (d, only) in enumerate(dem):
            variants = [([], 'sat')]
            if only is not None:
                variants += [([('expr', ('ne', var('o'), var('i%d' % only)))], 'unsat'), ([('expr', ('ne', var('o'), var('i%d' % ((only + 1) % ninst))))], 'sat')]
            else:
                variants += [([('expr', ('ne', var('o'), var('i%d' % last)))], 'sat' if ninst == 3 else 'unsat')]
            for extras, exp in variants:
                # rule body: the object variable is the (unassigned) parameter of a goal
                dp = {'name': 'Dem', 'owner': None, 'params': [('o', ('ref', 'W'))], 'supers': [], 'body': [('expr', d)]}
                main = inst + boxes + [('formula', False, 'g', [], 'Dem', [])] + [('expr', subst(x[1], 'o', ['g', 'o'])) for x in extras]
                late.append(([W], [dp], main, None, exp))
                # incremental: instances and boxes, solve(), back to root level (as the executor does), then the variable and the demand
                if (j + ninst) % 2 == 0:
                    p1 = {'classes': [W], 'preds': [], 'main': inst + boxes}
                    m2 = [('local', ('ref', 'W'), 'o', None), ('expr', d)] + extras
                    late.append(([W], [], inst + boxes + m2, [A.pp_program(p1), "-pop", A.pp_program({'classes': [], 'preds': [], 'main': m2})], exp))
    for classes, preds, main, exp in cases:
        prog = {'classes': classes, 'preds': preds, 'main': main}
        out.append((prog, A.pp_program(prog), exp))
    for classes, preds, main, texts, exp in late:
        prog = {'classes': classes, 'preds': preds, 'main': main}
        out.append((prog, texts if texts is not None else A.pp_program(prog), exp))
    return out


def directed_shadowing():
    """C06: user identifiers equal to the names the built-in temporal rules use. The rules of Interval / Impulse mention `origin` and
    `horizon`; a field of the object an atom belongs to, or a parameter of a sub-predicate, with one of these names must not capture the
    reference. Facts and goals whose requested values are fine / violate the GLOBAL origin and horizon. Returns (program, text, expected)."""
    out = []
    R = lambda v: num(v, False)
    H20 = ('expr', ('eq', var('horizon'), R(20)))

    def robot(field, val, smart):
        return {'name': 'Robot', 'kind': 'class', 'supers': ['StateVariable'] if smart else [], 'fields': [(field, 'real', None)],
                'ctors': [{'params': [], 'supers': [], 'inits': [], 'body': [('expr', ('eq', var(field), R(val) if val >= 0 else ('neg', R(-val))))]}]}
    cases = []
    for smart in (True, False):
        at = {'name': 'Robot:At', 'owner': 'Robot', 'params': [('x', 'real')], 'supers': [] if smart else ['Interval'], 'body': []}
        pg = {'name': 'Robot:Ping', 'owner': 'Robot', 'params': [], 'supers': ['Impulse'], 'body': []}
        for isfact in (True, False):
            inst = [('new', 'Robot', 'r', [])]
            # a field named horizon = 100 while the global horizon is 20
            cases.append(([robot('horizon', 100, smart)], [at], inst + [('formula', isfact, 'h', ['r'], 'Robot:At', [('x', R(2)), ('start', R(50))]), H20], 'unsat'))
            cases.append(([robot('horizon', 100, smart)], [at], inst + [('formula', isfact, 'h', ['r'], 'Robot:At', [('x', R(2)), ('start', R(5))]), H20], 'sat'))
            cases.append(([robot('horizon', 5, smart)], [at], inst + [('formula', isfact, 'h', ['r'], 'Robot:At', [('x', R(2)), ('end', R(15))]), H20], 'sat'))
            # a field named origin = 30: the global origin stays 0 .. horizon
            cases.append(([robot('origin', 30, smart)], [at], inst + [('formula', isfact, 'h', ['r'], 'Robot:At', [('x', R(2)), ('start', R(5)), ('end', R(9))]), H20], 'sat'))
            cases.append(([robot('origin', -30, smart)], [at], inst + [('formula', isfact, 'h', ['r'], 'Robot:At', [('x', R(2)), ('start', ('neg', R(5)))]), H20], 'unsat'))
            if not smart:
                cases.append(([robot('horizon', 100, smart)], [at, pg], inst + [('formula', isfact, 'h', ['r'], 'Robot:Ping', [('at', R(50))]), H20], 'unsat'))
                cases.append(([robot('origin', 30, smart)], [at, pg], inst + [('formula', isfact, 'h', ['r'], 'Robot:Ping', [('at', R(5))]), H20], 'sat'))
    # parameters of a (sub-)predicate named like the globals
    mv_h = {'name': 'MoveH', 'owner': None, 'params': [('horizon', 'real')], 'supers': ['Interval'], 'body': []}
    mv_o = {'name': 'MoveO', 'owner': None, 'params': [('origin', 'real')], 'supers': ['Interval'], 'body': []}
    mid = {'name': 'Mid', 'owner': None, 'params': [], 'supers': ['Interval'], 'body': []}
    mv_s = {'name': 'MoveS', 'owner': None, 'params': [('horizon', 'real'), ('origin', 'real')], 'supers': ['Mid'], 'body': [('expr', ('ge', var('horizon'), var('origin')))]}
    tk = {'name': 'Tick', 'owner': None, 'params': [('horizon', 'real')], 'supers': ['Impulse'], 'body': []}
    preds = [mv_h, mv_o, mid, mv_s, tk]
    for isfact in (True, False):
        cases.append(([], preds, [('formula', isfact, 'm', [], 'MoveH', [('horizon', R(100)), ('end', R(50))]), H20], 'unsat'))
        cases.append(([], preds, [('formula', isfact, 'm', [], 'MoveH', [('horizon', R(5)), ('end', R(15))]), H20], 'sat'))
        cases.append(([], preds, [('formula', isfact, 'm', [], 'MoveO', [('origin', R(30)), ('start', R(5))]), H20], 'sat'))
        cases.append(([], preds, [('formula', isfact, 'm', [], 'MoveO', [('origin', ('neg', R(30))), ('start', ('neg', R(5)))]), H20], 'unsat'))
        cases.append(([], preds, [('formula', isfact, 'm', [], 'MoveS', [('horizon', R(100)), ('origin', R(40)), ('start', R(10)), ('end', R(60))]), H20], 'unsat'))
        cases.append(([], preds, [('formula', isfact, 'm', [], 'MoveS', [('horizon', R(100)), ('origin', R(40)), ('start', R(10)), ('end', R(15))]), H20], 'sat'))
        cases.append(([], preds, [('formula', isfact, 'm', [], 'Tick', [('horizon', R(100)), ('at', R(50))]), H20], 'unsat'))
        cases.append(([], preds, [('formula', isfact, 'm', [], 'Tick', [('horizon', R(1)), ('at', R(10))]), H20], 'sat'))
    for classes, preds_, main, exp in cases:
        prog = {'classes': classes, 'preds': preds_, 'main': main}
        out.append((prog, A.pp_program(prog), exp))
    return out


def directed_smart_both():
    """C06: FACTS on smart types whose predicate reaches both temporal rules (Agent: `Both() : Impulse, Interval`; StateVariable: a
    predicate that is also an Impulse; ReusableResource: a predicate extending Use and Impulse), with values that violate one of them."""
    out = []
    R = lambda v: num(v, False)
    ag = {'name': 'BAg', 'kind': 'class', 'supers': ['Agent'], 'fields': [], 'ctors': []}
    both = {'name': 'BAg:Both', 'owner': 'BAg', 'params': [], 'supers': ['Impulse', 'Interval'], 'body': []}
    both2 = {'name': 'BAg:Both2', 'owner': 'BAg', 'params': [], 'supers': ['Interval', 'Impulse'], 'body': []}
    sv = {'name': 'BSV', 'kind': 'class', 'supers': ['StateVariable'], 'fields': [], 'ctors': []}
    sa = {'name': 'BSV:A', 'owner': 'BSV', 'params': [], 'supers': ['Impulse'], 'body': []}
    H20 = ('expr', ('eq', var('horizon'), R(20)))
    for pred in ('BAg:Both', 'BAg:Both2'):
        for args, extra, exp in (([('at', R(5)), ('start', R(9)), ('end', R(3))], [], 'unsat'),
                                 ([('at', R(5)), ('start', R(3)), ('end', R(9))], [], 'sat'),
                                 ([('at', R(50)), ('start', R(3)), ('end', R(9))], [H20], 'unsat'),
                                 ([('start', R(3)), ('duration', ('neg', R(1)))], [], 'unsat'),
                                 ([('at', R(4))], [], 'sat')):
            prog = {'classes': [ag], 'preds': [both, both2], 'main': [('new', 'BAg', 'a', []), ('formula', True, 'f', ['a'], pred, args)] + extra}
            out.append((prog, A.pp_program(prog), exp))
    for args, extra, exp in (([('at', R(50))], [H20], 'unsat'), ([('at', R(5)), ('start', R(2)), ('end', R(4))], [H20], 'sat'),
                             ([('at', ('neg', R(3)))], [], 'unsat'), ([('start', R(9)), ('end', R(3))], [], 'unsat')):
        prog = {'classes': [sv], 'preds': [sa], 'main': [('new', 'BSV', 's', []), ('formula', True, 'f', ['s'], 'BSV:A', args)] + extra}
        out.append((prog, A.pp_program(prog), exp))
    return out


def directed_forward():
    """C17: a class declared BEFORE its base class (one and two levels of forward reference; smart and plain base classes): the
    hierarchy is the same as with the other order - predicates of the early class are predicates of the smart type, instances are
    registered with the late base class, inherited fields are constructed. All problems are valid and satisfiable."""
    out = []
    R = lambda v: num(v, False)
    q = lambda owner: {'name': owner + ':Q', 'owner': owner, 'params': [], 'supers': [], 'body': []}
    sub = {'name': 'FSub', 'kind': 'class', 'supers': ['FRobot'], 'fields': [], 'ctors': []}
    robot = {'name': 'FRobot', 'kind': 'class', 'supers': ['StateVariable'], 'fields': [], 'ctors': []}
    subsub = {'name': 'FSubSub', 'kind': 'class', 'supers': ['FSub'], 'fields': [], 'ctors': []}
    # plain classes with fields
    pb = {'name': 'FBase', 'kind': 'class', 'supers': [], 'fields': [('bw', 'real', R(3))], 'ctors': []}
    pd = {'name': 'FDer', 'kind': 'class', 'supers': ['FBase'], 'fields': [('dw', 'real', R(4))], 'ctors': []}
    pdd = {'name': 'FDerDer', 'kind': 'class', 'supers': ['FDer'], 'fields': [], 'ctors': []}
    cases = [
        ([sub, robot], [q('FSub')], [('new', 'FSub', 's', []), ('formula', True, 'f', ['s'], 'FSub:Q', [('start', R(1))])]),
        ([sub, robot], [q('FSub')], [('new', 'FSub', 's', []), ('formula', False, 'g', ['s'], 'FSub:Q', []), ('expr', ('ge', var('g', 'duration'), R(2)))]),
        ([subsub, sub, robot], [q('FSubSub')], [('new', 'FSubSub', 's', []), ('formula', True, 'f', ['s'], 'FSubSub:Q', [('start', R(1)), ('end', R(4))])]),
        ([subsub, robot, sub], [q('FSubSub')], [('new', 'FSubSub', 's', []), ('formula', False, 'g', ['s'], 'FSubSub:Q', [])]),
        ([sub, robot], [q('FSub')], [('new', 'FSub', 's', []), ('new', 'FRobot', 'r0', []), ('local', ('ref', 'FRobot'), 'x', None), ('expr', ('ne', var('x'), var('r0')))]),
        ([pd, pb], [], [('new', 'FDer', 'd', []), ('expr', ('eq', ('add', [var('d', 'bw'), var('d', 'dw')]), R(7))), ('new', 'FBase', 'b0', []),
                        ('local', ('ref', 'FBase'), 'x', None), ('expr', ('ne', var('x'), var('b0')))]),
        ([pdd, pd, pb], [], [('new', 'FDerDer', 'd', []), ('expr', ('eq', var('d', 'bw'), R(3))), ('local', ('ref', 'FBase'), 'x', None), ('expr', ('eq', var('x'), var('d')))]),
        ([pdd, pb, pd], [], [('new', 'FDerDer', 'd', []), ('new', 'FDer', 'e', []), ('local', ('ref', 'FDer'), 'x', None), ('expr', ('ne', var('x'), var('e'))), ('expr', ('eq', var('x', 'dw'), R(4)))]),
    ]
    for classes, preds, main in cases:
        prog = {'classes': classes, 'preds': preds, 'main': main}
        out.append((prog, A.pp_program(prog), 'sat'))
    return out


def directed_same_name():
    """C06 / C17: two DIFFERENT predicates with the same simple name in different scopes (global vs class, class vs class, nested class vs
    global, smart-type class vs plain class), one temporal and one not (or one Interval, one Impulse), facts of the two in both orders
    and goals: whether a predicate is an Interval / an Impulse is a property of the predicate, not of its simple name. The temporal
    atoms must come out well-formed, requests that force an ill-formed atom must be unsolvable, the non temporal ones are untouched.
    Returns (program, text, expected)."""
    out = []
    R = lambda v: num(v, False)
    I = lambda v: num(v, True)
    H20 = ('expr', ('eq', var('horizon'), R(20)))
    cls = lambda n, sup=(), outer=None: dict({'name': n, 'kind': 'class', 'supers': list(sup), 'fields': [], 'ctors': []}, **({'outer': outer} if outer else {}))
    gbusy = {'name': 'Busy', 'owner': None, 'params': [('job', 'int')], 'supers': ['Interval'], 'body': []}
    lbusy = {'name': 'Lab:Busy', 'owner': 'Lab', 'params': [('load', 'real')], 'supers': [], 'body': [('expr', ('ge', var('load'), R(0)))]}
    sbusy = {'name': 'Shop:Busy', 'owner': 'Shop', 'params': [], 'supers': ['Interval'], 'body': []}
    ibusy = {'name': 'Outer:Inner:Busy', 'owner': 'Outer:Inner', 'params': [('load', 'real')], 'supers': [], 'body': []}
    gring = {'name': 'Ring', 'owner': None, 'params': [], 'supers': ['Impulse'], 'body': []}
    lring = {'name': 'Lab:Ring', 'owner': 'Lab', 'params': [], 'supers': ['Interval'], 'body': []}
    mbusy = {'name': 'Mach:Busy', 'owner': 'Mach', 'params': [], 'supers': [], 'body': []}              # Interval through StateVariable
    pbusy = {'name': 'Lab:Busy', 'owner': 'Lab', 'params': [], 'supers': ['Impulse'], 'body': []}       # variant of Lab:Busy that is an Impulse

    def disj(a):
        return ('disj', 'sn_' + a, [[('expr', ('ge', var(a, 'start'), R(12))), ('expr', ('le', var(a, 'end'), R(10)))],
                                    [('expr', ('ge', var(a, 'start'), R(2))), ('expr', ('le', var(a, 'end'), R(10)))]])
    cases = []
    for isfact in (True, False):
        T = lambda name, args: ('formula', isfact, name, [], 'Busy', args)                    # the temporal (global) one
        N = lambda name, args: ('formula', True, name, ['lab'], 'Lab:Busy', args)             # the non temporal one (always a fact)
        lab = [('new', 'Lab', 'lab', [])]
        for order in (0, 1):
            def both(t, n):
                return lab + ([n, t] if order == 0 else [t, n])
            base = ([cls('Lab')], [gbusy, lbusy])
            cases.append(base + (both(T('b0', [('job', I(1)), ('start', R(5)), ('end', R(9))]), N('l0', [('load', R(3))])), 'sat'))
            cases.append(base + (both(T('b0', [('job', I(1)), ('start', R(12)), ('end', R(10))]), N('l0', [('load', R(3))])), 'unsat'))
            cases.append(base + (both(T('b0', [('job', I(1)), ('start', R(25))]), N('l0', [('load', R(3))])) + [H20], 'unsat'))
            cases.append(base + (both(T('b0', [('job', I(1))]), N('l0', [('load', R(3))])) + [disj('b0')], 'sat'))
            cases.append(base + (both(T('b0', [('job', I(2))]), N('l0', [('load', R(1))])) + [('expr', ('le', var('b0', 'duration'), ('neg', R(1))))], 'unsat'))
            # class vs class
            cc = ([cls('Lab'), cls('Shop')], [lbusy, sbusy])
            S = ('formula', isfact, 's0', ['shop'], 'Shop:Busy', [('start', R(12)), ('end', R(10))])
            S2 = ('formula', isfact, 's0', ['shop'], 'Shop:Busy', [])
            shop = [('new', 'Shop', 'shop', [])]
            cases.append(cc + (lab + shop + ([N('l0', [('load', R(3))]), S] if order == 0 else [S, N('l0', [('load', R(3))])]), 'unsat'))
            cases.append(cc + (lab + shop + ([N('l0', [('load', R(3))]), S2] if order == 0 else [S2, N('l0', [('load', R(3))])]) + [disj('s0')], 'sat'))
            # nested class vs global
            nn = ([cls('Outer'), cls('Outer:Inner', (), 'Outer')], [gbusy, ibusy])
            inn = [('new', 'Outer:Inner', 'in0', [])]
            NI = ('formula', True, 'l0', ['in0'], 'Outer:Inner:Busy', [('load', R(3))])
            TI = T('b0', [('job', I(1)), ('start', R(12)), ('end', R(10))])
            cases.append(nn + (inn + ([NI, TI] if order == 0 else [TI, NI]), 'unsat'))
            TI2 = T('b0', [('job', I(1))])
            cases.append(nn + (inn + ([NI, TI2] if order == 0 else [TI2, NI]) + [('expr', ('eq', var('b0', 'start'), R(7)))], 'sat'))
            # one Impulse (global Ring), one Interval (Lab.Ring)
            rr = ([cls('Lab')], [gring, lring])
            GR = ('formula', isfact, 'r0', [], 'Ring', [('at', R(25))])
            LR = ('formula', isfact, 'r1', ['lab'], 'Lab:Ring', [('start', R(12)), ('end', R(10))])
            LRok = ('formula', isfact, 'r1', ['lab'], 'Lab:Ring', [('start', R(3)), ('end', R(10))])
            GRok = ('formula', isfact, 'r0', [], 'Ring', [('at', R(5))])
            cases.append(rr + (lab + ([GRok, LR] if order == 0 else [LR, GRok]), 'unsat'))
            cases.append(rr + (lab + ([GR, LRok] if order == 0 else [LRok, GR]) + [H20], 'unsat'))
            cases.append(rr + (lab + ([GRok, LRok] if order == 0 else [LRok, GRok]) + [H20], 'sat'))
            # smart-type class vs plain class (the plain one is an Impulse)
            sp = ([cls('Mach', ['StateVariable']), cls('Lab')], [mbusy, pbusy])
            mach = [('new', 'Mach', 'mach', [])]
            MB = ('formula', isfact, 'm0', ['mach'], 'Mach:Busy', [('start', R(3)), ('end', R(10))])
            PB = ('formula', isfact, 'p0', ['lab'], 'Lab:Busy', [('at', R(25))])
            PBok = ('formula', isfact, 'p0', ['lab'], 'Lab:Busy', [('at', R(5))])
            cases.append(sp + (lab + mach + ([MB, PB] if order == 0 else [PB, MB]) + [H20], 'unsat'))
            cases.append(sp + (lab + mach + ([MB, PBok] if order == 0 else [PBok, MB]) + [H20], 'sat'))
    for classes, preds, main, exp in cases:
        prog = {'classes': classes, 'preds': preds, 'main': main}
        out.append((prog, A.pp_program(prog), exp))
    return out


def directed_reopen():
    """C03: flaws that are (re-)opened while the smart-type inconsistencies are solved. Gadget: a goal G whose rule is
    `{ goal b = new sv.B(start: 0, end: 10); } or { goal q = new Q(); }` (equal costs), a fact sv.A(0, 10) on the same state-variable
    instance (a reusable resource with a colliding Use in the resource variant), a fact q0 = Q() so that the flaw of q has two open
    resolvers. All flaws get closed with the first disjunct; only then the overlap / overuse, which has no applicable choice because the
    times are fixed numbers, forces the search back over the decided disjunct: the second disjunct opens q, whose flaw must be closed
    before a solution is declared. origin and horizon are fixed so that no arithmetic atom is left pending. 1-3 gadgets per problem.
    Every atom reachable from a chosen disjunct must be active or unified. All problems are satisfiable. Returns (program, text, expected)."""
    out = []
    R = lambda v: num(v, False)
    fixed = [('expr', ('eq', var('origin'), R(0))), ('expr', ('eq', var('horizon'), R(100)))]

    def gadget(j, kind, q_facts, q_rule, first):
        """kind: 'sv' / 'rr'; q_facts: number of facts of Q; q_rule: Q has a rule with a subgoal; first: position of the colliding disjunct"""
        g, qn, sn = 'G%d' % j, 'Q%d' % j, 'W%d' % j
        classes, preds, main = [], [], []
        if kind == 'sv':
            cn = 'Mach%d' % j
            classes.append({'name': cn, 'kind': 'class', 'supers': ['StateVariable'], 'fields': [], 'ctors': []})
            preds += [{'name': cn + ':A', 'owner': cn, 'params': [], 'supers': [], 'body': []}, {'name': cn + ':B', 'owner': cn, 'params': [], 'supers': [], 'body': []}]
            main += [('new', cn, 'sv%d' % j, []), ('formula', True, 'a%d' % j, ['sv%d' % j], cn + ':A', [('start', R(10 * j)), ('end', R(10 * j + 10)), ('duration', R(10))])]
            collide = [('formula', False, 'b', ['sv%d' % j], cn + ':B', [('start', R(10 * j)), ('end', R(10 * j + 10)), ('duration', R(10))])]
        else:
            main += [('new', 'ReusableResource', 'rr%d' % j, [R(1)]),
                     ('formula', True, 'u%d' % j, ['rr%d' % j], 'ReusableResource:Use', [('amount', R(1)), ('start', R(10 * j)), ('end', R(10 * j + 10)), ('duration', R(10))])]
            collide = [('formula', False, 'b', ['rr%d' % j], 'ReusableResource:Use', [('amount', R(1)), ('start', R(10 * j)), ('end', R(10 * j + 10)), ('duration', R(10))])]
        other = [('formula', False, 'q', [], qn, [])]
        brs = [collide, other] if first else [other, collide]
        preds.append({'name': g, 'owner': None, 'params': [], 'supers': [], 'body': [('disj', 'dj%d' % j, brs)]})
        preds.append({'name': qn, 'owner': None, 'params': [], 'supers': [], 'body': [('formula', False, 's', [], sn, [])] if q_rule else []})
        if q_rule:
            preds.append({'name': sn, 'owner': None, 'params': [], 'supers': [], 'body': []})
            main.append(('formula', True, 'w%d' % j, [], sn, []))
        for k in range(q_facts):
            main.append(('formula', True, 'q%d_%d' % (j, k), [], qn, []))
        main.append(('formula', False, 'g%d' % j, [], g, []))
        return classes, preds, main
    specs = []
    for kind in ('sv', 'rr'):
        for q_facts in (1, 2):
            for q_rule in (False, True):
                for first in (True, False):
                    specs.append([(kind, q_facts, q_rule, first)])
    specs += [[('sv', 1, False, True), ('sv', 1, True, True)], [('sv', 1, False, True), ('rr', 1, False, True)],
              [('rr', 2, True, True), ('sv', 1, False, True), ('sv', 2, False, True)], [('sv', 0, True, True)], [('rr', 0, True, True), ('sv', 1, True, True)]]
    for spec in specs:
        classes, preds, main = [], [], list(fixed)
        for j, (kind, qf, qr, first) in enumerate(spec):
            c, p_, m = gadget(j, kind, qf, qr, first)
            classes += c
            preds += p_
            main += m
        prog = {'classes': classes, 'preds': preds, 'main': main}
        out.append((prog, A.pp_program(prog), 'sat'))
    return out


def directed_temporal():
    """Problems aimed at each conjunct of the temporal rules: on a correct planner they are unsolvable; if one of the
    constraints of Interval / Impulse is lost they become solvable with an ill-formed active atom (which the checker rejects)."""
    out = []
    q = {'name': 'DQ', 'owner': None, 'params': [], 'supers': ['Interval'], 'body': []}
    m = {'name': 'DM', 'owner': None, 'params': [], 'supers': ['Impulse'], 'body': []}
    sv = {'name': 'DSV', 'kind': 'class', 'supers': ['StateVariable'], 'fields': [], 'ctors': []}
    sa = {'name': 'DSV:A', 'owner': 'DSV', 'params': [], 'supers': [], 'body': []}
    one = num(1, False)
    bads = [('le', var('a', 'end'), ('sub', [var('a', 'start'), one])),
            ('le', var('a', 'start'), ('sub', [var('origin'), one])),
            ('ge', var('a', 'end'), ('add', [var('horizon'), one])),
            ('ge', var('a', 'duration'), ('add', [('sub', [var('a', 'end'), var('a', 'start')]), one])),
            ('le', var('a', 'duration'), ('neg', one))]
    for isfact in (False, True):
        for b in bads:
            prog = {'classes': [], 'preds': [q], 'main': [('formula', isfact, 'a', [], 'DQ', []), ('expr', b)]}
            out.append((prog, A.pp_program(prog)))
            prog = {'classes': [sv], 'preds': [sa], 'main': [('new', 'DSV', 's', []), ('formula', isfact, 'a', ['s'], 'DSV:A', []), ('expr', b)]}
            out.append((prog, A.pp_program(prog)))
        for b in [('le', var('a', 'at'), ('sub', [var('origin'), one])), ('ge', var('a', 'at'), ('add', [var('horizon'), one]))]:
            prog = {'classes': [], 'preds': [m], 'main': [('formula', isfact, 'a', [], 'DM', []), ('expr', b)]}
            out.append((prog, A.pp_program(prog)))
    return out


# ------------------------------------------------------------------------------------------------
# family po: predicates declared inside (plain) classes, goals on concrete objects and on object variables (tau is a
# variable: fields of the scope are reached through var_item::get inside the rule), object-typed parameters
# ------------------------------------------------------------------------------------------------
def gen_po(rng, feats):
    N = Names()
    classes, preds, main = [], [], []
    # a helper class used as parameter type
    loc = {'name': N("L"), 'kind': 'class', 'supers': [], 'fields': [('lv', 'real', None)], 'ctors': [{'params': [('a', 'real')], 'supers': [], 'inits': [('lv', var('a'))], 'body': []}]}
    classes.append(loc)
    kname = N("K")
    base = None
    if rng.random() < 0.5:
        base = {'name': N("KB"), 'kind': 'class', 'supers': [], 'fields': [('bias', 'real', num(F(rng.randint(0, 3)), False))], 'ctors': []}
        classes.append(base)
        feats['po_inherited_field'] = feats.get('po_inherited_field', 0) + 1
    k = {'name': kname, 'kind': 'class', 'supers': [base['name']] if base else [], 'fields': [('cap', 'real', None)],
         'ctors': [{'params': [('c', 'real')], 'supers': [], 'inits': [('cap', var('c'))], 'body': [('expr', ('ge', var('cap'), num(0, False)))]}]}
    classes.append(k)
    nxt = {'name': kname + ":Nx", 'owner': kname, 'params': [('amt', 'real')], 'supers': [], 'body': [('expr', ('le', var('amt'), var('cap')))]}
    body = [('expr', ('le', var('amt'), var('cap')))]
    if base and rng.random() < 0.7:
        body.append(('expr', ('ge', ('add', [var('amt'), var('bias')]), var('bias'))))
    r = rng.random()
    if r < 0.4:
        body.append(('formula', False, 'n', [], kname + ":Nx", [('amt', var('amt'))]))
        feats['po_inherit_tau'] = feats.get('po_inherit_tau', 0) + 1
    elif r < 0.7:
        body.append(('disj', N("d"), [[('formula', False, 'n', [], kname + ":Nx", [('amt', var('amt'))])],
                                      [('expr', ('le', var('amt'), num(1, False)))]]))
        feats['po_rule_disj'] = feats.get('po_rule_disj', 0) + 1
    do = {'name': kname + ":Do", 'owner': kname, 'params': [('amt', 'real'), ('at', ('ref', loc['name']))], 'supers': [], 'body': body}
    if rng.random() < 0.5:
        do['body'].append(('expr', ('ge', var('at', 'lv'), num(0, False))))
        feats['po_param_field'] = feats.get('po_param_field', 0) + 1
    preds += [do, nxt]
    locs = []
    lvals = rng.sample(range(0, 9), 3)
    for j in range(rng.choice([1, 2, 3, 3])):
        x = N("l")
        main.append(('new', loc['name'], x, [num(F(lvals[j]), False)]))
        locs.append((x, F(lvals[j])))
    if len(locs) >= 2:
        # a field constraint through an object variable that only some instances satisfy (var_item::get must denote the field of
        # the instance that is finally chosen)
        x = N("lx")
        main.append(('local', ('ref', loc['name']), x, None))
        h = rng.choice(locs)
        r = rng.random()
        if r < 0.4:
            main.append(('expr', ('eq', var(x, 'lv'), num(h[1], False))))
        elif r < 0.7:
            main.append(('expr', ('ge', var(x, 'lv'), num(max(v for _, v in locs), False))))
        else:
            main.append(('expr', ('lt', var(x, 'lv'), num(min(v for _, v in locs) + 1, False))))
        feats['po_discriminating_field_constraint'] = feats.get('po_discriminating_field_constraint', 0) + 1
    if len(locs) >= 3 and rng.random() < 0.8:
        # two instances satisfy the field constraint, one of them is excluded afterwards: the value of `ly.lv` must follow the choice
        y = N("ly")
        main.append(('local', ('ref', loc['name']), y, None))
        byval = sorted(locs, key=lambda t: t[1])
        if rng.random() < 0.5:
            main.append(('expr', ('ge', var(y, 'lv'), num(byval[1][1], False))))
            main.append(('expr', ('ne', var(y), var(rng.choice(byval[1:])[0]))))
        else:
            main.append(('expr', ('le', var(y, 'lv'), num(byval[1][1], False))))
            main.append(('expr', ('ne', var(y), var(rng.choice(byval[:2])[0]))))
        feats['po_field_constraint_then_exclusion'] = feats.get('po_field_constraint_then_exclusion', 0) + 1
    locs = [n for n, _ in locs]
    objs = []
    caps = rng.sample(range(2, 10), 3)
    for j in range(rng.randint(1, 3)):
        x = N("k")
        c = F(caps[j])
        main.append(('new', kname, x, [num(c, False)]))
        objs.append((x, c))
    for _ in range(rng.randint(1, 3)):
        g = N("g")
        r = rng.random()
        o, c = rng.choice(objs)
        amt = F(rng.randint(0, int(min(cc for _, cc in objs))))
        args = [('amt', num(amt, False))]
        if rng.random() < 0.5:
            args.append(('at', var(rng.choice(locs))))
        else:
            feats['po_existential_param'] = feats.get('po_existential_param', 0) + 1
        if r < 0.5 or len(objs) < 2:
            main.append(('formula', rng.random() < 0.25, g, [o], kname + ":Do", args))
            feats['po_goal_on_object'] = feats.get('po_goal_on_object', 0) + 1
        else:
            v = N("kv")
            main.append(('local', ('ref', kname), v, None))
            if rng.random() < 0.5:
                big = max(cc for _, cc in objs)
                args[0] = ('amt', num(big, False))     # only the instance with the largest capacity can be the scope
                feats['po_scope_decided_by_rule'] = feats.get('po_scope_decided_by_rule', 0) + 1
            main.append(('formula', False, g, [v], kname + ":Do", args))
            feats['po_goal_on_variable'] = feats.get('po_goal_on_variable', 0) + 1
            ok_objs = [(n_, c_) for n_, c_ in objs if c_ >= args[0][1][1]]
            excl = [(n_, c_) for n_, c_ in objs if len([q for q in ok_objs if q[0] != n_]) >= 1]
            if excl and rng.random() < 0.5:
                main.append(('expr', ('ne', var(v), var(rng.choice(excl)[0]))))
        if rng.random() < 0.4:
            main.append(('expr', ('le', var(g, 'at', 'lv'), num(100, False))))
            feats['po_atom_param_chain'] = feats.get('po_atom_param_chain', 0) + 1
    return {'classes': classes, 'preds': preds, 'main': main}


def directed_incremental():
    """Incremental use: each further part is read after solve() has been called on the previous ones (optionally after popping to root
    level, as the deliberative executor does). The first part makes some resolver INAPPLICABLE while the graph is built (an existential
    over a type without instances in a disjunct, a formula argument whose type cannot fit the parameter: inconsistency_exception in
    solver::apply_resolver), with control variants where it is applicable; later parts add constraints on old variables, new variables,
    new facts / goals. Returns (merged program, [texts and "-pop" markers])."""
    out = []
    R = lambda v: num(v, False)
    P = {'name': 'IP', 'owner': None, 'params': [], 'supers': ['Interval'], 'body': []}
    sv = {'name': 'ISV', 'kind': 'class', 'supers': ['StateVariable'], 'fields': [], 'ctors': []}
    sa = {'name': 'ISV:A', 'owner': 'ISV', 'params': [], 'supers': [], 'body': []}
    for variant in range(3):
        if variant == 0:     # a plain interval fact created inside a disjunct that is not chosen
            classes, preds = [], [P]
            m1 = [('local', 'bool', 'b', None),
                  ('disj', 'id0', [[('formula', True, 'f', [], 'IP', [('start', R(1))]), ('expr', var('b'))], [('expr', ('not', var('b')))]]),
                  ('expr', ('not', var('b')))]
        elif variant == 1:   # a fact on a state variable created inside a disjunct that is not chosen
            classes, preds = [sv], [sa]
            m1 = [('new', 'ISV', 's', []), ('local', 'bool', 'b', None),
                  ('disj', 'id0', [[('formula', True, 'f', ['s'], 'ISV:A', [('start', R(1))]), ('expr', var('b'))], [('expr', ('not', var('b')))]]),
                  ('expr', ('not', var('b')))]
        else:                # nothing nested: plain incremental constraints
            classes, preds = [], [P]
            m1 = [('local', 'bool', 'b', None), ('formula', False, 'g', [], 'IP', []), ('expr', ('not', var('b')))]
        m2 = [('local', 'real', 'z', None), ('expr', ('ge', var('z'), R(5))), ('local', 'real', 'w', None), ('expr', ('lt', var('w'), var('z')))]
        p1 = {'classes': classes, 'preds': preds, 'main': m1}
        p2 = {'classes': [], 'preds': [], 'main': m2}
        merged = {'classes': classes, 'preds': preds, 'main': m1 + m2}
        out.append((merged, [A.pp_program(p1), A.pp_program(p2)]))
    # --- inapplicable resolvers in the first part ---------------------------------------------------------------------
    cls = lambda n, sup=(): {'name': n, 'kind': 'class', 'supers': list(sup), 'fields': [], 'ctors': []}
    courier, parcel, truck = cls('Courier'), cls('Parcel'), cls('Truck')
    item = {'name': 'IItem', 'kind': 'class', 'supers': [], 'fields': [('w', 'real', None)], 'ctors': []}
    crate = cls('ICrate', ['IItem'])
    k = 0
    for shape in range(3):
        for applicable in (False, True):
            if shape == 0:
                # an existential over a type that has no instance, in the first disjunct of the goal's rule
                deliver = {'name': 'Deliver', 'owner': None, 'params': [], 'supers': [],
                           'body': [('disj', 'dl', [[('local', ('ref', 'Courier'), 'c', None)], [('local', 'real', 'd', None), ('expr', ('ge', var('d'), R(1)))]])]}
                classes, preds = [courier], [deliver]
                m1 = ([('new', 'Courier', 'c0', [])] if applicable else []) + \
                     [('local', 'real', 'x', None), ('expr', ('ge', var('x'), R(0))), ('local', 'bool', 'b', None), ('formula', False, 'dv', [], 'Deliver', [])]
                newgoal = ('formula', False, 'dv2', [], 'Deliver', [])
            elif shape == 1:
                # the argument of the rule's subgoal cannot fit the parameter (unrelated types): the goal can only be unified with the fact
                load = {'name': 'Load', 'owner': None, 'params': [('t', ('ref', 'Parcel' if applicable else 'Truck'))], 'supers': [], 'body': []}
                ship = {'name': 'Ship', 'owner': None, 'params': [('p', ('ref', 'Parcel'))], 'supers': [],
                        'body': [('formula', False, 'l', [], 'Load', [('t', var('p'))])]}
                classes, preds = [parcel, truck], [load, ship]
                m1 = [('new', 'Parcel', 'p0', []), ('new', 'Truck', 't0', []), ('local', 'real', 'x', None), ('expr', ('ge', var('x'), R(0))), ('local', 'bool', 'b', None),
                      ('formula', True, 'sh0', [], 'Ship', [('p', var('p0'))]), ('formula', False, 'sh', [], 'Ship', [('p', var('p0'))])]
                newgoal = ('formula', False, 'sh2', [], 'Ship', [('p', var('p0'))])
            else:
                # a constant of the supertype handed to a parameter of the subtype, in the first disjunct
                grasp = {'name': 'IGrasp', 'owner': None, 'params': [('c', ('ref', 'ICrate'))], 'supers': [], 'body': []}
                fit = {'name': 'Fit', 'owner': None, 'params': [('it', ('ref', 'IItem'))], 'supers': [],
                       'body': [('disj', 'ft', [[('formula', False, 'gr', [], 'IGrasp', [('c', var('it'))])], [('expr', ('ge', var('it', 'w'), R(0)))]])]}
                classes, preds = [item, crate], [grasp, fit]
                m1 = [('new', 'IItem', 'i0', []), ('new', 'ICrate', 'k0', []), ('local', 'real', 'x', None), ('expr', ('ge', var('x'), R(0))), ('local', 'bool', 'b', None),
                      ('formula', False, 'ft0', [], 'Fit', [('it', var('k0' if applicable else 'i0'))])]
                newgoal = ('formula', False, 'ft2', [], 'Fit', [('it', var('k0' if applicable else 'i0'))])
            laters = [
                [[('expr', ('ge', var('x'), R(10)))]],
                [[('local', 'real', 'y', None), ('expr', ('ge', var('y'), ('add', [var('x'), R(1)]))), ('expr', ('ge', var('x'), R(2)))]],
                [[('expr', ('eq', var('x'), R(4))), newgoal, ('expr', var('b'))], [('expr', ('ge', var('x'), R(4))), ('local', 'real', 'u', None), ('expr', ('gt', var('u'), var('x')))]],
            ]
            for parts in laters:
                k += 1
                texts = [A.pp_program({'classes': classes, 'preds': preds, 'main': m1})]
                main = list(m1)
                for part in parts:
                    if k % 2:
                        texts.append("-pop")
                    texts.append(A.pp_program({'classes': [], 'preds': [], 'main': part}))
                    main += part
                out.append(({'classes': classes, 'preds': preds, 'main': main}, texts))
    return out


def directed_assign():
    """C06 / C01: assignment statements `name = e;` / `a.b = e;`. assignment_statement::execute does exprs.emplace: a binding when the
    name is not yet bound in the target environment, NO effect otherwise. Assignments to existing temporal parameters of facts and goals
    (values that would make the atom ill-formed if they took effect), to existing variables and fields, and to new names, at top level,
    in rule bodies, disjuncts and constructors."""
    out = []
    R = lambda v: num(v, False)
    AP = {'name': 'AP', 'owner': None, 'params': [], 'supers': ['Interval'], 'body': []}
    AM = {'name': 'AM', 'owner': None, 'params': [], 'supers': ['Impulse'], 'body': []}
    AQ = {'name': 'AQ', 'owner': None, 'params': [], 'supers': ['Interval'],
          'body': [('assign', ['this'], 'end', False, ('sub', [var('start'), R(5)])), ('assign', [], 'tmp', True, ('add', [var('duration'), R(1)])),
                   ('expr', ('ge', var('tmp'), R(1)))]}
    AQ2 = {'name': 'AQ2', 'owner': None, 'params': [('k', 'real')], 'supers': ['Impulse'],
           'body': [('assign', ['this'], 'at', False, ('add', [var('horizon'), R(10)])), ('assign', ['this'], 'k', False, R(3)), ('expr', ('ge', var('k'), R(0)))]}
    AQ3 = {'name': 'AQ3', 'owner': None, 'params': [], 'supers': ['Interval'],
           'body': [('formula', True, 'sub', [], 'AP', [('start', var('start'))]), ('assign', ['sub'], 'end', False, ('sub', [var('start'), R(2)])),
                    ('assign', ['sub'], 'duration', False, ('neg', R(1)))]}
    sv = {'name': 'ASV', 'kind': 'class', 'supers': ['StateVariable'], 'fields': [], 'ctors': []}
    sa = {'name': 'ASV:A', 'owner': 'ASV', 'params': [], 'supers': [], 'body': []}
    bx = {'name': 'ABx', 'kind': 'class', 'supers': [], 'fields': [('w', 'real', R(2))],
          'ctors': [{'params': [('p', 'real')], 'supers': [], 'inits': [],
                     'body': [('assign', ['this'], 'w', False, R(9)), ('assign', [], 'extra', True, ('add', [var('w'), var('p')])), ('expr', ('ge', var('extra'), R(3)))]}]}
    preds = [AP, AM, AQ, AQ2, AQ3]
    f = lambda *p: var('f', *p)
    g = lambda *p: var('g', *p)
    old = lambda path, x, e: ('assign', path, x, False, e)
    new = lambda path, x, e: ('assign', path, x, True, e)
    mains = [
        ([], [('formula', True, 'f', [], 'AP', [('start', R(5)), ('end', R(8))]), old(['f'], 'end', R(3))]),
        ([], [('formula', True, 'f', [], 'AP', [('start', R(5))]), old(['f'], 'end', R(2))]),
        ([], [('formula', True, 'f', [], 'AP', [('start', R(5)), ('end', R(8))]), old(['f'], 'duration', R(100))]),
        ([], [('formula', True, 'f', [], 'AP', [('end', R(8))]), old(['f'], 'start', R(30)), old(['f'], 'duration', ('neg', R(4)))]),
        ([], [('formula', True, 'f', [], 'AM', [('at', R(4))]), old(['f'], 'at', R(100)), ('expr', ('le', var('horizon'), R(50)))]),
        ([], [('formula', True, 'f', [], 'AM', []), old(['f'], 'at', ('sub', [var('origin'), R(3)]))]),
        ([], [('formula', False, 'g', [], 'AP', []), old(['g'], 'start', R(50)), old(['g'], 'end', R(10))]),
        ([], [('formula', False, 'g', [], 'AP', [('start', R(5))]), old(['g'], 'end', R(1))]),
        ([], [('formula', False, 'g', [], 'AM', []), old(['g'], 'at', ('add', [var('horizon'), R(7)])), ('expr', ('ge', g('at'), R(2)))]),
        ([], [('formula', False, 'g', [], 'AQ', [('start', R(6))])]),
        ([], [('formula', False, 'g', [], 'AQ2', [])]),
        ([], [('formula', False, 'g', [], 'AQ3', [('start', R(4))])]),
        ([sv], [('new', 'ASV', 'sv', []), ('formula', True, 'f', ['sv'], 'ASV:A', [('start', R(5)), ('end', R(8))]), old(['f'], 'end', R(3))]),
        ([sv], [('new', 'ASV', 'sv', []), ('formula', True, 'f', ['sv'], 'ASV:A', [('start', R(5))]), old(['f'], 'duration', ('neg', R(2))), ('expr', ('le', f('end'), R(9)))]),
        ([sv], [('new', 'ASV', 'sv', []), ('formula', False, 'g', ['sv'], 'ASV:A', []), old(['g'], 'end', ('sub', [g('start'), R(1)])), ('expr', ('ge', g('start'), R(3)))]),
        # variables
        ([], [('local', 'real', 'x', None), ('expr', ('ge', var('x'), R(2))), old([], 'x', R(7)), ('expr', ('le', var('x'), R(3)))]),
        ([], [('local', 'real', 'x', None), new([], 'z', ('add', [var('x'), R(1)])), ('expr', ('ge', var('z'), R(3))), old([], 'z', R(100)), ('expr', ('le', var('z'), R(10)))]),
        ([], [('local', 'bool', 'b', None), ('expr', var('b')), old([], 'b', ('bool', False))]),
        ([], [('local', 'real', 'x', None), ('local', 'bool', 'b', None),
              ('disj', 'ad0', [[new([], 'k', R(1)), ('expr', ('ge', var('x'), var('k'))), ('expr', var('b'))], [new([], 'k', R(2)), ('expr', ('ge', var('x'), var('k')))]]),
              ('expr', ('not', var('b')))]),
        # a new name in the environment of an atom / of an object
        ([], [('formula', True, 'f', [], 'AP', [('start', R(5)), ('end', R(8))]), new(['f'], 'note', ('sub', [f('end'), f('start')])), ('expr', ('ge', f('note'), R(3)))]),
        ([bx], [('new', 'ABx', 'bx', [R(4)]), ('expr', ('le', var('bx', 'w'), R(2))), old(['bx'], 'w', R(5)), new(['bx'], 'tag', R(1)), ('expr', ('eq', var('bx', 'tag'), R(1)))]),
        ([bx], [('new', 'ABx', 'bx', [R(1)]), ('new', 'ABx', 'by', [R(2)]), old(['by'], 'w', ('add', [var('bx', 'w'), R(1)])), ('expr', ('eq', var('bx', 'w'), var('by', 'w')))]),
    ]
    for classes, main in mains:
        cl = list(classes)
        prs = list(preds) + ([sa] if sv in classes else [])
        prog = {'classes': cl, 'preds': prs, 'main': main}
        out.append((prog, A.pp_program(prog)))
    return out


FAMILIES = {'cn': gen_cn, 'oo': gen_oo, 'pl': gen_pl, 'tl': gen_tl, 'po': gen_po}


def generate(rng, family):
    feats = {}
    for _ in range(20):
        prog = FAMILIES[family](rng, feats)
        try:
            text = A.pp_program(prog)
            return prog, text, feats
        except A.Unprintable:
            continue
    raise RuntimeError("generator could not print a program of family " + family)


if __name__ == "__main__":
    import random
    import sys
    r = random.Random(int(sys.argv[2]) if len(sys.argv) > 2 else 1)
    prog, text, feats = generate(r, sys.argv[1] if len(sys.argv) > 1 else 'cn')
    print(text)
    print("//", feats)
