#!/usr/bin/env python3
"""Single entry point of the /verif checks.

  verif.py <Cxx> quick|thorough          run the check of one property (exit 0 / 1 + VIOLATION line)
  verif.py <Cxx> replay <file>           re-run only the case stored in a replay file
  verif.py setup                         build every proof, oracle and harness once (MANIFEST.setup_cmd)

Environment: VERIF_SEED (int, default 1), VERIF_TIER (overrides the tier argument), ORATIO_REPO (default /repo).
"""
import importlib
import os
import sys
import time
import traceback

sys.path.insert(0, os.path.dirname(os.path.abspath(__file__)))
import vlib  # noqa: E402


def main():
    if len(sys.argv) < 2:
        print(__doc__)
        return 2
    if sys.argv[1] == "setup":
        import setup_all
        return setup_all.main()
    prop = sys.argv[1].upper()
    tier = os.environ.get("VERIF_TIER") or (sys.argv[2] if len(sys.argv) > 2 else "quick")
    seed = int(os.environ.get("VERIF_SEED", "1"))
    mod = importlib.import_module("checks." + prop.lower())
    if tier == "replay":
        return mod.replay(sys.argv[3])
    ctx = vlib.Ctx(prop, tier, seed)
    try:
        mod.run(ctx)
    except Exception as e:  # a crash of the machinery must never look like "property holds"
        traceback.print_exc()
        ctx.violation("machinery:" + type(e).__name__, {"kind": "machinery-failure", "error": repr(e),
                                                         "trace": traceback.format_exc()[-3000:]}, no_input=True)
    rc = ctx.finish(getattr(mod, "LEVEL", "proof"))
    ctx.log("done rc=%d wall=%.1fs" % (rc, time.time() - ctx.t0))
    return rc


if __name__ == "__main__":
    sys.exit(main())
