"""Translator of the planner's INIT_STRING (solver/CMakeLists.txt, LA variant) into coq/gen/Gen_init.v.

The INIT_STRING is RIDDLE source read by solver::init(); it declares the predicates Impulse and Interval with their
temporal rules, and the variables origin / horizon with their constraints. This parser accepts exactly the fragment
used there (predicate declarations with primitive parameters; declarations `real x;`; constraints built from identifiers,
numeric literals, + - and the relations) and FAILS LOUDLY on anything else: a failure is a broken tie, never skipped.
Only names with a reserved identifier (plan/Ast.v) may occur.
"""
import re
from fractions import Fraction

IDS = {"this": "id_this", "tau": "id_tau", "start": "id_start", "end": "id_end", "duration": "id_duration", "at": "id_at",
       "origin": "id_origin", "horizon": "id_horizon", "Interval": "id_Interval", "Impulse": "id_Impulse"}
TYPES = {"real": "TReal", "int": "TInt", "bool": "TBool"}


class InitError(Exception):
    pass


TOK = re.compile(r"\s*(?:(\d+\.\d+|\d+)|([A-Za-z_][A-Za-z_0-9]*)|(>=|<=|==|!=|[{}();,:<>+\-*/]))")


def tokens(s):
    out, i = [], 0
    s = s.strip()
    while i < len(s):
        m = TOK.match(s, i)
        if not m:
            raise InitError("INIT_STRING: cannot tokenise at %r" % s[i:i + 20])
        if m.group(1) is not None:
            out.append(("num", m.group(1)))
        elif m.group(2) is not None:
            out.append(("id", m.group(2)))
        else:
            out.append(("sym", m.group(3)))
        i = m.end()
    return out


class P:
    def __init__(self, toks):
        self.t, self.i = toks, 0

    def peek(self, k=0):
        return self.t[self.i + k] if self.i + k < len(self.t) else ("eof", "")

    def take(self, kind=None, val=None):
        tk = self.peek()
        if (kind and tk[0] != kind) or (val is not None and tk[1] != val):
            raise InitError("INIT_STRING: expected %s %s, found %r" % (kind, val, tk))
        self.i += 1
        return tk

    def ident(self, name):
        if name not in IDS:
            raise InitError("INIT_STRING: identifier %r has no reserved number in plan/Ast.v" % name)
        return IDS[name]

    def atom(self):
        tk = self.peek()
        if tk[0] == "num":
            self.take()
            f = Fraction(tk[1])
            return "(ENum (%d # %d))" % (f.numerator, f.denominator)
        if tk[0] == "id":
            path = [self.ident(self.take()[1])]
            while self.peek() == ("sym", "."):
                self.take()
                path.append(self.ident(self.take("id")[1]))
            return "(EId [%s])" % "; ".join(path)
        if tk == ("sym", "-"):
            self.take()
            return "(ENeg %s)" % self.atom()
        raise InitError("INIT_STRING: unsupported expression at %r" % (tk,))

    def sum(self):
        e = self.atom()
        while self.peek() in (("sym", "+"), ("sym", "-")):
            op = self.peek()[1]
            ops = [e]
            while self.peek() == ("sym", op):
                self.take()
                ops.append(self.atom())
                # same operator chains are one n-ary node, as in riddle_parser::_expression
            e = "(%s [%s])" % ("EAdd" if op == "+" else "ESub", "; ".join(ops))
        return e

    def expr(self):
        a = self.sum()
        tk = self.peek()
        rel = {">=": "ECmp CGe", "<=": "ECmp CLe", "<": "ECmp CLt", ">": "ECmp CGt", "==": "EEq", "!=": "ENe"}
        if tk[0] == "sym" and tk[1] in rel:
            self.take()
            b = self.sum()
            return "(%s %s %s)" % (rel[tk[1]], a, b)
        return a

    def stmt(self):
        tk = self.peek()
        if tk[0] == "id" and tk[1] in TYPES and self.peek(1)[0] == "id":
            self.take()
            x = self.ident(self.take("id")[1])
            self.take("sym", ";")
            return "SLocal %s %s None" % (TYPES[tk[1]], x)
        e = self.expr()
        self.take("sym", ";")
        return "SExpr %s" % e

    def pred(self):
        self.take("id", "predicate")
        name = self.ident(self.take("id")[1])
        self.take("sym", "(")
        params = []
        while self.peek() != ("sym", ")"):
            t = self.take("id")[1]
            if t not in TYPES:
                raise InitError("INIT_STRING: parameter type %r not supported (only the LA variant is a supported configuration)" % t)
            params.append("(%s, %s)" % (self.ident(self.take("id")[1]), TYPES[t]))
            if self.peek() == ("sym", ","):
                self.take()
        self.take("sym", ")")
        supers = []
        if self.peek() == ("sym", ":"):
            self.take()
            supers.append(self.ident(self.take("id")[1]))
            while self.peek() == ("sym", ","):
                self.take()
                supers.append(self.ident(self.take("id")[1]))
        self.take("sym", "{")
        body = []
        while self.peek() != ("sym", "}"):
            body.append(self.stmt())
        self.take("sym", "}")
        return "mkPred %s None [%s] [%s]\n      [%s]" % (name, "; ".join(params), "; ".join(supers), ";\n       ".join(body))

    def program(self):
        preds, main = [], []
        while self.peek()[0] != "eof":
            if self.peek() == ("id", "predicate"):
                preds.append(self.pred())
            else:
                main.append(self.stmt())
        return preds, main


def translate(init_string):
    preds, main = P(tokens(init_string)).program()
    return ("(* GENERATED by tools/plan_init.py from the INIT_STRING (LA) of /repo/solver/CMakeLists.txt -- do not edit.\n"
            "   source: %s *)\n"
            "From Coq Require Import List NArith ZArith QArith.\n"
            "From ORatio Require Import plan.Ast.\n"
            "Import ListNotations.\n"
            "Local Open Scope Q_scope.\n\n"
            "Definition init_preds : list pred_decl :=\n  [ %s ].\n\n"
            "Definition init_main : list stmt :=\n  [ %s ].\n") % (init_string.replace("*)", "* )"), ";\n    ".join(preds), ";\n    ".join(main))


if __name__ == "__main__":
    import sys
    import os
    sys.path.insert(0, os.path.dirname(os.path.abspath(__file__)))
    import vlib
    print(translate(vlib.init_string("LA")))
