#!/usr/bin/env python3
"""Prints the markdown table of DESIGN.md section 13.7 from seeded/RESULTS.json and the seeds' meta.json."""
import json, os
V = os.path.dirname(os.path.dirname(os.path.abspath(__file__)))
r = json.load(open(os.path.join(V, "seeded/RESULTS.json")))
print("| seed | change (one line) | own check | other checks that fire |")
print("|---|---|---|---|")
for n in sorted(r):
    e = r[n]
    m = json.load(open(os.path.join(V, "seeded", n, "meta.json")))
    own = e["checks"].get(e["property"], {})
    def st(c):
        if c.get("rc") == 1:
            vl = [l for l in c.get("lines", []) if l.startswith("VIOLATION")]
            return "VIOLATION" + (" (no-failing-input-found)" if vl and all("no-failing" in l for l in vl) else " with failing input")
        if c.get("rc") == 0:
            return "quiet"
        return "not run (%s)" % (e.get("apply_error", "patch does not apply on this HEAD")[:60] if not e.get("applied") else c.get("note", "error"))
    others = ", ".join(p for p, c in sorted(e["checks"].items()) if p != e["property"] and c.get("rc") == 1) or "-"
    s = m["summary"].replace("|", "\\|").replace("\n", " ")
    s = s if len(s) < 170 else s[:167] + "..."
    print("| %s | %s | %s | %s |" % (n, s, st(own) if own else "not run", others))
