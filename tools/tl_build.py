"""C04 / C05: building harness/h_timelines.cpp from /repo's current sources in the supported solver configurations
(the -D flags are those set by /repo/solver/CMakeLists.txt: LA_TN, H_MAX | H_ADD, DEFERRABLE_FLAWS, GRAPH_PRUNING,
CHECK_INCONSISTENCIES; NDEBUG is what RelWithDebInfo adds)."""
import os

import vlib

SRC = vlib.SMT_SRC + vlib.RIDDLE_SRC + vlib.CORE_SRC + vlib.SOLVER_SRC
INC = vlib.SMT_INC + vlib.RIDDLE_INC + vlib.CORE_INC + vlib.SOLVER_INC

BASE = ["LA_TN", "DEFERRABLE_FLAWS", "GRAPH_PRUNING"]
CONFIGS = {
    # name: (defines, asserts enabled?)
    "hmax_nd": BASE + ["H_MAX", "NDEBUG"],                       # the pinned default (RelWithDebInfo)
    "hadd_ci": BASE + ["H_ADD", "CHECK_INCONSISTENCIES"],        # asserts on
    "hmax": BASE + ["H_MAX"],
    "hadd_nd": BASE + ["H_ADD", "NDEBUG"],
    "hmax_ci_nd": BASE + ["H_MAX", "CHECK_INCONSISTENCIES", "NDEBUG"],
    "hadd_ci_nd": BASE + ["H_ADD", "CHECK_INCONSISTENCIES", "NDEBUG"],
}
QUICK = ["hmax_nd", "hadd_ci"]
THOROUGH = ["hmax_nd", "hadd_ci", "hmax", "hadd_nd", "hmax_ci_nd", "hadd_ci_nd"]


def init_inc():
    """solver/init.h as CMake's configure_file would write it (vlib.gen_init_h leaves `#cmakedefine` in place),
    in a directory named after its content so that the object cache sees a change of INIT_STRING."""
    s = vlib.init_string("LA")
    text = "#define INIT_STRING \"%s\"\n" % s
    d = os.path.join(vlib.BUILD, "tl_inc_" + vlib.sha(text))
    vlib.write_if_changed(os.path.join(d, "init.h"), text)
    return d


def build(cfg):
    d = init_inc()
    return vlib.cxx_build("h_timelines_" + cfg, "h_timelines.cpp", SRC, INC, defines=CONFIGS[cfg], flags=("-O1", "-I", d))


def build_asan():
    """supporting run of the thorough tier: the same harness under AddressSanitizer (default configuration, asserts on)"""
    d = init_inc()
    return vlib.cxx_build("h_timelines_asan", "h_timelines.cpp", SRC, INC, defines=BASE + ["H_MAX"],
                          flags=("-O1", "-g", "-fsanitize=address", "-fno-omit-frame-pointer", "-I", d))
