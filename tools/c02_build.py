"""C02: building the verdict harness (harness/h_verdict.cpp) from /repo's current sources in one of the supported
solver configurations (flags of /repo/solver/CMakeLists.txt)."""
import vlib

SRC = vlib.SMT_SRC + vlib.RIDDLE_SRC + vlib.CORE_SRC + vlib.SOLVER_SRC
INC = vlib.SMT_INC + vlib.RIDDLE_INC + vlib.CORE_INC + vlib.SOLVER_INC

# name -> compile definitions (the defaults of solver/CMakeLists.txt are LA_TN, H_MAX, DEFERRABLE_FLAWS, GRAPH_PRUNING)
CONFIGS = {
    "hmax": ["NDEBUG", "LA_TN", "H_MAX", "DEFERRABLE_FLAWS", "GRAPH_PRUNING"],
    "hadd_ci": ["NDEBUG", "LA_TN", "H_ADD", "DEFERRABLE_FLAWS", "GRAPH_PRUNING", "CHECK_INCONSISTENCIES"],
    "hadd": ["NDEBUG", "LA_TN", "H_ADD", "DEFERRABLE_FLAWS", "GRAPH_PRUNING"],
    "hmax_ci": ["NDEBUG", "LA_TN", "H_MAX", "DEFERRABLE_FLAWS", "GRAPH_PRUNING", "CHECK_INCONSISTENCIES"],
}
# NDEBUG: the pinned build type is RelWithDebInfo, i.e. assert() is compiled out; the verdicts judged here are the ones a
# user of that build gets (an assertion failure of a Debug build is an abnormal termination: property C18, not C02)
QUICK = ["hmax", "hadd_ci"]
THOROUGH = ["hmax", "hadd_ci", "hadd", "hmax_ci"]


def build(cfg):
    return vlib.cxx_build("h_verdict_" + cfg, "h_verdict.cpp", SRC, INC, defines=CONFIGS[cfg])
