"""Shared run of the plan checks (C01, C03, C06, C17): regenerate gen/Gen_init.v, build the harness from /repo's current
sources (one binary per configuration) and the extracted checker, generate problems, solve them with the real planner,
judge every reported solution with the verified checker, cross-check the checker with mutated solutions.
The result is cached under build/plan_cache keyed by (seed, tier, hash of /repo's sources, hash of the tools) so that the
four checks share one run.
"""
import copy
import glob
import hashlib
import json
import os
import random
import subprocess
import sys
import tempfile
import time

import vlib
import plan_ast as A
import plan_conv
import plan_gen
import plan_init

CONFIGS = {
    # name: (defines, flags)   -- see solver/CMakeLists.txt; the default build is RelWithDebInfo (NDEBUG), h_max, LA
    "default": (("LA_TN", "H_MAX", "DEFERRABLE_FLAWS", "GRAPH_PRUNING", "NDEBUG"), ("-O1",)),
    "h_add": (("LA_TN", "H_ADD", "DEFERRABLE_FLAWS", "GRAPH_PRUNING", "NDEBUG"), ("-O1",)),
    "check_inc": (("LA_TN", "H_MAX", "DEFERRABLE_FLAWS", "GRAPH_PRUNING", "CHECK_INCONSISTENCIES", "NDEBUG"), ("-O1",)),
    "debug": (("LA_TN", "H_MAX", "DEFERRABLE_FLAWS", "GRAPH_PRUNING"), ("-O0",)),
}
SRC_DIRS = ["smt", "smt/arith", "smt/arith/lra", "smt/arith/dl", "smt/ov", "smt/json", "riddle", "core", "solver", "solver/flaws",
            "solver/types", "solver/heuristics"]
PROPS = ("C01", "C03", "C06", "C17")
EXTRACT = """From Coq Require Import Extraction ExtrOcamlBasic.
From ORatio Require Import plan.Ast plan.Sem plan.Check plan.Temporal.
Extraction "plan_model.ml" check_solution check_top check_rules check_goals check_unified check_acyclic check_temporal check_ctors check_domains check_field_vars check_arg_types support_edges full_program chk_stmt active_okb unified_okb goal_rules_okb fact_applied pfuel.
"""
MODEL_VO = ["plan/Ast.vo", "plan/Sem.vo", "plan/Check.vo", "gen/Gen_init.vo", "plan/Temporal.vo"]


def repo_hash():
    h = hashlib.sha256()
    for d in SRC_DIRS:
        for f in sorted(glob.glob(os.path.join(vlib.REPO, d, "*.cpp")) + glob.glob(os.path.join(vlib.REPO, d, "*.h"))):
            h.update(f.encode())
            h.update(open(f, "rb").read())
    h.update(open(os.path.join(vlib.REPO, "solver/CMakeLists.txt"), "rb").read())
    return h.hexdigest()[:16]


def tools_hash():
    h = hashlib.sha256()
    for f in ["tools/plan_run.py", "tools/plan_gen.py", "tools/plan_ast.py", "tools/plan_conv.py", "tools/plan_init.py", "harness/h_solver.cpp",
              "oracle/plan_main.ml", "oracle/plan_sexp.ml", "coq/plan/Ast.v", "coq/plan/Sem.v", "coq/plan/Check.v", "coq/plan/Temporal.v"]:
        h.update(open(os.path.join(vlib.VERIF, f), "rb").read())
    for f in sorted(glob.glob(os.path.join(vlib.VERIF, "corpus", "C*", "*.json"))):
        if os.path.basename(os.path.dirname(f)) in PROPS:
            h.update(open(f, "rb").read())
    return h.hexdigest()[:16]


def regenerate():
    """coq/gen/Gen_init.v from the INIT_STRING of vlib.REPO. Raises plan_init.InitError when the translator fails."""
    text = plan_init.translate(vlib.init_string("LA"))
    with vlib.Lock("coq"):
        changed = vlib.write_if_changed(os.path.join(vlib.COQ, "gen/Gen_init.v"), text)
    ref = os.path.join(vlib.COQ, "gen_ref/Gen_init.v.ref")
    differs = os.path.exists(ref) and open(ref).read() != text
    return text, changed, differs


def build_harness(config):
    defines, flags = CONFIGS[config]
    return vlib.cxx_build("h_solver_" + config, "h_solver.cpp", vlib.SMT_SRC + vlib.RIDDLE_SRC + vlib.CORE_SRC + vlib.SOLVER_SRC,
                          vlib.SMT_INC + vlib.RIDDLE_INC + vlib.CORE_INC + vlib.SOLVER_INC, defines=defines, flags=flags)


def build_oracle():
    return vlib.ocaml_build("plan", MODEL_VO, EXTRACT, [("plan_sexp.ml", None), ("plan_main.ml", None)])


def run_checker(oexe, sx):
    r = vlib.run([oexe], stdin=sx, timeout=60)
    out = {"raw_rc": r.rc, "fail": [], "edges": []}
    if not r.ok:
        out["error"] = (r.err or r.out)[-400:]
        return out
    for line in r.out.split("\n"):
        t = line.split()
        if not t:
            continue
        if t[0] in ("top", "rules", "goals", "unified", "acyclic", "temporal", "ctors", "argtypes", "domains", "solution"):
            out[t[0]] = t[1] == "1"
        elif t[0].startswith("fail-"):
            out["fail"].append((t[0][5:], int(t[1])) + tuple(t[2:]))
        elif t[0] == "factrules-mismatch":
            out.setdefault("factrules_mismatch", []).append(" ".join(t[1:]))
        elif t[0] == "factrules-missing":
            out.setdefault("factrules_missing", []).append(" ".join(t[1:]))
        elif t[0] == "edges":
            out["edges"] = [tuple(int(x) for x in e.split(">")) for e in t[1:]]
        elif t[0] == "n-init-main":
            out["n_init_main"] = int(t[1])
    return out


def topo_rank(edges):
    """rank with rank[b] < rank[a] for every edge a>b, or None when the graph has a cycle."""
    nodes = set()
    for a, b in edges:
        nodes.add(a)
        nodes.add(b)
    succ = {n: [] for n in nodes}
    for a, b in edges:
        succ[a].append(b)
    rank, state = {}, {}

    def visit(n):
        stack = [(n, iter(succ[n]))]
        state[n] = 1
        while stack:
            node, it = stack[-1]
            adv = False
            for m in it:
                if state.get(m) == 1:
                    return False
                if m not in state:
                    state[m] = 1
                    stack.append((m, iter(succ[m])))
                    adv = True
                    break
            if not adv:
                rank[node] = 1 + max([rank[m] for m in succ[node]] + [0])
                state[node] = 2
                stack.pop()
        return True
    for n in sorted(nodes):
        if n not in state:
            if not visit(n):
                return None
    return rank


def judge(oexe, prog, dump):
    """Runs the verified checker on one reported solution. Returns the verdict dict (with position-based and, when
    that fails, graph-based acyclicity certificates)."""
    sx, info = plan_conv.build(prog, dump)
    v = run_checker(oexe, sx)
    v["n_var_recs"] = sx.count("(var ")
    v["conv_unknown"] = info["unknown"]
    v["rank_by_positions"] = v.get("acyclic")
    if v.get("acyclic") is False:
        rk = topo_rank(v["edges"])
        v["graph_acyclic"] = rk is not None
        if rk is not None:
            # the planner's positions do not certify acyclicity although the support graph is acyclic
            allr = {info["eid"](a): 0 for a in info["atoms"]}
            allr.update(rk)
            sx2, _ = plan_conv.build(prog, dump, rank_override=allr)
            v2 = run_checker(oexe, sx2)
            v["acyclic"] = v2.get("acyclic")
            v["solution"] = v2.get("solution")
    v["derived"] = derived_fields(dump)
    v["positions_model"] = positions_model(dump)
    return v, info


def positions_model(dump):
    """K1 tie of plan/Justify.v: the positions the planner assigned (lower bounds in the IDL theory = a consistent assignment) must
    satisfy the constraints of the model for every atom that belongs to the plan: position(flaw) <= position(cause.effect) - 1 for every
    cause (flaw::init) and position(target) <= position(unifier) for the chosen unification (solver::new_causal_link)."""
    envs = {e["id"]: e for e in dump["envs"]}
    checked, bad = 0, []
    for e in dump["envs"]:
        if e["kind"] != "atom" or e["sigma"] == "U" or "pos" not in e:
            continue
        for c in e.get("causes", []):
            if c["rho"] != "T":
                continue
            checked += 1
            if not (e["pos"][0] <= c["pos"][0] - 1):
                bad.append({"atom": e["id"], "pos": e["pos"], "cause_effect_pos": c["pos"], "rule": "flaw::init"})
        if e["sigma"] == "F":
            for r in e.get("resolvers", []):
                if r["kind"] == "unify" and r["rho"] == "T":
                    t = envs.get(r["target"])
                    checked += 1
                    if t is None or "pos" not in t or not (t["pos"][0] <= e["pos"][0]):
                        bad.append({"atom": e["id"], "pos": e["pos"], "target": r["target"], "target_pos": t and t.get("pos"), "rule": "new_causal_link"})
    return {"checked": checked, "violations": bad}


def canon_value(dump_envs, val):
    """Canonical exact value of a dumped variable (object variables: the chosen instance)."""
    k = val["k"]
    if k == "b":
        return ("b", val["v"])
    if k == "n":
        return ("n", tuple(val["v"]["r"]), tuple(val["v"]["i"]))
    if k == "s":
        return ("s", val["v"])
    if k == "o":
        t = dump_envs.get(val["id"])
        return ("s", t["str"]) if t is not None and t["kind"] == "string" else ("o", val["id"])
    if k == "v":
        if len(val["vals"]) != 1:
            return ("multi", tuple(val["vals"]))
        t = dump_envs.get(val["vals"][0])
        if t is not None and t["kind"] == "var":
            # the value is itself an object variable (a field that is an existential): follow it
            if len(t.get("dom", [])) != 1:
                return ("multi", tuple(t.get("dom", [])))
            return canon_value(dump_envs, {"k": "v", "vals": t["dom"]})
        return ("s", t["str"]) if t is not None and t["kind"] == "string" else ("o", val["vals"][0])
    return ("?",)


def derived_fields(dump):
    """var_item::get: for every object variable with one value left, each derived field variable it carries must equal
    the field of the chosen instance. Returns dict(checked=n, mismatches=[...])."""
    envs = {e["id"]: e for e in dump["envs"]}
    checked, bad = 0, []
    for e in dump["envs"]:
        if e["kind"] == "var" and e["vars"] and len(e.get("dom", [])) == 1:
            inst = envs.get(e["dom"][0])
            if inst is None:
                continue
            for f, dv in e["vars"].items():
                if f not in inst["vars"]:
                    continue
                checked += 1
                a, b = canon_value(envs, dv), canon_value(envs, inst["vars"][f])
                if a != b:
                    bad.append({"var": e["id"], "field": f, "derived": a, "instance": e["dom"][0], "field_value": b})
    return {"checked": checked, "mismatches": bad}


# ------------------------------------------------------------------------------------------------
# mutation of SOLUTIONS (the checker must not be vacuous)
# ------------------------------------------------------------------------------------------------
def mutate_solution(rng, prog, dump):
    """Yields (kind, expected failing verdicts, mutated dump). Every mutation makes the solution violate the property
    named in `expected` by construction."""
    envs = {e["id"]: e for e in dump["envs"]}
    core = envs["core"]
    out = []
    # 1. a top-level goal/fact atom is dropped from the plan
    tops = [s for s in prog["main"] if s[0] == "formula"]
    if tops:
        s = rng.choice(tops)
        v = core["vars"].get(s[2])
        if v and v["k"] == "o" and envs[v["id"]]["kind"] == "atom":
            d = copy.deepcopy(dump)
            a = next(e for e in d["envs"] if e["id"] == v["id"])
            a["sigma"] = "U"
            out.append(("deactivate_top_atom", ("top",), d))
    # 2. an explicitly given argument of a top-level formula is changed
    withargs = [s for s in tops if any(e[0] == 'num' for f, e in s[5])]
    if withargs:
        s = rng.choice(withargs)
        f, e = rng.choice([(f, e) for f, e in s[5] if e[0] == 'num'])
        v = core["vars"].get(s[2])
        if v and v["k"] == "o":
            d = copy.deepcopy(dump)
            a = next(x for x in d["envs"] if x["id"] == v["id"])
            if f in a["vars"] and a["vars"][f]["k"] == "n":
                a["vars"][f]["v"]["r"] = [a["vars"][f]["v"]["r"][0] + 7 * a["vars"][f]["v"]["r"][1], a["vars"][f]["v"]["r"][1]]
                out.append(("change_atom_argument", ("top",), d))
    # 3. unification retargeted to an atom of another value / to itself
    uni = [e for e in dump["envs"] if e["kind"] == "atom" and e["sigma"] == "F" and e.get("phi") == "T"]
    if uni:
        u = rng.choice(uni)
        d = copy.deepcopy(dump)
        a = next(x for x in d["envs"] if x["id"] == u["id"])
        for r in a["resolvers"]:
            if r["kind"] == "unify" and r["rho"] == "T":
                r["target"] = u["id"]
        out.append(("retarget_unification_to_self", ("unified",), d))
        # target made non active
        d2 = copy.deepcopy(dump)
        tgt = None
        for r in u["resolvers"]:
            if r["kind"] == "unify" and r["rho"] == "T":
                tgt = r["target"]
        if tgt:
            t = next(x for x in d2["envs"] if x["id"] == tgt)
            t["sigma"] = "U"
            out.append(("unification_target_not_active", ("unified",), d2))
    # 4. an active interval atom gets end < start
    act = [e for e in dump["envs"] if e["kind"] == "atom" and e["sigma"] == "T" and e.get("phi") == "T" and "start" in e["vars"] and "end" in e["vars"]]
    if act:
        a0 = rng.choice(act)
        d = copy.deepcopy(dump)
        a = next(x for x in d["envs"] if x["id"] == a0["id"])
        if a["vars"]["start"]["k"] == "n" and a["vars"]["end"]["k"] == "n":
            s_ = a["vars"]["start"]["v"]["r"]
            a["vars"]["end"]["v"]["r"] = [s_[0] - s_[1], s_[1]]
            a["vars"]["end"]["v"]["i"] = [0, 1]
            out.append(("interval_end_before_start", ("temporal",), d))
    # 5. the value of a numeric global that occurs in a top-level constraint is moved far away
    #    (detected only when the constraint binds it: not counted as must-detect)
    nums = [n for n, v in core["vars"].items() if v["k"] == "n" and n not in ("origin", "horizon")]
    if nums:
        n = rng.choice(nums)
        d = copy.deepcopy(dump)
        c = next(x for x in d["envs"] if x["id"] == "core")
        r = c["vars"][n]["v"]["r"]
        c["vars"][n]["v"]["r"] = [r[0] + 1000003 * r[1], r[1]]
        out.append(("shift_global_value", (), d))
    # 6. a field set by an initialiser list gets another value
    for e in dump["envs"]:
        if e["kind"] == "obj":
            cls = next((c for c in prog["classes"] if c["name"] == e["type"]), None)
            if cls and cls["ctors"] and cls["ctors"][0]["inits"]:
                f, ex = cls["ctors"][0]["inits"][0]
                if f in e["vars"] and e["vars"][f]["k"] == "n":
                    d = copy.deepcopy(dump)
                    o = next(x for x in d["envs"] if x["id"] == e["id"])
                    r = o["vars"][f]["v"]["r"]
                    o["vars"][f]["v"]["r"] = [r[0] + 13 * r[1], r[1]]
                    out.append(("change_initialised_field", ("ctors",), d))
                    break
    # 7. an instance is removed from the initial domain of an existential
    vs = [e for e in dump["envs"] if e["kind"] == "var" and len(e.get("dom0", [])) >= 2 and any(v.get("id") == e["id"] for v in core["vars"].values() if v["k"] == "v")]
    if vs:
        v0 = rng.choice(vs)
        d = copy.deepcopy(dump)
        x = next(y for y in d["envs"] if y["id"] == v0["id"])
        keep = [z for z in x["dom0"] if z not in x["dom"]] + list(x["dom"])
        removed = next((z for z in x["dom0"] if z not in x["dom"]), None)
        if removed is None and len(x["dom0"]) >= 2:
            removed = [z for z in x["dom0"] if z != x["dom"][0]][0] if x["dom"] else x["dom0"][0]
        x["dom0"] = [z for z in x["dom0"] if z != removed]
        out.append(("shrink_initial_domain", ("domains",), d))
    # 8. an object variable gets an instance of an unrelated / super type (only if one exists)
    # 9. chosen disjunct flag cleared
    ch = [i for i, r in enumerate(dump["recs"]) if r["kind"] == 1 and r["ni"] == "T"]
    if ch:
        i = rng.choice(ch)
        d = copy.deepcopy(dump)
        d["recs"][i]["ni"] = "F"
        out.append(("unchoose_disjunct", (), d))   # detected unless another disjunct is also chosen
    return out


# ------------------------------------------------------------------------------------------------
def solve_one(hexe, text, timeout):
    """text: the RIDDLE source, or a list of sources read incrementally (each after a solve())."""
    paths = []
    args = []
    for t in ([text] if isinstance(text, str) else text):
        if t == "-pop":          # incremental use: pop to root level before the next read
            args.append(t)
            continue
        with tempfile.NamedTemporaryFile("w", suffix=".rddl", delete=False, dir=os.path.join(vlib.BUILD, "plan_tmp")) as f:
            f.write(t)
            paths.append(f.name)
            args.append(f.name)
    t0 = time.time()
    r = vlib.run([hexe] + args, timeout=timeout)
    dt = time.time() - t0
    for p in paths:
        os.remove(p)
    if r.timed_out:
        return {"status": "timeout"}, dt
    if r.rc != 0 or not r.out.strip():
        return {"status": "crash", "what": "rc=%s %s" % (r.rc, (r.err or "")[-300:])}, dt
    try:
        return json.loads(r.out), dt
    except ValueError as e:
        return {"status": "crash", "what": "bad json: %s" % e}, dt


def corpus_cases():
    out = []
    for p in PROPS:
        for f in sorted(glob.glob(os.path.join(vlib.VERIF, "corpus", p, "*.json"))):
            c = json.load(open(f), object_hook=A.json_hook)
            out.append((os.path.basename(f), c))
    return out


def plan(tier):
    if tier == "thorough":
        return {"configs": ["default", "h_add", "check_inc", "debug"], "per_family": {"cn": 150, "oo": 150, "pl": 150, "tl": 150, "po": 100}, "timeout": 10}
    return {"configs": ["default"], "per_family": {"cn": 90, "oo": 90, "pl": 90, "tl": 90, "po": 60}, "timeout": 5}


def shared_run(seed, tier, log=print):
    """Returns the result dict (from cache when available)."""
    os.makedirs(os.path.join(vlib.BUILD, "plan_tmp"), exist_ok=True)
    cdir = os.path.join(vlib.BUILD, "plan_cache")
    os.makedirs(cdir, exist_ok=True)
    with vlib.Lock("plan_run"):
        res = {"seed": seed, "tier": tier}
        try:
            text, changed, differs = regenerate()
            res["init"] = {"ok": True, "changed": changed, "differs_from_reference": differs, "init_string": vlib.init_string("LA")}
        except (plan_init.InitError, RuntimeError) as e:
            res["init"] = {"ok": False, "error": str(e)}
        key = vlib.sha(str(seed), tier, repo_hash(), tools_hash(), json.dumps(res["init"], sort_keys=True))
        cpath = os.path.join(cdir, key + ".json")
        if os.path.exists(cpath):
            r = json.load(open(cpath), object_hook=A.json_hook)
            r["from_cache"] = True
            return r
        t0 = time.time()
        pl = plan(tier)
        res.update(problems=[], builds={}, t_build=0.0)
        oexe, olog = build_oracle()
        res["builds"]["oracle"] = bool(oexe)
        if not oexe:
            res["oracle_log"] = olog[-3000:]
        hexes = {}
        for c in pl["configs"]:
            hexe, hlog = build_harness(c)
            hexes[c] = hexe
            res["builds"]["harness_" + c] = bool(hexe)
            if not hexe:
                res["harness_log"] = hlog[-3000:]
        res["t_build"] = round(time.time() - t0, 1)
        log("builds: %s (%.1fs)" % (res["builds"], res["t_build"]))
        if not oexe or not all(hexes.values()):
            json.dump(res, open(cpath, "w"), default=A.json_default)
            return res
        rng = random.Random(seed * 7919 + (1 if tier == "thorough" else 0))
        cases = []
        case_expect = {}
        for name, c in corpus_cases():
            cases.append(("corpus:" + name, c["program"], c.get("text") or A.pp_program(c["program"]), {}, c.get("family", "corpus")))
            if c.get("expect"):
                case_expect["corpus:" + name] = c["expect"]
        for fam, n in pl["per_family"].items():
            for k in range(n):
                prog, text, feats = plan_gen.generate(rng, fam)
                cases.append(("%s-%d" % (fam, k), prog, text, feats, fam))
        for k, (prog, text) in enumerate(plan_gen.directed_temporal()):
            cases.append(("tl-directed-%d" % k, prog, text, {"directed_temporal": 1}, "tl_directed"))
        for fam, gen in (("bd", plan_gen.directed_boundary), ("hier", plan_gen.directed_hierarchy), ("chain", plan_gen.directed_chain),
                         ("narrow", plan_gen.directed_narrowing), ("both", plan_gen.directed_both), ("enums", plan_gen.directed_enums), ("assign", plan_gen.directed_assign)):
            for k, (prog, text) in enumerate(gen()):
                cases.append(("%s-%d" % (fam, k), prog, text, {"directed_" + fam: 1}, fam))
        for k, (prog, text, exp) in enumerate(plan_gen.directed_varfields()):
            cases.append(("varfield-%d" % k, prog, text, {"directed_varfield": 1}, "varfield"))
            case_expect["varfield-%d" % k] = exp
        for fam, gen in (("shadow", plan_gen.directed_shadowing), ("smartboth", plan_gen.directed_smart_both), ("fwd", plan_gen.directed_forward), ("samename", plan_gen.directed_same_name),
                         ("reopen", plan_gen.directed_reopen)):
            for k, (prog, text, exp) in enumerate(gen()):
                cases.append(("%s-%d" % (fam, k), prog, text, {"directed_" + fam: 1}, fam))
                case_expect["%s-%d" % (fam, k)] = exp
        case_timeout = {}
        for k, (prog, text, tmo) in enumerate(plan_gen.directed_rings()):
            cases.append(("rings-%d" % k, prog, text, {"directed_rings": 1}, "rings"))
            case_timeout["rings-%d" % k] = tmo
        for k, (prog, texts) in enumerate(plan_gen.directed_incremental()):
            cases.append(("incr-%d" % k, prog, texts, {"incremental": 1}, "incr"))
        mut_rng = random.Random(seed + 17)
        t_solve = t_check = 0.0
        for (name, prog, text, feats, fam) in cases:
            for c in pl["configs"]:
                dump, dt = solve_one(hexes[c], text, min(pl["timeout"], case_timeout.get(name, pl["timeout"])))
                t_solve += dt
                rec = {"name": name, "family": fam, "config": c, "feats": feats, "status": dump["status"], "what": dump.get("what", ""), "secs": round(dt, 3)}
                if name in case_expect:
                    rec["expect"] = case_expect[name]      # satisfiable / unsatisfiable by construction
                    if dump["status"] != "solved":
                        rec["text"] = text
                if dump["status"] == "solved":
                    t1 = time.time()
                    try:
                        v, info = judge(oexe, prog, dump)
                    except Exception as e:   # noqa
                        v, info = {"error": "conversion failed: %r" % (e,)}, None
                    rec["verdict"] = {k: v.get(k) for k in ("top", "rules", "goals", "unified", "acyclic", "temporal", "ctors", "argtypes", "domains", "solution",
                                                              "rank_by_positions", "graph_acyclic", "error", "conv_unknown", "factrules_mismatch", "factrules_missing", "derived", "positions_model", "n_var_recs")}
                    rec["fail"] = v.get("fail", [])
                    rec["n_init_main"] = v.get("n_init_main", 0)
                    rec["n_atoms"] = sum(1 for e in dump["envs"] if e["kind"] == "atom")
                    rec["n_active"] = sum(1 for e in dump["envs"] if e["kind"] == "atom" and e["sigma"] == "T")
                    rec["n_unified"] = sum(1 for e in dump["envs"] if e["kind"] == "atom" and e["sigma"] == "F")
                    # atoms whose flaw is active (phi true: the atom is in the plan) but whose sigma is undefined: neither activated nor unified
                    rec["undefined_in_plan"] = [e["id"] for e in dump["envs"] if e["kind"] == "atom" and e.get("phi") == "T" and e["sigma"] == "U"]
                    rec["n_flaws_left"] = dump.get("n_flaws_left", 0)      # solver::solve returns true only with an empty set of open flaws
                    rec["n_objs"] = sum(1 for e in dump["envs"] if e["kind"] == "obj")
                    rec["n_edges"] = len(v.get("edges", []))
                    rec["n_disj_chosen"] = sum(1 for r in dump["recs"] if r["kind"] == 1 and r["ni"] == "T")
                    rec["n_interval_active"] = sum(1 for e in dump["envs"] if e["kind"] == "atom" and e["sigma"] == "T" and "start" in e["vars"])
                    rec["n_vars_multi"] = sum(1 for e in dump["envs"] if e["kind"] == "var" and len(e.get("dom0", [])) > 1)
                    ok_all = v.get("solution") is True and not rec["n_flaws_left"] and not (v.get("derived") or {}).get("mismatches") and not v.get("factrules_mismatch") and not v.get("factrules_missing") and not (v.get("positions_model") or {}).get("violations")
                    if not ok_all or fam == "corpus":
                        rec["text"] = text
                        rec["program"] = prog
                        if not ok_all:
                            rec["dump_excerpt"] = excerpt(dump, v, info)
                    # solution mutations on accepted solutions of the default configuration
                    if ok_all and c == pl["configs"][0]:
                        muts = []
                        for kind, expected, d2 in mutate_solution(mut_rng, prog, dump):
                            try:
                                v2, _ = judge(oexe, prog, d2)
                                rejected = v2.get("solution") is not True
                                hit = all(v2.get(x) is False for x in expected)
                            except Exception as e:   # noqa
                                rejected, hit = True, False
                            muts.append({"kind": kind, "expected": list(expected), "rejected": rejected, "expected_verdicts_failed": hit})
                        rec["solution_mutations"] = muts
                    t_check += time.time() - t1
                else:
                    if dump["status"] in ("crash", "timeout", "exception"):
                        rec["text"] = text
                res["problems"].append(rec)
        res["t_solve"] = round(t_solve, 1)
        res["t_check"] = round(t_check, 1)
        res["wall"] = round(time.time() - t0, 1)
        json.dump(res, open(cpath, "w"), default=A.json_default)
        return res


def excerpt(dump, v, info):
    """Readable part of a rejected solution for the replay file."""
    out = {"fail": v.get("fail"), "core": {}, "atoms": []}
    envs = {e["id"]: e for e in dump["envs"]}

    def show(val):
        if val["k"] == "n":
            r, i = val["v"]["r"], val["v"]["i"]
            return "%d/%d%s" % (r[0], r[1], (" + %d/%d eps" % (i[0], i[1])) if i[0] else "")
        if val["k"] == "b":
            return val["v"]
        if val["k"] == "v":
            return "var->" + ",".join(val["vals"])
        return val.get("id") or val.get("v")
    for n, val in envs["core"]["vars"].items():
        out["core"][n] = show(val)
    for e in dump["envs"]:
        if e["kind"] == "atom":
            out["atoms"].append({"id": e["id"], "pred": e["type"], "sigma": e["sigma"], "phi": e.get("phi"), "fact": e.get("is_fact"),
                                 "vars": {n: show(val) for n, val in e["vars"].items()}})
        elif e["kind"] in ("obj", "var"):
            out.setdefault("objects", []).append({"id": e["id"], "type": e.get("type"), "seq": e.get("seq"), "dom0": e.get("dom0"),
                                                  "vars": {n: show(val) for n, val in e["vars"].items()}})
    if info is not None:
        inv = {v2: k for k, v2 in info["interner"].tab.items()}
        out["names"] = {str(t[1]): inv[t[1]] for t in v.get("fail", []) if t[1] in inv}
    return out


if __name__ == "__main__":
    r = shared_run(int(os.environ.get("VERIF_SEED", "1")), sys.argv[1] if len(sys.argv) > 1 else "quick")
    st = {}
    for p in r["problems"]:
        st[(p["family"], p["status"])] = st.get((p["family"], p["status"]), 0) + 1
    print(st, r.get("wall"), r.get("from_cache"))
    for p in r["problems"]:
        if p["status"] == "solved" and p["verdict"].get("solution") is not True:
            print(p["name"], p["verdict"], p["fail"])
