"""Shared helpers of the C07 / C08 checks: building the sat_core oracle (extracted model + RUP checker) and the
harnesses, parsing the state lines, and the K2 judgement of an implementation trace (the property's own predicates
evaluated on what the real sat_core did)."""
import itertools
import os

import vlib

EXTRACT_V = ("From Coq Require Import Extraction ExtrOcamlBasic.\n"
             "From ORatio Require Import smt.SatCoreBase smt.SatCore smt.Rup.\n"
             "Extraction Language OCaml.\nSet Extraction Optimize.\n"
             "Extraction \"sat_model.ml\" p_init p_step p_pre p_dead_after q_init q_step q_pre q_dead_after q_declare q_ext_conflict "
             "lits_of rup nogood_shape.\n")


def build_oracle():
    return vlib.ocaml_build("sat", ["smt/SatCoreBase.vo", "smt/SatCore.vo", "smt/Rup.vo"], EXTRACT_V, [("sat_main.ml", None)])


def build_h_sat(asserts=False):
    """asserts=False: -DNDEBUG as in the pinned RelWithDebInfo build (the behaviour the model mirrors);
    asserts=True: the same harness with the C++ asserts alive (documented preconditions / internal invariants)."""
    return vlib.cxx_build("h_sat_dbg" if asserts else "h_sat", "h_sat.cpp",
                          ["smt/sat_core.cpp", "smt/clause.cpp", "smt/constr.cpp", "smt/theory.cpp", "smt/json/json.cpp"],
                          vlib.SMT_INC, defines=() if asserts else ("NDEBUG",))


def build_h_net():
    return vlib.cxx_build("h_net", "h_net.cpp", vlib.SMT_SRC, vlib.SMT_INC)


def run_lines(exe, lines, args=(), timeout=600):
    r = vlib.run([exe] + list(args), stdin="\n".join(lines) + "\n", timeout=timeout)
    out = r.out.split("\n") if r.out else []
    if out and out[-1] == "":
        out.pop()
    return r, out


def parse_state(line):
    d = {}
    for tok in line.split(" "):
        if "=" in tok:
            k, v = tok.split("=", 1)
            d[k] = v
        elif tok:
            d[tok] = True
    return d


def ints(s):
    return [int(x) for x in s.split(",")] if s else []


def parse_hooks(s):
    out = []
    if not s:
        return out
    for h in s.split("|"):
        k, ls = h.split(":", 1)
        out.append((int(k), ints(ls)))
    return out


# ------------------------------------------------------------------------------------------------
# propositional helpers on lit indexes
# ------------------------------------------------------------------------------------------------
def lit_val(vals, l):
    """vals: string over T/F/U indexed by variable"""
    v = vals[l >> 1]
    if v == "U":
        return "U"
    return "T" if (v == "T") == bool(l & 1) else "F"


def clause_sat(vals, c):
    return any(lit_val(vals, l) == "T" for l in c)


def solve(clauses, nvars, assumptions=()):
    """Tiny DPLL; returns a satisfying assignment (list of bool indexed by variable; variable 0 is False) or None.
    Every returned assignment is re-checked by evaluation by the caller."""
    asg = {0: False}
    for l in assumptions:
        v, s = l >> 1, bool(l & 1)
        if asg.get(v, s) != s:
            return None
        asg[v] = s
    cls = [list(dict.fromkeys(c)) for c in clauses]

    def val(l, a):
        v = a.get(l >> 1)
        if v is None:
            return None
        return v == bool(l & 1)

    def rec(a):
        changed = True
        while changed:
            changed = False
            for c in cls:
                free, sat = [], False
                for l in c:
                    x = val(l, a)
                    if x is True:
                        sat = True
                        break
                    if x is None:
                        free.append(l)
                if sat:
                    continue
                if not free:
                    return None
                if len(free) == 1:
                    a[free[0] >> 1] = bool(free[0] & 1)
                    changed = True
        for v in range(1, nvars):
            if v not in a:
                for b in (True, False):
                    a2 = dict(a)
                    a2[v] = b
                    r = rec(a2)
                    if r is not None:
                        return r
                return None
        return a
    r = rec(dict(asg))
    if r is None:
        return None
    out = [r.get(v, False) for v in range(nvars)]
    assert all(any(out[l >> 1] == bool(l & 1) for l in c) for c in clauses), "solver self-check"
    return out


class Judge:
    """K2 judgement of one implementation trace (sequence of (command, state line)).  Collects the artefacts:
    clauses given to new_clause (kind 4), learnt clauses (kind 0), next() no-goods (kind 1), and evaluates
      learnt  : every kind-0 clause must be RUP w.r.t. the clauses before it (queued for the extracted checker)
      nogood  : every kind-1 clause must be exactly the negated decisions standing before the call, last first
      full    : on a quiescent full assignment (rc=1, queue empty, no U) every clause added so far is satisfied
      root0   : rc=0 from c / p / a / s at root level (no next() no-good recorded so far) => clauses unsatisfiable
      check0  : rc=0 from k => clauses + decisions + lits unsatisfiable or refuted by unit propagation
      values  : every assigned literal is entailed by clauses + no-goods + standing decisions (sampled, by DPLL)
    With the probe theory (commands tc / tx) the declared theory clauses T are axioms next to F (they enter the RUP stream as
    axioms when they are declared, and every DPLL query), and in addition
      theory  : every clause reported by hook kinds 2 / 3 (theory lemma / theory conflict) is a declared theory clause
      quiet   : after an operation that answered true with an empty queue no clause of F, N, T has all its literals false
                (the "if" direction of `false iff inconsistent` that propagation + check() owe: a clause was added, its
                literals are all false, yet the network says consistent)
      rootfact: a literal assigned at decision level 0 keeps its value for the rest of the history
      tx0     : tx answering false => F + N + T unsatisfiable (it can only answer false with no decision standing)
    """

    def __init__(self, max_solve_vars=20):
        self.F = []            # clauses added (kind 4), in order
        self.N = []            # next() no-goods
        self.T = []            # declared theory clauses (probe theory)
        self.root_facts = {}   # variable -> value, once seen assigned at level 0
        self.rup_lines = ["reset", "F 0"]   # stream for the RUP oracle; "F 0" = the unit clause [TRUE_lit]: variable 0 is false
        self.rup_meta = []     # (line index, description) of every L line
        self.problems = []     # (signature, detail dict)
        self.prev = None
        self.decs = []         # the standing decisions as the judge derives them from the commands and the level (not from the implementation's own list)
        self.max_solve_vars = max_solve_vars
        self.stats = dict(learnt=0, nogoods=0, full_assignments=0, root_false=0, check_false=0, entail_checks=0,
                          theory_clauses=0, theory_conflicts=0, theory_lemmas=0, external_conflicts=0, external_conflicts_above_their_level=0,
                          external_conflicts_all_root=0, quiet_checks=0)

    def step(self, cmd, line, opno):
        st = parse_state(line)
        prev = self.prev
        self.prev = st
        if cmd == "reset":
            self.__init__(self.max_solve_vars)
            self.prev = st
            return
        if st.get("rc") == "skip":
            self.prev = prev if prev is not None else st
            return
        nv = len(st["vals"])
        decs_before = list(self.decs)
        op0 = cmd.split(" ")[0]
        if op0 == "a":
            self.decs.append(int(cmd.split(" ")[1]))
        try:
            del self.decs[int(st["lvl"]):]       # pops and backjumps drop decisions from the top
        except (KeyError, ValueError):
            pass
        if op0 in ("tc", "tx"):
            nums = [int(x) for x in cmd.split(" ")[1:]]
            cl = nums if op0 == "tx" else nums[1:]
            self.T.append(cl)
            self.stats["theory_clauses"] += 1
            self.rup_lines.append("N " + " ".join(map(str, cl)))
            if op0 == "tx" and prev is not None:
                self.stats["external_conflicts"] += 1
                lev = ints(prev.get("lev", ""))
                hi = max([lev[l >> 1] for l in cl if (l >> 1) < len(lev)] or [0])
                if hi < int(prev.get("lvl", 0)):
                    self.stats["external_conflicts_above_their_level"] += 1
                    if hi == 0:
                        self.stats["external_conflicts_all_root"] += 1
        if ints(st.get("dec", "")) != self.decs and op0 in ("a", "o", "n", "p", "k", "s", "c", "tx"):
            self.problems.append(("sat:decisions-list-wrong", dict(op=opno, cmd=cmd, reported=ints(st.get("dec", "")), expected=list(self.decs))))
        for kind, ls in parse_hooks(st.get("hooks", "")):
            if kind == 4:
                self.F.append(ls)
                self.rup_lines.append("F " + " ".join(map(str, ls)))
            elif kind == 0:
                self.stats["learnt"] += 1
                self.rup_meta.append((len(self.rup_lines), dict(op=opno, cmd=cmd, clause=ls)))
                self.rup_lines.append("L " + " ".join(map(str, ls)))
            elif kind == 1:
                self.stats["nogoods"] += 1
                dec = decs_before
                expect = [d ^ 1 for d in reversed(dec)]
                if ls != expect:
                    self.problems.append(("sat:next:nogood-shape", dict(op=opno, cmd=cmd, clause=ls, expected=expect, decisions=dec)))
                self.N.append(ls)
                self.rup_lines.append("N " + " ".join(map(str, ls)))
            else:
                self.stats["theory_conflicts" if kind == 3 else "theory_lemmas"] += 1
                if not any(sorted(ls) == sorted(t) for t in self.T):
                    self.problems.append(("sat:theory-clause-not-declared", dict(op=opno, cmd=cmd, kind=kind, clause=ls)))
                self.rup_lines.append("N " + " ".join(map(str, ls)))
        vals = st["vals"]
        # root facts are never retracted
        lev = ints(st.get("lev", ""))
        for v, val in self.root_facts.items():
            if v < len(vals) and vals[v] != val:
                self.problems.append(("sat:root-fact-retracted", dict(op=opno, cmd=cmd, variable=v, was=val, now=vals[v])))
                break
        for v in range(1, min(len(vals), len(lev))):
            if vals[v] != "U" and lev[v] == 0 and v not in self.root_facts:
                self.root_facts[v] = vals[v]
        rc = st.get("rc")
        op = cmd.split(" ")[0]
        if rc == "1" and st["q"] == "0" and op in ("p", "a", "n", "s", "k", "tx"):
            self.stats["quiet_checks"] += 1
            for c in self.F + self.N + self.T:
                if c and all(lit_val(vals, l) == "F" for l in c):
                    self.problems.append(("sat:true-answer-with-a-falsified-clause", dict(op=opno, cmd=cmd, clause=c, vals=vals,
                                                                                      kind="theory" if c in self.T else "clause")))
                    break
        if rc == "1" and st["q"] == "0" and "U" not in vals and op in ("p", "a", "n", "s", "tx"):
            self.stats["full_assignments"] += 1
            for c in self.F + self.T:
                if not clause_sat(vals, c):
                    self.problems.append(("sat:full-assignment-falsifies-clause", dict(op=opno, cmd=cmd, clause=c, vals=vals)))
                    break
        lvl_before = int(prev["lvl"]) if prev else 0
        if rc == "0" and op == "tx" and nv <= self.max_solve_vars:
            self.stats["root_false"] += 1
            m = solve(self.F + self.N + self.T, nv) if st["lvl"] == "0" else None
            if st["lvl"] != "0" or m is not None:
                self.problems.append(("sat:external-conflict-false-but-satisfiable", dict(op=opno, cmd=cmd, model=m, level_after=st["lvl"])))
        if rc == "0" and op in ("c", "p", "a", "s", "n") and nv <= self.max_solve_vars:
            at_root = (lvl_before == 0 and op != "a") or (op == "a" and lvl_before == 0 and st["lvl"] == "0")
            # 'false' with no decision standing afterwards (op executed at root, or assume that ended at root ... see below)
            if lvl_before == 0 and op in ("c", "p", "s"):
                self.stats["root_false"] += 1
                m = solve(self.F + self.N + self.T, nv)
                if m is not None:
                    self.problems.append(("sat:false-at-root-but-satisfiable:" + op, dict(op=opno, cmd=cmd, model=m, clauses=len(self.F), nogoods=len(self.N))))
            elif op == "a" and prev is not None:
                # assume(p) = false: clauses + no-goods + previous decisions + p is unsatisfiable (propagate returned false at
                # root, after backjumping, or p was already false)
                self.stats["root_false"] += 1
                dec = decs_before
                p = int(cmd.split(" ")[1])
                if st["lvl"] == "0":
                    m = solve(self.F + self.N + self.T, nv)
                    what = "clauses"
                else:
                    m = solve(self.F + self.N + self.T, nv, dec + [p])
                    what = "clauses+decisions+p"
                if m is not None:
                    self.problems.append(("sat:assume-false-but-satisfiable", dict(op=opno, cmd=cmd, model=m, what=what)))
        if rc == "0" and op == "k" and prev is not None and nv <= self.max_solve_vars:
            # check(lits) = false: clauses + no-goods + the decisions standing before the call + lits are unsatisfiable
            self.stats["check_false"] += 1
            dec = decs_before
            lits = [int(x) for x in cmd.split(" ")[1:]]
            m = solve(self.F + self.N + self.T, nv, dec + lits)
            if m is not None:
                self.problems.append(("sat:check-false-but-satisfiable", dict(op=opno, cmd=cmd, decisions=dec, model=m)))
        # sampled entailment of the current values (cheap: only small instances, only some states)
        if nv <= 14 and rc in ("0", "1") and op in ("p", "a", "n", "k", "tx") and (opno % 5 == 0 or op == "tx"):
            dec = list(self.decs)
            for v in range(1, nv):
                if vals[v] == "U":
                    continue
                lit_true = 2 * v + (1 if vals[v] == "T" else 0)
                self.stats["entail_checks"] += 1
                m = solve(self.F + self.N + self.T, nv, dec + [lit_true ^ 1])
                if m is not None:
                    self.problems.append(("sat:value-not-entailed", dict(op=opno, cmd=cmd, literal=lit_true, decisions=dec, model=m)))
                    break


def rup_verdicts(oracle_exe, judge):
    """Run the extracted RUP checker over the judge's clause stream; returns the list of failed learnt clauses."""
    if not judge.rup_meta:
        return []
    r, out = run_lines(oracle_exe, judge.rup_lines, args=["rup"])
    bad = []
    for idx, meta in judge.rup_meta:
        if idx >= len(out) or out[idx] != "ok":
            bad.append(meta)
    return bad
