"""C02: planted-plan problems WITH goals / facts / timelines.  Every generator returns
    {'family': str, 'text': RIDDLE, 'expect': 'S' | 'U' | None, 'members': [(transform, RIDDLE)]}
where expect='S' means: a plan exists by construction (described in 'plan'), so the planner must never reject it;
expect='U' means infeasible by construction (two goals force one variable to two values); the members are semantically
equivalent rewritings (identifiers renamed, independent statements reordered, tautologies added) that must get the
same verdict.  These are tests supporting the tie, not proofs (DESIGN.md C02)."""
from fractions import Fraction as Fr


def rl(q):
    q = Fr(q)
    if q.denominator == 1:
        return "%d.0" % q.numerator
    return "%d.0/%d.0" % (q.numerator, q.denominator)


class Plans:
    def __init__(self, rng):
        self.rng = rng

    # identifiers: a naming scheme is part of the equivalence class
    def names(self, scheme):
        if scheme == 0:
            return lambda s: s
        return lambda s: {1: "q_%s_z", 2: "%sx9"}[scheme] % s

    def taut(self, nm, var):
        r = self.rng
        return r.choice(["%s <= %s;" % (nm(var), nm(var)), "bool %s; %s | !%s;" % (nm("tt"), nm("tt"), nm("tt")),
                         "%s >= %s - 1.0;" % (nm(var), nm(var))])

    def render(self, build):
        """build(nm, order_rng, add_taut) -> text; produce the base and three members"""
        r = self.rng
        base = build(self.names(0), None, False)
        members = [("rename", build(self.names(r.choice([1, 2])), None, False)),
                   ("reorder", build(self.names(0), r, False)),
                   ("tautology", build(self.names(0), None, True))]
        return base, members

    # ---- goals forcing a global variable: feasible iff all goals agree (core/example_05) ----
    def goal_eq(self):
        r = self.rng
        k = r.randint(1, 4)
        v = Fr(r.randint(-3, 5), r.choice([1, 2]))
        feasible = r.random() < 0.6
        vals = [v] * k
        if not feasible:
            k = max(k, 2)
            vals = [v] * k
            vals[r.randrange(k)] = v + r.choice([1, Fr(1, 2), -1])
        extra = r.choice([None, "le", "ge", "both"])

        def build(nm, order, taut):
            lines = ["real %s;" % nm("n"), "predicate %s(real %s) { %s == %s; }" % (nm("P"), nm("x"), nm("x"), nm("n"))]
            goals = ["goal %s = new %s(%s:%s);" % (nm("g%d" % i), nm("P"), nm("x"), rl(vals[i])) for i in range(k)]
            cons = []
            if extra in ("le", "both"):
                cons.append("%s <= %s;" % (nm("n"), rl(v)))
            if extra in ("ge", "both"):
                cons.append("%s >= %s;" % (nm("n"), rl(v)))
            body = goals + cons
            if order:
                order.shuffle(body)
            if taut:
                body.insert(self.rng.randint(0, len(body)), self.taut(nm, "n"))
            return "\n".join(lines + body) + "\n"
        base, members = self.render(build)
        return {'family': 'goal_eq', 'text': base, 'expect': 'S' if feasible else 'U', 'members': members,
                'plan': "n = %s, every goal active" % v if feasible else "goals force n to two values"}

    # ---- goals with disjunctive rules sharing one consistent choice (core/example_07, 08) ----
    def goal_disj(self):
        r = self.rng
        k = r.randint(2, 3)
        m = r.randint(2, 3)
        common = Fr(r.randint(0, 3))
        others = [Fr(x) for x in range(4, 10)]
        rules = []
        for i in range(k):
            vals = [common] + r.sample(others, m - 1)
            r.shuffle(vals)
            rules.append(vals)

        def build(nm, order, taut):
            lines = ["real %s;" % nm("n")]
            for i in range(k):
                ds = " or ".join("{ goal %s = new %s(%s:%s); }" % (nm("p"), nm("P"), nm("x"), rl(v)) for v in rules[i])
                lines.append("predicate %s() { %s }" % (nm("P%d" % i), ds))
            lines.append("predicate %s(real %s) { %s == %s; }" % (nm("P"), nm("x"), nm("x"), nm("n")))
            body = ["goal %s = new %s();" % (nm("g%d" % i), nm("P%d" % i)) for i in range(k)]
            if order:
                order.shuffle(body)
            if taut:
                body.insert(self.rng.randint(0, len(body)), self.taut(nm, "n"))
            return "\n".join(lines + body) + "\n"
        base, members = self.render(build)
        return {'family': 'goal_disj', 'text': base, 'expect': 'S', 'members': members,
                'plan': "n = %s, every rule takes the disjunct with that value" % common}

    # ---- a state variable: k goals with minimum durations inside a horizon that just fits ----
    def state_var(self):
        r = self.rng
        k = r.randint(2, 4)
        ds = [Fr(r.randint(1, 5)) for _ in range(k)]
        slack = r.choice([0, 0, 1, 5])
        H = sum(ds) + slack
        perm = list(range(k))
        r.shuffle(perm)
        # some ordering constraints consistent with the planted sequence perm
        pairs = []
        for a in range(k - 1):
            if r.random() < 0.5:
                pairs.append((perm[a], perm[a + 1]))

        def build(nm, order, taut):
            lines = ["class %s : StateVariable {" % nm("SV")]
            for i in range(k):
                lines.append("  predicate %s() { duration >= %s; }" % (nm("A%d" % i), rl(ds[i])))
            lines.append("}")
            lines.append("%s %s = new %s();" % (nm("SV"), nm("sv"), nm("SV")))
            body = ["goal %s = new %s.%s();" % (nm("g%d" % i), nm("sv"), nm("A%d" % i)) for i in range(k)]
            if order:
                order.shuffle(body)
            cons = ["%s.end <= %s.start;" % (nm("g%d" % a), nm("g%d" % b)) for a, b in pairs]
            cons.append("horizon <= %s;" % rl(H))
            if order:
                order.shuffle(cons)
            if taut:
                cons.insert(self.rng.randint(0, len(cons)), "horizon <= horizon;")
            return "\n".join(lines + body + cons) + "\n"
        base, members = self.render(build)
        return {'family': 'state_var', 'text': base, 'expect': 'S', 'members': members,
                'plan': "atoms in sequence %s back to back from 0, horizon %s" % (perm, H)}

    # ---- a reusable resource: uses packed in groups below the capacity ----
    def reusable(self):
        r = self.rng
        cap = Fr(r.randint(4, 10))
        k = r.randint(2, 5)
        amounts = [Fr(r.randint(1, int(cap))) for _ in range(k)]
        d = Fr(r.randint(1, 4))
        # first-fit groups = planted schedule: group j occupies [j*d, (j+1)*d)
        groups = []
        for i, a in enumerate(amounts):
            for g in groups:
                if sum(amounts[j] for j in g) + a <= cap:
                    g.append(i)
                    break
            else:
                groups.append([i])
        slack = r.choice([0, 0, 2])
        H = d * len(groups) + slack

        def build(nm, order, taut):
            lines = ["ReusableResource %s = new ReusableResource(%s);" % (nm("rr"), rl(cap))]
            body = ["fact %s = new %s.Use(amount:%s, duration:%s);" % (nm("u%d" % i), nm("rr"), rl(amounts[i]), rl(d)) for i in range(k)]
            if order:
                order.shuffle(body)
            cons = ["horizon <= %s;" % rl(H)]
            if taut:
                cons.append("horizon >= horizon;")
            return "\n".join(lines + body + cons) + "\n"
        base, members = self.render(build)
        return {'family': 'reusable', 'text': base, 'expect': 'S', 'members': members,
                'plan': "groups %s one after the other, each %s long, horizon %s" % (groups, d, H)}

    # ---- a navigator alternating At / GoingTo (core/example_09) ----
    def navigator(self):
        r = self.rng
        k = r.randint(1, 2)
        targets = r.sample([1, 2, 3, 4], k)

        def build(nm, order, taut):
            lines = ["class %s : StateVariable {" % nm("Nav"),
                     "  predicate %s(real %s) { duration >= 1.0; goal %s = new %s(end:start, %s:%s); }" % (nm("At"), nm("l"), nm("going"), nm("GoingTo"), nm("to"), nm("l")),
                     "  predicate %s(real %s, real %s) { duration >= 1.0; goal %s = new %s(end:start, %s:%s); }" % (nm("GoingTo"), nm("from"), nm("to"), nm("at"), nm("At"), nm("l"), nm("from")),
                     "}",
                     "%s %s = new %s();" % (nm("Nav"), nm("nav"), nm("Nav")),
                     "fact %s = new %s.%s(start:origin, %s:0.0);" % (nm("at_0"), nm("nav"), nm("At"), nm("l")),
                     "%s.duration >= 1.0;" % nm("at_0")]
            body = ["goal %s = new %s.%s(%s:%s);" % (nm("at_%d" % t), nm("nav"), nm("At"), nm("l"), rl(t)) for t in targets]
            if order:
                order.shuffle(body)
            if taut:
                body.append("horizon >= origin;")
            return "\n".join(lines + body) + "\n"
        base, members = self.render(build)
        return {'family': 'navigator', 'text': base, 'expect': 'S', 'members': members,
                'plan': "At(0) GoingTo At(t) ... for targets %s (the pinned example core/example_09 with %d targets)" % (targets, k)}

    # ---- a disjunction one branch of which pins two atoms of a state variable onto each other: the planner has to back
    #      out of that branch (an inconsistency without any resolver: sat_core::next(), hook kind 1) ----
    def sv_choice(self):
        r = self.rng
        d = Fr(r.randint(2, 4))
        bad_first = r.random() < 0.7
        s_a = Fr(r.randint(0, 3))
        overlap = s_a + r.choice([Fr(1, 2), 1, d - 1])          # b starts inside a
        clear = s_a + d + r.choice([0, 0, 1])                  # b starts at / after the end of a (tight: exactly at the end)
        extra = r.random() < 0.5

        def build(nm, order, taut):
            lines = ["class %s : StateVariable {" % nm("SV"),
                     "  predicate %s() { duration >= %s; }" % (nm("A"), rl(d)),
                     "  predicate %s() { duration >= %s; }" % (nm("B"), rl(d)),
                     "}",
                     "%s %s = new %s();" % (nm("SV"), nm("sv"), nm("SV")),
                     "goal %s = new %s.%s();" % (nm("a"), nm("sv"), nm("A")),
                     "goal %s = new %s.%s();" % (nm("b"), nm("sv"), nm("B"))]
            bad = "{ %s.start == %s; %s.start == %s; }" % (nm("a"), rl(s_a), nm("b"), rl(overlap))
            good = "{ %s.start == %s; %s.start == %s; }" % (nm("a"), rl(s_a), nm("b"), rl(clear))
            parts = [bad, good] if bad_first else [good, bad]
            if order:
                parts.reverse()
            body = [" or ".join(parts)]
            if extra:
                body.append("%s.end <= %s;" % (nm("a"), rl(s_a + d)))
            if taut:
                body.append("horizon >= origin;")
            return "\n".join(lines + body) + "\n"
        base, members = self.render(build)
        return {'family': 'sv_choice', 'text': base, 'expect': 'S', 'members': members,
                'plan': "second kind of branch: a = [%s, %s], b starts at %s" % (s_a, s_a + d, clear)}

    # ---- two atoms one ordering of which is excluded by bounds: a deterministic inconsistency (hook kind 5) ----
    def sv_forced(self):
        r = self.rng
        k = r.randint(2, 3)
        d = Fr(r.randint(1, 3))
        starts_lo = [Fr(i) * (d - r.choice([0, Fr(1, 2)])) for i in range(k)]     # lower bounds that overlap a little
        H = d * k + r.choice([0, 1, 3])
        use_disj = r.random() < 0.5

        def build(nm, order, taut):
            lines = ["class %s : StateVariable {" % nm("SV"),
                     "  predicate %s() { duration >= %s; }" % (nm("A"), rl(d)), "}",
                     "%s %s = new %s();" % (nm("SV"), nm("sv"), nm("SV"))]
            body = ["goal %s = new %s.%s();" % (nm("g%d" % i), nm("sv"), nm("A")) for i in range(k)]
            cons = ["%s.start >= %s;" % (nm("g%d" % i), rl(starts_lo[i])) for i in range(k)]
            cons.append("%s.start <= %s;" % (nm("g0"), rl(0)))
            cons.append("horizon <= %s;" % rl(H))
            if use_disj:
                cons.append("{ %s.start >= %s; } or { %s.end <= %s; }" % (nm("g%d" % (k - 1)), rl(d * (k - 1)), nm("g%d" % (k - 1)), rl(d * (k - 1))))
            if order:
                order.shuffle(cons)
            if taut:
                cons.append("horizon >= origin;")
            return "\n".join(lines + body + cons) + "\n"
        base, members = self.render(build)
        return {'family': 'sv_forced', 'text': base, 'expect': 'S', 'members': members,
                'plan': "g_i = [i*%s, (i+1)*%s], horizon %s" % (d, d, H)}

    def any(self):
        r = self.rng
        return r.choice([self.goal_eq, self.goal_eq, self.goal_disj, self.state_var, self.state_var, self.reusable, self.navigator,
                         self.sv_choice, self.sv_choice, self.sv_forced])()


# ------------------------------------------------------------------------------------------------
# timeline problems judged by the reference procedure: the timeline semantics is ENCODED for coq/plan/RefSolve.v
#   state variable  : two atoms on the same variable never overlap        (e_i <= s_j  or  e_j <= s_i)
#   reusable resource: for every set of uses whose amounts exceed the capacity some two of them do not overlap
#                      (intervals on a line that overlap pairwise have a common point)
#   Interval atoms  : origin >= 0, origin <= horizon, start >= origin, end <= horizon, end - start = duration >= 0
# Goals of a state variable use pairwise different predicates, so that no two of them can unify; atoms of a reusable
# resource never unify (reusable_resource::new_atom forbids it).
# ------------------------------------------------------------------------------------------------
def _c(op, terms, k=0):
    return ('c', ('cmp', op, ({x: Fr(c) for x, c in terms.items()}, Fr(k))))


class Sched:
    def __init__(self, rng):
        self.rng = rng

    def user_constraints(self, names, scale):
        """random constraints over starts / ends near the boundary"""
        r = self.rng
        out = []
        for _ in range(r.choice([0, 1, 1, 2, 3])):
            a, b = r.sample(names, 2) if len(names) > 1 else (names[0], names[0])
            c = r.random()
            t = Fr(r.randint(0, int(scale)))
            if c < 0.3:
                out.append(_c('le', {a + ".end": 1, b + ".start": -1}))                     # a before b
            elif c < 0.5:
                out.append(_c(r.choice(['ge', 'gt', 'eq']), {a + ".start": 1}, -t))
            elif c < 0.7:
                out.append(_c(r.choice(['le', 'lt']), {a + ".end": 1}, -t))
            elif c < 0.85 and a != b:
                out.append(('disj', [[_c('ge', {a + ".start": 1}, -t)], [_c('le', {b + ".end": 1}, -t)]]))
            elif a != b:
                out.append(_c('ge', {a + ".start": 1, b + ".start": -1}, -Fr(r.randint(0, 3))))   # a.start >= b.start + k
        return out

    def interval_axioms(self, names, durs, exact):
        ax = [_c('ge', {'origin': 1}), _c('le', {'origin': 1, 'horizon': -1})]
        for n, d in zip(names, durs):
            ax.append(_c('ge', {n + ".start": 1, 'origin': -1}))
            ax.append(_c('le', {n + ".end": 1, 'horizon': -1}))
            ax.append(_c('eq' if exact else 'ge', {n + ".end": 1, n + ".start": -1}, -d))
        return ax

    def state_var(self):
        r = self.rng
        k = r.randint(2, 5)
        ds = [Fr(r.randint(1, 4)) for _ in range(k)]
        H = sum(ds) + r.choice([0, 0, 0, 1, -1, -1, 2])
        names = ["g%d" % i for i in range(k)]
        header = ["class SV : StateVariable {"] + ["  predicate A%d() { duration >= %s; }" % (i, rl(ds[i])) for i in range(k)] + ["}", "SV sv = new SV();"]
        kinds = [r.choice(["goal", "goal", "fact"]) for _ in range(k)]
        header += ["%s g%d = new sv.A%d();" % (kinds[i], i, i) for i in range(k)]
        user = [_c('le', {'horizon': 1}, -H)] + self.user_constraints(names, H)
        # the rule of a predicate is applied to GOALS only: a fact just gets the Interval rule (duration >= 0); its
        # minimum duration is therefore stated as an ordinary constraint of the problem
        for i in range(k):
            if kinds[i] == "fact":
                user.append(_c('ge', {names[i] + ".end": 1, names[i] + ".start": -1}, -ds[i]))
        implicit = self.interval_axioms(names, [ds[i] if kinds[i] == "goal" else Fr(0) for i in range(k)], False)
        for i in range(k):
            for j in range(i + 1, k):
                implicit.append(('c', ('or', [('cmp', 'le', ({names[i] + ".end": Fr(1), names[j] + ".start": Fr(-1)}, Fr(0))),
                                              ('cmp', 'le', ({names[j] + ".end": Fr(1), names[i] + ".start": Fr(-1)}, Fr(0)))])))
        decls = [('real', 'origin'), ('real', 'horizon')] + [('real', n + s) for n in names for s in (".start", ".end")]
        return {'family': 'sched_sv', 'header': header, 'decls': decls, 'stmts': user, 'implicit': implicit}

    def reusable(self):
        r = self.rng
        import itertools
        k = r.randint(2, 5)
        cap = Fr(r.randint(3, 8))
        am = [Fr(r.randint(1, int(cap))) for _ in range(k)]
        ds = [Fr(r.randint(1, 4)) for _ in range(k)]
        H = Fr(r.randint(int(max(ds)), int(sum(ds))))
        names = ["u%d" % i for i in range(k)]
        header = ["ReusableResource rr = new ReusableResource(%s);" % rl(cap)]
        header += ["%s u%d = new rr.Use(amount:%s, duration:%s);" % (r.choice(["fact", "fact", "goal"]), i, rl(am[i]), rl(ds[i])) for i in range(k)]
        user = [_c('le', {'horizon': 1}, -H)] + self.user_constraints(names, H)
        implicit = self.interval_axioms(names, ds, True)
        minimal = []
        for size in range(2, k + 1):
            for S in itertools.combinations(range(k), size):
                if sum(am[i] for i in S) > cap and not any(set(m) <= set(S) for m in minimal):
                    minimal.append(S)
        for S in minimal:
            alts = []
            for i in S:
                for j in S:
                    if i != j:
                        alts.append(('cmp', 'le', ({names[i] + ".end": Fr(1), names[j] + ".start": Fr(-1)}, Fr(0))))
            implicit.append(('c', ('or', alts)))
        decls = [('real', 'origin'), ('real', 'horizon')] + [('real', n + s) for n in names for s in (".start", ".end")]
        return {'family': 'sched_rr', 'header': header, 'decls': decls, 'stmts': user, 'implicit': implicit}

    def any(self):
        return self.rng.choice([self.state_var, self.state_var, self.reusable])()


# ------------------------------------------------------------------------------------------------
# goals that can only be achieved by UNIFICATION: the rule of the predicate is infeasible (`false;`) or an infinite
# regress, so a goal holds iff it unifies with a fact of the same predicate, i.e. iff all its arguments can be equal to
# the fact's.  For the reference procedure:  for every goal  OR_facts AND_args (goal.arg == fact.arg), together with the
# constraints on the argument variables; objects are enum-like constants (pairwise different).
# ------------------------------------------------------------------------------------------------
class Unify:
    def __init__(self, rng):
        self.rng = rng

    def make(self):
        """-> dict(family, lines (RIDDLE, facts before goals), lines_goal_first, decls, stmts (constraints, also printed),
        implicit (unification formulas), enums, planted model or None, twin (the same with the two roles exchanged))"""
        r = self.rng
        nargs = r.choice([1, 1, 2, 2, 3])
        kinds = [r.choice(['real', 'real', 'real', 'int', 'enum', 'obj']) for _ in range(nargs)]
        nfacts = r.choice([1, 1, 2, 3])
        ngoals = r.choice([1, 1, 1, 2])
        uid = [0]
        decls, cons, M = [], [], {}
        enums = {}
        pre = []
        if 'enum' in kinds:
            enums['Tint'] = 3
        objs = []
        if 'obj' in kinds:
            enums['Kobj'] = 3                                   # three instances k0 k1 k2, encoded as pairwise different constants
            objs = ["k0", "k1", "k2"]

        def fresh(p):
            uid[0] += 1
            return "%s%d" % (p, uid[0])

        def num_spec(kind, centre, how):
            """an argument of numeric type: ('const', c) | ('var', name) with constraints on it; returns (spec, lo, hi)"""
            isint = kind == 'int'
            w = Fr(r.randint(0, 3))
            lo, hi = centre - w, centre + w
            c = r.random()
            if how == 'const' or c < 0.3:
                return ('const', centre), centre, centre
            name = fresh('i' if isint else 'y')
            decls.append((kind, name))
            if c < 0.5:
                return ('var', name, centre), None, None         # free
            strict_lo = (not isint) and r.random() < 0.15
            strict_hi = (not isint) and r.random() < 0.15
            cons.append(_c('gt' if strict_lo else 'ge', {name: 1}, -lo))
            cons.append(_c('lt' if strict_hi else 'le', {name: 1}, -hi))
            return ('var', name, centre), lo, hi

        facts = []
        for f in range(nfacts):
            args = []
            for k in kinds:
                if k in ('real', 'int'):
                    args.append(num_spec(k, Fr(r.randint(-5, 5)), None)[0])
                elif k == 'enum':
                    if r.random() < 0.6:
                        n = fresh('e')
                        decls.append(('enum:Tint', n))
                        args.append(('var', n))
                    else:
                        args.append(('econst', r.randrange(3)))
                else:
                    if r.random() < 0.5:
                        args.append(('oconst', r.choice(objs)))
                    else:
                        n = fresh('v')
                        decls.append(('enum:Kobj', n))
                        args.append(('var', n))
            facts.append(args)
        goals = []
        for g in range(ngoals):
            # aim the goal at one of the facts: arguments near that fact's
            tgt = facts[r.randrange(nfacts)]
            args = []
            for k, ta in zip(kinds, tgt):
                if k in ('real', 'int'):
                    base = ta[1] if ta[0] == 'const' else ta[2]
                    centre = base + r.choice([0, 0, 0, 1, -1, 2, 3, -3, 4, 6, -6, 9])
                    args.append(num_spec(k, centre, None)[0])
                elif k == 'enum':
                    if r.random() < 0.5:
                        n = fresh('e')
                        decls.append(('enum:Tint', n))
                        args.append(('var', n))
                    else:
                        args.append(('econst', r.randrange(3)))
                else:
                    if r.random() < 0.6:
                        args.append(('oconst', r.choice(objs)))
                    else:
                        n = fresh('v')
                        decls.append(('enum:Kobj', n))
                        args.append(('var', n))
            goals.append(args)
        # enum constants cannot be written as literals in an expression: they become variables pinned by the facts only
        # through unification, so an 'econst' is a fresh variable that is the same in every place where that value is meant
        evals = {}
        for side in (facts, goals):
            for args in side:
                for i, a in enumerate(args):
                    if a[0] == 'econst':
                        if a[1] not in evals:
                            n = "ec%d" % a[1]
                            evals[a[1]] = n
                            decls.append(('enum:Tint', n))
                        args[i] = ('var', evals[a[1]])
        ecs = sorted(evals.values())
        for i in range(len(ecs)):
            for j in range(i + 1, len(ecs)):
                cons.append(('c', ('ene', ecs[i], ecs[j])))
        body = 'regress' if r.random() < 0.1 else 'false'
        return dict(kinds=kinds, facts=facts, goals=goals, decls=decls, cons=cons, enums=enums, objs=objs, body=body)

    # ---- rendering ----
    @staticmethod
    def arg_text(a):
        if a[0] == 'const':
            return rl(a[1])
        if a[0] == 'oconst':
            return a[1]
        return a[1]

    def render(self, d, exchanged=False, goal_first=False, force_false=False):
        kinds = d['kinds']
        tname = {'real': 'real', 'int': 'int', 'enum': 'Tint', 'obj': 'Kobj'}
        pars = ", ".join("%s a%d" % (tname[k], i) for i, k in enumerate(kinds))
        lines = []
        if 'enum' in kinds:
            lines.append('enum Tint {"t0", "t1", "t2"};')
        if 'obj' in kinds:
            lines.append("class Kobj {}")
        body = "false;" if (d['body'] == 'false' or force_false) else "goal again = new P(%s);" % ", ".join("a%d:a%d" % (i, i) for i in range(len(kinds)))
        lines.append("predicate P(%s) { %s }" % (pars, body))
        for o in d['objs']:
            lines.append("Kobj %s = new Kobj();" % o)
        for t, n in d['decls']:
            if t in ('real', 'int'):
                lines.append("%s %s;" % (t, n))
            else:
                lines.append("%s %s;" % ({'enum:Tint': 'Tint', 'enum:Kobj': 'Kobj'}[t], n))

        def atom(kind, name, args):
            def one(i, a):
                if a[0] == 'const' and kinds[i] == 'int':
                    return "a%d:%d" % (i, a[1])
                return "a%d:%s" % (i, self.arg_text(a))
            return "%s %s = new P(%s);" % (kind, name, ", ".join(one(i, a) for i, a in enumerate(args)))
        fs, gs = (d['goals'], d['facts']) if exchanged else (d['facts'], d['goals'])
        fl = [atom("fact", "f%d" % i, a) for i, a in enumerate(fs)]
        gl = [atom("goal", "g%d" % i, a) for i, a in enumerate(gs)]
        return lines, (gl + fl if goal_first else fl + gl), fs, gs

    def render_produced(self, d, producer_first, depth, in_disjunct):
        """the facts do not stand at top level: fact i is created by the rule of a goal  h<i> = new H<i>()  (depth 2: by the
        rule of a sub-goal of that rule; in_disjunct: inside both disjuncts of a disjunction of that rule).  Semantically
        the same problem (every H<i> can always be achieved), so the same reference encoding applies."""
        lines, atoms, fs, gs = self.render(d, force_false=True)
        nf = len(fs)
        fact_lines, goal_lines = atoms[:nf], atoms[nf:]
        preds, hgoals = [], []
        for i, fl in enumerate(fact_lines):
            body = fl
            if in_disjunct:
                body = "{ %s } or { %s }" % (fl, fl.replace("fact f%d" % i, "fact fz%d" % i))
            if depth == 2:
                preds.append("predicate H%db() { %s }" % (i, body))
                preds.append("predicate H%d() { goal k = new H%db(); }" % (i, i))
            else:
                preds.append("predicate H%d() { %s }" % (i, body))
            hgoals.append("goal h%d = new H%d();" % (i, i))
        k = next(j for j, l in enumerate(lines) if l.startswith("predicate P("))
        lines = lines[:k + 1] + preds + lines[k + 1:]
        return lines, (hgoals + goal_lines if producer_first else goal_lines + hgoals), fs, gs

    def reference(self, d, fs, gs):
        """(decls, implicit statements) of the reference problem for facts fs and goals gs"""
        kinds = d['kinds']
        decls = list(d['decls']) + [('enum:Kobj', o) for o in d['objs']]
        implicit = []
        for i in range(len(d['objs'])):
            for j in range(i + 1, len(d['objs'])):
                implicit.append(('c', ('ene', d['objs'][i], d['objs'][j])))

        def eq(k, a, b):
            if k in ('real', 'int'):
                terms, const = {}, Fr(0)
                for s, x in ((1, a), (-1, b)):
                    if x[0] == 'const':
                        const += s * x[1]
                    else:
                        terms[x[1]] = terms.get(x[1], Fr(0)) + s
                return ('cmp', 'eq', (terms, const))
            if a[1] == b[1]:
                return ('or', [('eeq', a[1], a[1]), ('eeq', a[1], a[1])]) if False else None
            return ('eeq', a[1], b[1])
        for g in gs:
            alts = []
            for f in fs:
                conj = [e for e in (eq(k, ga, fa) for k, ga, fa in zip(kinds, g, f)) if e is not None]
                alts.append(('and', conj) if len(conj) > 1 else conj[0] if conj else None)
            if any(a is None for a in alts):
                continue                                     # some fact is identical to the goal: trivially unifiable
            implicit.append(('c', ('or', alts) if len(alts) > 1 else alts[0]))
        return decls, implicit
