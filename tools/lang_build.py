"""C16 / C18: building the language harnesses (h_lex, h_parse, h_eval) from /repo's current sources."""
import os

import vlib

FRONT_SRC = ["riddle/*.cpp", "smt/arith/rational.cpp"]
FRONT_INC = ["riddle", "smt", "smt/arith"]
PLAN_SRC = vlib.SMT_SRC + vlib.RIDDLE_SRC + vlib.CORE_SRC + vlib.SOLVER_SRC
PLAN_INC = vlib.SMT_INC + vlib.RIDDLE_INC + vlib.CORE_INC + vlib.SOLVER_INC
PLAN_DEFS = ["LA_TN", "H_MAX", "DEFERRABLE_FLAWS", "GRAPH_PRUNING"]  # the defaults of solver/CMakeLists.txt
SAN = ("-O1", "-g", "-fsanitize=address,undefined", "-fno-sanitize-recover=all")
# the planner is built without the vptr check: core::core() passes `context(this)` to the constructor of its own base
# class env, i.e. env::ref_count is incremented before the env subobject is constructed (reported once by -fsanitize=vptr on
# EVERY run, then overwritten by env's member initialiser); everything else of UBSan stays on
SAN_PLAN = SAN + ("-fno-sanitize=vptr",)


def init_inc():
    """init.h as CMake's configure_file produces it (vlib.gen_init_h leaves the #cmakedefine lines in place), in a
    directory named after its content so that the object cache sees a change of INIT_STRING."""
    text = "#define INIT_STRING \"%s\"\n" % vlib.init_string("LA")
    d = os.path.join(vlib.BUILD, "lang_inc_" + vlib.sha(text))
    vlib.write_if_changed(os.path.join(d, "init.h"), text)
    return d


def build_lex(san=False, debug=False):
    flags = SAN if san else (("-O0", "-g") if debug else ("-O1",))
    return vlib.cxx_build("h_lex" + ("_san" if san else "_dbg" if debug else ""), "h_lex.cpp", FRONT_SRC[:0] + ["riddle/riddle_lexer.cpp", "smt/arith/rational.cpp"],
                          FRONT_INC, flags=flags)


def build_parse(san=False, debug=False):
    flags = SAN if san else (("-O0", "-g") if debug else ("-O1",))
    return vlib.cxx_build("h_parse" + ("_san" if san else "_dbg" if debug else ""), "h_parse.cpp", FRONT_SRC, FRONT_INC, flags=flags)


def build_eval(san=False, ndebug=False):
    """The whole planner. Default: -O1 with assertions ON (no -DNDEBUG); ndebug=True mirrors the pinned RelWithDebInfo build."""
    d = init_inc()
    flags = (SAN_PLAN if san else ("-O1",)) + ("-I", d)
    defs = list(PLAN_DEFS) + (["NDEBUG"] if ndebug else [])
    name = "h_eval" + ("_san" if san else "") + ("_nd" if ndebug else "")
    return vlib.cxx_build(name, "h_eval.cpp", PLAN_SRC, PLAN_INC, defines=defs, flags=flags)
