"""Model-independent judge of difference-logic traces (the K2 side of C10 / C12 and the failing-input search).

It looks only at what the IMPLEMENTATION printed (harness/h_dl.cpp): results, hook events and the dumped private state,
and evaluates the properties' own predicates with exact arithmetic:

  C10  at every quiescent state: the distance matrix is the shortest-path closure (Floyd-Warshall, recomputed here) of
       exactly the constraints whose literal is assigned (negated ones contribute the strengthened reverse edge); no
       negative cycle among them; predecessors describe shortest paths made of dist_constr entries; every undefined
       constraint is undecided by the distances; every theory lemma / conflict clause is DL-valid (the negated literals
       contain a negative cycle) and speaks about assigned literals only.
  C12  the literal returned for a relation is TRUE/FALSE only when the distances decide the relation, otherwise it stands
       for exactly the difference constraint(s) equivalent to the relation (checked symbolically and on sample points);
       bounds / distance / equates on expressions are the exact images of the variable-level intervals.
"""
import math
from fractions import Fraction

from dl_common import d_add, d_neg, d_pred, is_inf, parse_lits, parse_result, parse_state, p_rat

INFV = (math.inf, Fraction(0))
ZERO = (Fraction(0), Fraction(0))


def unit(theory):
    return (Fraction(1), Fraction(0)) if theory == "idl" else (Fraction(0), Fraction(1))


def d_sub(a, b):
    return (a[0] - b[0], a[1] - b[1])


def edge_of_lit(theory, V, l):
    v, s = l
    if v not in V:
        return None
    f, t, d = V[v]
    return (f, t, d) if s else (t, f, d_pred(theory, d))


def floyd(n, edges):
    """-> (matrix, has_negative_cycle). Distances are pairs compared lexicographically; +inf = (math.inf, 0)."""
    D = [[INFV] * n for _ in range(n)]
    for i in range(n):
        D[i][i] = ZERO
    for f, t, w in edges:
        if f < n and t < n and w < D[f][t]:
            D[f][t] = w
    for k in range(n):
        Dk = D[k]
        for i in range(n):
            dik = D[i][k]
            if dik[0] == math.inf:
                continue
            Di = D[i]
            for j in range(n):
                dkj = Dk[j]
                if dkj[0] == math.inf:
                    continue
                c = (dik[0] + dkj[0], dik[1] + dkj[1])
                if c < Di[j]:
                    Di[j] = c
    neg = any(D[i][i] < ZERO for i in range(n))
    return D, neg


def has_negative_cycle(edges):
    nodes = sorted({e[0] for e in edges} | {e[1] for e in edges})
    idx = {v: i for i, v in enumerate(nodes)}
    _, neg = floyd(len(nodes), [(idx[f], idx[t], w) for f, t, w in edges])
    return neg


class Judge:
    def __init__(self, theory, sample_rng=None):
        self.theory = theory
        self.viol = []            # (signature, detail dict)
        self.conj = {}            # ctr var -> list of conjunct literals (from the E4 clauses of sat_core::new_conj)
        self.rel_lits = {}        # constraint var -> (relation on x_a - x_b, a, b, m): the literal stands for  x_a - x_b  rel  m
        self.n_rel_network_checks = 0
        self.level = 0
        self.rng = sample_rng
        self.n_state_checks = 0
        self.n_clause_checks = 0
        self.n_rel_checks = 0
        self.n_query_checks = 0
        self.cells_checked = 0
        self.junk_cells = 0

    def report(self, sig, **detail):
        self.viol.append((self.theory + ":" + sig, detail))

    # ---------------------------------------------------------------------------------------- states
    def asserted(self, st):
        edges = []
        for v, (f, t, d) in st.V.items():
            a = st.value(v)
            if a == "T":
                edges.append((f, t, d))
            elif a == "F":
                edges.append((t, f, d_pred(self.theory, d)))
        return edges

    def judge_state(self, st, idx):
        self.n_state_checks += 1
        n = st.n
        fw, neg = floyd(n, self.asserted(st))
        if neg:
            self.report("missed-conflict", at=idx, why="the asserted constraints contain a negative cycle but no conflict was reported")
            return
        for i in range(n):
            for j in range(n):
                self.cells_checked += 1
                got, exp = st.D[i][j], fw[i][j]
                if exp[0] == math.inf:
                    if got[0] != math.inf:
                        self.report("distance-not-exact", at=idx, cell=[i, j], got=st.rawD[i][j], expected="+inf")
                        return
                    if got[1] != 0:
                        self.junk_cells += 1
                        self.report("infinite-distance-with-infinitesimal", at=idx, cell=[i, j], got=st.rawD[i][j],
                                    expected="+inf (1/0,0/1)")
                elif got != exp:
                    self.report("distance-not-exact", at=idx, cell=[i, j], got=st.rawD[i][j], expected=[str(exp[0]), str(exp[1])])
                    return
        # predecessors: every finite cell has a predecessor edge that is an entry of dist_constr, assigned, and tight
        for i in range(n):
            for j in range(n):
                if i == j or is_inf(st.D[i][j]):
                    continue
                cur, steps = j, 0
                while cur != i:
                    p = st.P[i][cur]
                    steps += 1
                    if p < 0 or p >= n or steps > n:
                        self.report("pred-walk-does-not-terminate", at=idx, cell=[i, j])
                        return
                    c = st.C.get((p, cur))
                    if c is None or c not in st.V:
                        self.report("pred-edge-without-constraint", at=idx, cell=[i, j], edge=[p, cur])
                        return
                    e = edge_of_lit(self.theory, st.V, (c, st.value(c) == "T"))
                    if st.value(c) == "U" or e is None or (e[0], e[1]) != (p, cur):
                        self.report("pred-edge-constraint-not-asserted", at=idx, cell=[i, j], edge=[p, cur], constraint=c)
                        return
                    if d_add(st.D[i][p], e[2]) != st.D[i][cur]:
                        self.report("pred-edge-not-tight", at=idx, cell=[i, cur], pred=p, constraint=c)
                        return
                    cur = p
        # every undefined constraint is undecided by the distances
        for v, (f, t, d) in st.V.items():
            if st.value(v) != "U":
                continue
            if st.D[t][f] < d_neg(d) and not is_inf(st.D[t][f]):
                self.report("propagation-missed", at=idx, constraint=v, why="distances refute it but its literal is undefined")
                return
            if st.D[f][t] <= d and not is_inf(st.D[f][t]):
                self.report("propagation-missed", at=idx, constraint=v, why="distances entail it but its literal is undefined")
                return

    # ---------------------------------------------------------------------------------------- clauses
    def judge_clause(self, kind, clause, st_after, idx, check_assigned=True):
        self.n_clause_checks += 1
        edges = []
        for l in clause:
            e = edge_of_lit(self.theory, st_after.V, (l[0], not l[1]))
            if e is None:
                self.report("lemma-mentions-non-constraint", at=idx, clause=clause)
                return
            edges.append(e)
        if not has_negative_cycle(edges):
            self.report("lemma-not-valid" if kind == 2 else "conflict-not-valid", at=idx, clause=clause,
                        why="the negated literals are jointly satisfiable (no negative cycle among them)")
            return
        if not check_assigned:
            return
        if kind == 2:
            if st_after.lit_value(clause[0]) != "T" or any(st_after.lit_value(l) != "F" for l in clause[1:]):
                self.report("lemma-literals-not-assigned", at=idx, clause=clause, values="".join(st_after.lit_value(l) for l in clause))
        else:
            if any(st_after.lit_value(l) != "F" for l in clause):
                self.report("conflict-literals-not-assigned", at=idx, clause=clause, values="".join(st_after.lit_value(l) for l in clause))

    # ---------------------------------------------------------------------------------------- relations
    @staticmethod
    def parse_lin(s):
        parts = s.split(";")
        k = Fraction(p_rat(parts[0]))
        cs = {}
        for t in parts[1:]:
            if t:
                v, c = t.split(":")
                cs[int(v)] = Fraction(p_rat(c))
        return cs, k

    @staticmethod
    def lin_sub(a, b):
        cs = dict(a[0])
        for v, c in b[0].items():
            cs[v] = cs.get(v, Fraction(0)) - c
            if cs[v] == 0:
                del cs[v]
        return cs, a[1] - b[1]

    def normal_form(self, expr):
        """expr = c*(x_a - x_b) + k  ->  (a, b, c, k) with b = 0 for one variable; None when not a difference expression;
        'int' when integer difference logic cannot represent it"""
        cs, k = expr
        vs = sorted(cs)
        if len(vs) == 1:
            a, b, c = vs[0], 0, cs[vs[0]]
        elif len(vs) == 2:
            a, b, c = vs[0], vs[1], cs[vs[0]]
            if cs[vs[1]] != -c:
                return None
        else:
            return None
        return a, b, c, k

    def expected_constraints(self, rel, a, b, c, k):
        """relation `c*(x_a - x_b) + k  rel  0` as difference constraints (from, to, bound) meaning x_to - x_from <= bound"""
        m = -k / c
        if self.theory == "idl" and m.denominator != 1:
            return "throw"
        flip = {"lt": "gt", "leq": "geq", "eq": "eq", "geq": "leq", "gt": "lt"}
        if c < 0:
            rel = flip[rel]
        m = (m, Fraction(0))
        u = unit(self.theory)
        le = (b, a, m)                       # x_a - x_b <= m
        lt = (b, a, d_sub(m, u))
        ge = (a, b, d_neg(m))                # x_b - x_a <= -m
        gt = (a, b, d_sub(d_neg(m), u))
        return {"lt": [lt], "leq": [le], "eq": [le, ge], "geq": [ge], "gt": [gt]}[rel]

    def meaning(self, l, st):
        """-> 'T' | 'F' | list of constraints (from, to, bound) | None (unknown literal)"""
        if l == (0, False):
            return "T"
        if l == (0, True):
            return "F"
        v, s = l
        if not s:
            return None
        if v in st.V:
            return [st.V[v]]
        if v in self.conj:
            out = []
            for x in self.conj[v]:
                mx = self.meaning(x, st)
                if mx is None or mx in ("T", "F"):
                    return None
                out += mx
            return out
        return None

    def judge_rel_result(self, what, expected, res, st_before, st_after, idx, inputs):
        """expected: list of constraints | 'throw' ; res: result string of the implementation"""
        self.n_rel_checks += 1
        sig = what
        if expected == "throw":
            if res != "throw":
                self.report(sig + ":accepted-outside-domain", at=idx, input=inputs, got=res)
            return
        if res == "throw":
            self.report(sig + ":rejected-valid-input", at=idx, input=inputs)
            return
        if not res.startswith("lit "):
            self.report(sig + ":bad-result", at=idx, input=inputs, got=res)
            return
        l = parse_lits(res[4:])[0]
        D = st_before.D
        refuted = [c for c in expected if (not is_inf(D[c[1]][c[0]])) and D[c[1]][c[0]] < d_neg(c[2])]
        entailed = [c for c in expected if (not is_inf(D[c[0]][c[1]])) and D[c[0]][c[1]] <= c[2]]
        m = self.meaning(l, st_after)
        if m is None:
            self.report(sig + ":unknown-literal", at=idx, input=inputs, got=res)
        elif m == "F":
            if not refuted:
                self.report(sig + ":false-but-satisfiable", at=idx, input=inputs, expected=[str(c) for c in expected])
        elif m == "T":
            if len(entailed) != len(expected):
                self.report(sig + ":true-but-not-entailed", at=idx, input=inputs, expected=[str(c) for c in expected])
        else:
            for c in m:
                if c not in expected:
                    self.report(sig + ":wrong-constraint", at=idx, input=inputs, got=[str(x) for x in m], expected=[str(c) for c in expected])
                    return
            for c in expected:
                if c not in m and c not in entailed:
                    self.report(sig + ":missing-constraint", at=idx, input=inputs, got=[str(x) for x in m], expected=[str(c) for c in expected])
                    return

    def judge_rel(self, tk, res, st_before, st_after, idx):
        rel = tk[1]
        left, right = self.parse_lin(tk[2]), self.parse_lin(tk[3])
        expr = self.lin_sub(left, right)
        what = "new_" + rel
        if not expr[0]:
            k = expr[1]
            truth = {"lt": k < 0, "leq": k <= 0, "eq": k == 0, "geq": k >= 0, "gt": k > 0}[rel]
            self.n_rel_checks += 1
            if res != ("lit -0" if truth else "lit +0"):
                self.report(what + ":constant", at=idx, input=" ".join(tk), got=res)
            return
        nf = self.normal_form(expr)
        if nf is None:
            self.judge_rel_result(what, "throw", res, st_before, st_after, idx, " ".join(tk))
            return
        a, b, c, k = nf
        exp = self.expected_constraints(rel, a, b, c, k)
        self.judge_rel_result(what + (":1var" if b == 0 and len(expr[0]) == 1 else ":2var") + (":neg" if c < 0 else ":pos"),
                              exp, res, st_before, st_after, idx, " ".join(tk))
        if exp != "throw" and res.startswith("lit "):
            self.remember_relation(rel, a, b, c, k, parse_lits(res[4:])[0], st_after)
        # the same on sample points: the relation between the two sides holds iff the constraints hold
        if exp != "throw" and self.rng is not None:
            for _ in range(6):
                x = {v: Fraction(self.rng.randint(-12, 12), 1 if self.theory == "idl" else self.rng.choice([1, 1, 2, 3])) for v in expr[0]}
                x[0] = Fraction(0)
                val = sum(cf * x[v] for v, cf in expr[0].items()) + expr[1]
                truth = {"lt": val < 0, "leq": val <= 0, "eq": val == 0, "geq": val >= 0, "gt": val > 0}[rel]
                sat = all((x[t] - x[f], Fraction(0)) <= bd for f, t, bd in exp)
                if truth != sat:
                    self.report(what + ":spec-self-check", at=idx, input=" ".join(tk), point={str(k2): str(v2) for k2, v2 in x.items()})

    # ---------------------------------------------------------------------------------------- assigned relation literals
    FLIP = {"lt": "gt", "leq": "geq", "eq": "eq", "geq": "leq", "gt": "lt"}
    NEG = {"lt": "geq", "leq": "gt", "geq": "lt", "gt": "leq"}

    def rel_edge(self, rel, a, b, m):
        """the difference constraint (from, to, bound) of  x_a - x_b  rel  m, from the semantics of the relation alone"""
        mm = (m, Fraction(0))
        u = unit(self.theory)
        return {"leq": (b, a, mm), "lt": (b, a, d_sub(mm, u)), "geq": (a, b, d_neg(mm)), "gt": (a, b, d_sub(d_neg(mm), u))}[rel]

    def remember_relation(self, rel, a, b, c, k, l, st):
        m = -k / c
        eff = self.FLIP[rel] if c < 0 else rel
        v, sg = l
        if not sg or v == 0:
            return
        parts = [("leq", self.rel_edge("leq", a, b, m)), ("geq", self.rel_edge("geq", a, b, m))] if eff == "eq" else [(eff, self.rel_edge(eff, a, b, m))]
        cands = [v] + [x[0] for x in self.conj.get(v, []) if x[1]]
        for w in cands:
            if w in st.V:
                for r2, e2 in parts:
                    if st.V[w] == e2:
                        self.rel_lits[w] = (r2, a, b, m)

    def semantic_edge(self, st, v, positive):
        """edge contributed by constraint variable v under the given polarity: for a relation literal from the exact meaning of the
        relation / of its negation (x < k false means x >= k), otherwise from the registered constraint"""
        if v in self.rel_lits:
            r2, a, b, m = self.rel_lits[v]
            return self.rel_edge(r2 if positive else self.NEG[r2], a, b, m)
        f, t, d = st.V[v]
        return (f, t, d) if positive else (t, f, d_pred(self.theory, d))

    def judge_rel_network(self, st, idx):
        """C12: with relation literals assigned (either polarity), the network is the closure of the EXACT meaning of those
        assignments: the bound pushed for a false literal is the exact negation (closed/open end), nothing more, nothing less"""
        involved = [v for v in self.rel_lits if v in st.V and st.value(v) != "U"]
        if not involved:
            return
        self.n_rel_network_checks += 1
        edges = [self.semantic_edge(st, v, st.value(v) == "T") for v in st.V if st.value(v) != "U"]
        fw, neg = floyd(st.n, edges)
        desc = {str(v): "x%d - x%d %s %s is %s" % (self.rel_lits[v][1], self.rel_lits[v][2], self.rel_lits[v][0], self.rel_lits[v][3],
                                                    "true" if st.value(v) == "T" else "false") for v in involved}
        if neg:
            self.report("relation-literal:missed-conflict", at=idx, assigned=desc,
                        why="the exact meaning of the assigned relation literals is unsatisfiable, no conflict was reported")
            return
        for i in range(st.n):
            for j in range(st.n):
                got, exp = st.D[i][j], fw[i][j]
                if (exp[0] == math.inf and got[0] == math.inf) or got == exp:
                    continue
                self.report("relation-literal:network-bound", at=idx, assigned=desc, cell=[i, j], got=st.rawD[i][j],
                            expected="+inf" if exp[0] == math.inf else [str(exp[0]), str(exp[1])],
                            why="x%d - x%d <= this bound is what the network enforces; the exact meaning of the assigned relation literals gives another bound" % (j, i))
                return

    def judge_rel_conflict(self, clause, st, idx):
        if not any(l[0] in self.rel_lits for l in clause):
            return
        edges = []
        for l in clause:
            if l[0] not in st.V:
                return
            edges.append(self.semantic_edge(st, l[0], not l[1]))
        if not has_negative_cycle(edges):
            self.report("relation-literal:conflict-although-satisfiable", at=idx, clause=clause,
                        why="the exact meaning of the literals the conflict blames is satisfiable")

    def judge_newdist(self, tk, res, st_before, st_after, idx):
        f, t = int(tk[1]), int(tk[2])
        from dl_common import p_dist
        if tk[0] == "newdist":
            exp = [(f, t, p_dist(self.theory, tk[3]))]
        else:
            exp = [(t, f, d_neg(p_dist(self.theory, tk[3]))), (f, t, p_dist(self.theory, tk[4]))]
        self.judge_rel_result("new_distance", exp, res, st_before, st_after, idx, " ".join(tk))

    # ---------------------------------------------------------------------------------------- queries
    def scale(self, x, c):
        r = x[0] * c if not is_inf(x) else (math.inf if (x[0] > 0) == (c > 0) else -math.inf)
        return (r, x[1] * c if not is_inf(x) else Fraction(0))

    def interval_of(self, st, expr):
        """exact interval of the values of expr over the solutions of the network: 'throw' | (lo, hi)"""
        cs, k = expr
        idl = self.theory == "idl"
        if not cs:
            if idl and k.denominator != 1:
                return "throw"
            return ((k, Fraction(0)), (k, Fraction(0)))
        nf = self.normal_form(expr)
        if nf is None:
            return "throw"
        a, b, c, k = nf
        if idl and (c.denominator != 1 or k.denominator != 1):
            return "throw"
        lo, hi = d_neg(st.D[a][b]), st.D[b][a]      # x_a - x_b in [-D[a][b], D[b][a]]
        if c < 0:
            lo, hi = hi, lo
        kk = (k, Fraction(0))
        lo2, hi2 = self.scale(lo, c), self.scale(hi, c)
        return (lo2 if is_inf(lo2) else d_add(lo2, kk), hi2 if is_inf(hi2) else d_add(hi2, kk))

    def parse_pair(self, res):
        from dl_common import p_dist
        _, a, b = res.split(" ")
        return p_dist(self.theory, a), p_dist(self.theory, b), a, b

    def judge_interval(self, what, exp, res, idx, inputs):
        self.n_query_checks += 1
        if exp == "throw":
            if res != "throw":
                self.report(what + ":accepted-outside-domain", at=idx, input=inputs, got=res)
            return
        if res == "throw":
            self.report(what + ":rejected-valid-input", at=idx, input=inputs)
            return
        lo, hi, ra, rb = self.parse_pair(res)
        for got, e, raw, end in ((lo, exp[0], ra, "lower"), (hi, exp[1], rb, "upper")):
            if is_inf(e):
                if got[0] != e[0]:
                    self.report("bounds(lin):infinite-end", at=idx, input=inputs, query=what, end=end, got=raw, expected=str(e[0]))
                elif got[1] != 0:
                    self.report("infinite-distance-with-infinitesimal", at=idx, input=inputs, end=end, got=raw)
            elif got != e:
                self.report(what, at=idx, input=inputs, end=end, got=raw, expected=[str(e[0]), str(e[1])])

    def judge_query(self, tk, res, st, idx):
        c = tk[0]
        inputs = " ".join(tk)
        if c == "bounds":
            v = int(tk[1])
            self.judge_interval("bounds(var)", (d_neg(st.D[v][0]), st.D[0][v]), res, idx, inputs)
        elif c == "dist":
            f, t = int(tk[1]), int(tk[2])
            self.judge_interval("distance(var,var)", (d_neg(st.D[t][f]), st.D[f][t]), res, idx, inputs)
        elif c == "boundsl":
            self.judge_interval("bounds(lin)", self.interval_of(st, self.parse_lin(tk[1])), res, idx, inputs)
        elif c == "distl":
            self.judge_interval("distance(lin,lin)", self.interval_of(st, self.lin_sub(self.parse_lin(tk[2]), self.parse_lin(tk[1]))), res, idx, inputs)
        elif c == "equates":
            self.n_query_checks += 1
            l0, l1 = self.parse_lin(tk[1]), self.parse_lin(tk[2])
            iv = "throw"
            if len(l0[0]) > 1 or len(l1[0]) > 1:
                exp = "throw"
            elif not l0[0] and not l1[0]:
                exp = l0[1] == l1[1]
                iv = "throw"
            else:
                if self.theory == "idl" and (not l0[0] or not l1[0]):
                    # the implementation evaluates bounds() of the side that has the variable: that side must be integral
                    side = l1 if not l0[0] else l0
                    iv = self.interval_of(st, side)
                    other = l0[1] if not l0[0] else l1[1]
                    exp = "throw" if iv == "throw" else (iv[0] <= (other, Fraction(0)) <= iv[1])
                else:
                    iv = self.interval_of(st, self.lin_sub(l0, l1))
                    exp = "throw" if iv == "throw" else (iv[0] <= ZERO <= iv[1])
            got = {"true": True, "false": False, "throw": "throw"}.get(res, res)
            if got != exp:
                unbounded = exp != "throw" and iv != "throw" and (is_inf(iv[0]) or is_inf(iv[1]))
                self.report("bounds(lin):infinite-end" if unbounded else "equates", at=idx, input=inputs, query="equates", got=res, expected=str(exp))

    # ---------------------------------------------------------------------------------------- traces
    def judge_trace(self, cmds, outs):
        """cmds: list of command lines of ONE history (first is `init`); outs: list of (result, state) of the implementation"""
        prev = None
        conflicted = False
        for idx, (line, (res, sline)) in enumerate(zip(cmds, outs)):
            tk = line.split()
            if tk[0] in ("init", "guard", "variants"):
                prev = parse_state(self.theory, sline) if tk[0] == "init" else prev
                continue
            st = parse_state(self.theory, sline)
            if res.startswith("?") or st is None:
                self.report("crash-or-exception", at=idx, command=line, got=res)
                return
            steps = parse_result(res)
            for r, evs in steps:
                for kind, cl in evs:
                    if kind == 4 and len(cl) == 2 and not cl[0][1]:
                        self.conj.setdefault(cl[0][0], []).append(cl[1])
                    if kind in (2, 3):
                        self.judge_clause(kind, cl, st, idx, check_assigned=not tk[0].startswith("s"))
                    if kind == 3:
                        self.judge_rel_conflict(cl, st, idx)
                if r.startswith("prop false"):
                    conflicted = True
            c = tk[0]
            if c in ("push", "assume"):
                self.level += 1
            if c == "pop" and res == "ok":
                self.level = max(0, self.level - 1)
                conflicted = False
            if c in ("sassume", "spop", "sprop", "scheck", "sclause"):
                self.level = len(st.T) - 1
                conflicted = False
                if steps[0][0].startswith("false") and self.level == 0:
                    return      # the network is inconsistent at root level: end of the history
            level = len(st.T) - 1
            if c in ("rel",) and prev is not None and not conflicted and not prev.Q:
                self.judge_rel(tk, steps[0][0], prev, st, idx)
            elif c in ("newdist", "newdist2") and prev is not None and level == 0:
                self.judge_newdist(tk, steps[0][0], prev, st, idx)
            elif c in ("bounds", "dist", "boundsl", "distl", "equates") and not conflicted and not st.Q:
                self.judge_query(tk, steps[0][0], st, idx)
            if not conflicted and not st.Q and c not in ("bounds", "dist", "boundsl", "distl", "equates", "enq"):
                # `enq` leaves an assigned literal that the theory has not seen yet: not quiescent
                pending = c == "push"
                if not pending:
                    self.judge_state(st, idx)
                    self.judge_rel_network(st, idx)
            prev = st
