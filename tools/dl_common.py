"""Shared helpers of the difference-logic checks (C10, C12): building the harness and the oracle, the line protocol,
parsing of the state dumps, running scripts on both sides and comparing them.

Protocol (harness/h_dl.cpp and oracle/dl_main.ml): one command per line, two output lines per command
(result line `result | event | event ...` with composite commands joined by ` ;; `, then a state line).

  init idl|rdl <size>          fresh sat_core + theory (constructor argument `size`)
  guard 0|1                    (oracle only) which variant of rdl propagate(from,to,dist) the model uses
  newvar | newdist f t d | newdist2 f t min max | rel lt|leq|eq|geq|gt <lin> <lin>
  bounds v | dist f t | boundsl <lin> | distl <lin> <lin> | equates <lin> <lin>
  push | enq v s | prop | pop | drain | assert v s (= enq; drain) | assume v s (= push; enq; drain)
  sclause (v s)* | sprop | sassume v s | spop | scheck (v s)*      real sat_core API (harness only)
  <lin> = k;v:c;v:c   numbers n or n/d ; idl distances: integers ; rdl distances: n/d,n/d (rational, infinitesimal)
"""
import math
import os
import re
import select
import subprocess
from fractions import Fraction

import vlib

INF_IDL = 4611686018427387902
STATE_RE = re.compile(r"n=(\d+) cap=(\d+) D=\[(.*?)\] P=\[(.*?)\] C=\{(.*?)\} V=\{(.*?)\} CS=\{(.*?)\} L=\[(.*)\] A=(\S*) Q=\[(.*?)\] T=\[(.*?)\] F=(\d+)$")

EXTRACT_V = """From Coq Require Import Extraction ExtrOcamlBasic ZArith QArith Qcanon.
From ORatio Require Import smt.DlDom smt.Dl smt.DlInst smt.DlAdapter smt.DlGuard.
Extraction Language OCaml.
Set Extraction Optimize.
Extraction "dl_model.ml" idl_init idl_step rdl_init rdl_step Q2Qc Z.div_eucl idl_gp_self.
"""


def build_harness():
    return vlib.cxx_build("h_dl", "h_dl.cpp", vlib.SMT_SRC, vlib.SMT_INC)


def build_oracle():
    return vlib.ocaml_build("dl", ["smt/DlDom.vo", "smt/Dl.vo", "smt/DlInst.vo", "smt/DlAdapter.vo", "smt/DlGuard.vo"], EXTRACT_V, [("dl_main.ml", None)])


def rdl_guard_in_source():
    """True when rdl_theory::propagate(from,to,dist) tests for an infinite distance before comparing (the repaired code)."""
    txt = open(os.path.join(vlib.REPO, "smt/arith/dl/rdl_theory.cpp")).read()
    m = re.search(r"void rdl_theory::propagate\(const var &from, const var &to, const inf_rational &dist\)(.*?)\n    }\n", txt, re.S)
    body = m.group(1) if m else txt
    return bool(re.search(r"!\s*is_infinite\(_dists\[u\]\[from\]\)", body)) and bool(re.search(r"!\s*is_infinite\(_dists\[to\]\[u\]\)", body))


def idl_saturating_in_source():
    """True when idl_theory::bounds(lin) keeps the sentinel inf() out of the arithmetic (the repaired code)."""
    txt = open(os.path.join(vlib.REPO, "smt/arith/dl/idl_theory.cpp")).read()
    m = re.search(r"idl_theory::bounds\(const lin &l\) const(.*?)\n    }\n", txt, re.S)
    body = m.group(1) if m else ""
    return bool(re.search(r"end\s*>=\s*inf\(\)", body)) and bool(re.search(r"end\s*<=\s*-\s*inf\(\)", body))


_VARIANTS = {}


def probe_variants(hexe):
    """Which of the two proved instances of the model describes the code: decided by two tiny experiments on the harness
    (robust against refactorings of the C++ text); the regular expressions above are only the fallback."""
    if hexe in _VARIANTS:
        return _VARIANTS[hexe]
    guard, sat = rdl_guard_in_source(), idl_saturating_in_source()
    try:
        outs, rc, _ = run_script(hexe, ["init rdl 3", "newvar", "newvar", "rel lt 0;1:1 0;2:1", "assert 1 1", "bounds 1",
                                        "init idl 3", "newvar", "boundsl 0;1:3"], timeout=60)
        if len(outs) == 9 and outs[5][0].startswith("pair ") and outs[8][0].startswith("pair "):
            guard = outs[5][0].split(" ")[2] == "1/0,0/1"
            sat = outs[8][0].split(" ")[2] == str(INF_IDL)
    except Exception:
        pass
    _VARIANTS[hexe] = (guard, sat)
    return guard, sat


def variants_line(hexe=None):
    if hexe:
        g, s = probe_variants(hexe)
    else:
        g, s = rdl_guard_in_source(), idl_saturating_in_source()
    return "variants %d %d" % (1 if g else 0, 1 if s else 0)


# ------------------------------------------------------------------------------------------------
# values: a distance is a pair (rational part, infinitesimal part); +inf = (math.inf, e)
# ------------------------------------------------------------------------------------------------
def p_rat(s):
    if "/" in s:
        n, d = s.split("/")
        n, d = int(n), int(d)
        if d == 0:
            return math.inf if n > 0 else -math.inf
        return Fraction(n, d)
    return Fraction(int(s))


def p_dist(theory, s):
    if theory == "idl":
        v = int(s)
        if v == INF_IDL:
            return (math.inf, Fraction(0))
        if v == -INF_IDL:
            return (-math.inf, Fraction(0))
        return (Fraction(v), Fraction(0))
    a, b = s.split(",")
    return (p_rat(a), p_rat(b))


def d_add(a, b):
    return (a[0] + b[0], a[1] + b[1])


def d_neg(a):
    return (-a[0], -a[1])


def d_pred(theory, d):
    """bound of the reverse edge of a negated constraint"""
    if theory == "idl":
        return (-d[0] - 1, Fraction(0))
    return (-d[0], -d[1] - 1)


def is_inf(a):
    return a[0] in (math.inf, -math.inf)


def fmt_rat(x):
    if x == math.inf:
        return "1/0"
    if x == -math.inf:
        return "-1/0"
    x = Fraction(x)
    return "%d/%d" % (x.numerator, x.denominator)


def fmt_dist(theory, d):
    if theory == "idl":
        if d[0] == math.inf:
            return str(INF_IDL)
        if d[0] == -math.inf:
            return str(-INF_IDL)
        return str(int(d[0]))
    return fmt_rat(d[0]) + "," + fmt_rat(d[1])


class State:
    __slots__ = ("n", "cap", "D", "P", "C", "V", "CS", "L", "A", "Q", "T", "F", "raw", "rawD")

    def value(self, v):
        return self.A[v] if v < len(self.A) else "U"

    def lit_value(self, l):
        v, s = l
        a = self.value(v)
        if a == "U":
            return "U"
        return "T" if (a == "T") == s else "F"


def parse_lits(s):
    out = []
    for t in s.split(","):
        t = t.strip()
        if t:
            out.append((int(t[1:]), t[0] == "+"))
    return out


def parse_state(theory, line):
    m = STATE_RE.match(line.strip())
    if not m:
        return None
    st = State()
    st.raw = line
    st.n, st.cap = int(m.group(1)), int(m.group(2))
    st.rawD = [r.split(" ") for r in m.group(3).split(";")] if m.group(3) else []
    st.D = [[p_dist(theory, x) for x in r] for r in st.rawD]
    st.P = [[int(x) for x in r.split(" ")] for r in m.group(4).split(";")] if m.group(4) else []
    st.C = {}
    for e in m.group(5).split():
        k, v = e.split(":")
        a, b = k.split(",")
        st.C[(int(a), int(b))] = int(v)
    st.V = {}
    for e in m.group(6).split():
        v, rest = e.split(":", 1)
        f, t, d = rest.split(",", 2)
        st.V[int(v)] = (int(f), int(t), p_dist(theory, d))
    st.CS = {}
    for e in m.group(7).split():
        k, v = e.split(":")
        a, b = k.split(",")
        st.CS[(int(a), int(b))] = [int(x) for x in v.split(".")]
    st.L = m.group(8)
    st.A = m.group(9)
    st.Q = parse_lits(m.group(10))
    st.T = [[int(x) for x in lv.split(",") if x] for lv in m.group(11).split("|")]
    st.F = int(m.group(12))
    return st


def parse_result(line):
    """-> list of steps; a step = (result string, [(kind, [lits])])"""
    steps = []
    for part in line.split(" ;; "):
        fields = part.split(" | ")
        evs = []
        for e in fields[1:]:
            mm = re.match(r"E(\d+):(.*)$", e.strip())
            if mm:
                evs.append((int(mm.group(1)), parse_lits(mm.group(2))))
        steps.append((fields[0].strip(), evs))
    return steps


# ------------------------------------------------------------------------------------------------
# running
# ------------------------------------------------------------------------------------------------
class Session:
    """Interactive session with the harness (or the oracle): used by the generators, which look at the state of the
    implementation to choose the next command (which literals exist, which are undefined, ...)."""

    def __init__(self, exe):
        self.p = subprocess.Popen([exe], stdin=subprocess.PIPE, stdout=subprocess.PIPE, stderr=subprocess.DEVNULL, text=True, bufsize=1)
        self.script = []
        self.outs = []
        self.dead = False

    def cmd(self, line):
        if self.dead:
            return None, None
        self.script.append(line)
        try:
            self.p.stdin.write(line + "\n")
            self.p.stdin.flush()
            # a command answers within milliseconds; an implementation that loops (e.g. an explanation walk over cyclic
            # predecessors) is killed after 3 s and the history ends with `?hang`
            ready, _, _ = select.select([self.p.stdout], [], [], 3.0)
            if not ready:
                self.p.kill()
                self.dead = True
                self.outs.append(("?hang", ""))
                return "?hang", ""
            r = self.p.stdout.readline()
            s = self.p.stdout.readline()
        except (BrokenPipeError, OSError):
            r, s = "", ""
        if not r or not s:
            self.dead = True
            self.outs.append(("?dead", ""))
            return "?dead", ""
        r, s = r.rstrip("\n"), s.rstrip("\n")
        self.outs.append((r, s))
        return r, s

    def close(self):
        try:
            self.p.stdin.close()
        except OSError:
            pass
        try:
            self.p.wait(timeout=5)
        except subprocess.TimeoutExpired:
            self.p.kill()
        return self.p.returncode


def run_script(exe, lines, timeout=600):
    """-> (list of (result, state) pairs, return code, stderr tail)"""
    r = vlib.run([exe], stdin="\n".join(lines) + "\n", timeout=timeout)
    out = r.out.split("\n")
    pairs = []
    for i in range(0, len(out) - 1, 2):
        pairs.append((out[i], out[i + 1]))
    return pairs[:len(lines)], r.rc, r.err[-800:]


def split_histories(lines):
    """a script is a sequence of histories, each starting with `init` (an optional `guard` line before it belongs to it)"""
    hs, cur = [], []
    for l in lines:
        if l.startswith("init ") and any(x.startswith("init ") for x in cur):
            hs.append(cur)
            cur = []
        cur.append(l)
    if cur:
        hs.append(cur)
    return hs


def canon_state_for_compare(theory, s, guard_in_source):
    """The state line as compared between model and implementation. Everything is compared literally; the only
    canonicalisation: none (the model is instantiated with the guard variant found in the source)."""
    return s
