#!/usr/bin/env python3
"""Run the registered checks against the seeded breaking changes under /verif/seeded/<name>/ (patch.diff + meta.json).

For each seeded change: a scratch worktree of /repo is created under /tmp, the patch applied there, the check of the
property it breaks (and optionally others) is run FROM A COPY of /verif with ORATIO_REPO pointing at the worktree (so the
shared /verif and /repo are never disturbed), and the outcome (exit code, VIOLATION lines, wall time) is recorded in
/verif/seeded/RESULTS.json. Also runs the same check on an unpatched worktree once per property to confirm it is quiet.

usage: run_seeded.py [name ...] [--tier quick|thorough] [--also C07,C08]
"""
import json
import os
import shutil
import subprocess
import sys
import time

VERIF = os.path.dirname(os.path.dirname(os.path.abspath(__file__)))
REPO = "/repo"


def sh(cmd, **kw):
    return subprocess.run(cmd, shell=isinstance(cmd, str), stdout=subprocess.PIPE, stderr=subprocess.STDOUT, text=True, **kw)


def run_check(copy, wt, prop, tier, timeout):
    t0 = time.time()
    try:
        p = subprocess.run(["python3", "tools/verif.py", prop, tier], cwd=copy, env=dict(os.environ, ORATIO_REPO=wt),
                           stdout=subprocess.PIPE, stderr=subprocess.STDOUT, text=True, timeout=timeout)
        out, rc = p.stdout, p.returncode
    except subprocess.TimeoutExpired as e:
        out, rc = (e.stdout or b"").decode("utf8", "replace") if isinstance(e.stdout, bytes) else (e.stdout or ""), -9
    vio = [l for l in out.split("\n") if l.startswith("VIOLATION") or l.startswith("KNOWN-FINDING")]
    return {"rc": rc, "lines": vio[:6], "wall_s": round(time.time() - t0, 1), "tail": out[-600:] if rc not in (0, 1) else ""}


def main():
    args = [a for a in sys.argv[1:] if not a.startswith("--")]
    tier = "quick"
    also = []
    auto = "--auto" in sys.argv
    for i, a in enumerate(sys.argv):
        if a == "--tier":
            tier = sys.argv[i + 1]
            args = [x for x in args if x != tier]
        if a == "--also":
            also = sys.argv[i + 1].split(",")
            args = [x for x in args if x != sys.argv[i + 1]]
    sdir = os.path.join(VERIF, "seeded")
    names = args or sorted(d for d in os.listdir(sdir) if os.path.isdir(os.path.join(sdir, d)))
    resf = os.path.join(sdir, "RESULTS.json")
    for i, a in enumerate(sys.argv):
        if a == "--out":
            resf = sys.argv[i + 1]
            args = [x for x in args if x != resf]
    names = args or sorted(d for d in os.listdir(sdir) if os.path.isdir(os.path.join(sdir, d)))
    results = json.load(open(resf)) if os.path.exists(resf) else {}
    copy = "/tmp/seed_verif_%d" % os.getpid()
    sh(["rsync", "-a", "--delete", "--exclude", ".git", "--exclude", "replays", VERIF + "/", copy + "/"])
    manifest = json.load(open(os.path.join(VERIF, "MANIFEST.json")))
    claimed = {c["property_id"] for c in manifest["checks"]}
    for name in names:
        d = os.path.join(sdir, name)
        meta = json.load(open(os.path.join(d, "meta.json")))
        prop = meta["property"]
        wt = "/tmp/seed_wt_%d" % os.getpid()
        sh(["git", "-C", REPO, "worktree", "remove", "--force", wt])
        r = sh(["git", "-C", REPO, "worktree", "add", "-q", "--detach", wt, "HEAD"])
        r = sh(["git", "-C", wt, "apply", os.path.join(d, "patch.diff")])
        entry = {"property": prop, "applied": r.returncode == 0, "tier": tier, "repo_head": sh(["git", "-C", REPO, "rev-parse", "--short", "HEAD"]).stdout.strip(), "checks": {}}
        if r.returncode != 0:
            entry["apply_error"] = r.stdout[-500:]
        else:
            extra = list(also)
            if auto:
                files = " ".join(meta.get("files_changed", []))
                area = [("smt/sat_core", ["C07", "C08", "C13"]), ("smt/clause", ["C07"]), ("smt/theory", ["C07", "C08"]), ("smt/arith/dl", ["C10", "C12", "C08"]),
                        ("smt/arith/lra", ["C09", "C11", "C08", "C20"]), ("smt/ov", ["C14", "C08"]), ("smt/arith/rational", ["C15"]), ("smt/arith/lin", ["C15"]),
                        ("smt/arith/inf_rational", ["C15"]), ("smt/concurrent", ["C20"]), ("riddle/", ["C16", "C18"]), ("core/", ["C01", "C16", "C17", "C03", "C06"]),
                        ("solver/types", ["C04", "C05"]), ("solver/", ["C01", "C02", "C03", "C06"]), ("executor/", ["C19"])]
                for pat, props in area:
                    if pat in files:
                        extra += [q for q in props if q not in extra]
            for pr in [prop] + [a for a in extra if a != prop]:
                if pr not in claimed and not os.path.exists(os.path.join(copy, "tools/checks", pr.lower() + ".py")):
                    entry["checks"][pr] = {"rc": None, "note": "no check for this property yet"}
                    continue
                entry["checks"][pr] = run_check(copy, wt, pr, tier, 1800 if tier == "quick" else 5400)
                print(name, pr, entry["checks"][pr]["rc"], entry["checks"][pr]["lines"][:1], flush=True)
        entry["caught"] = any(c.get("rc") == 1 for c in entry["checks"].values())
        results[name] = entry
        sh(["git", "-C", REPO, "worktree", "remove", "--force", wt])
        json.dump(results, open(resf, "w"), indent=1)
    shutil.rmtree(copy, ignore_errors=True)
    caught = sum(1 for n in names if results[n].get("caught"))
    print("seeded changes caught: %d / %d" % (caught, len(names)))


if __name__ == "__main__":
    main()
