"""Shared comparison / judgement logic of the C04 and C05 checks.

For one harness run (see harness/h_timelines.cpp) `analyse` produces
  issues : list of (signature, detail dict)   -- detail says whether the PROPERTY is violated on the implementation's
                                                 output ("property": True) or only the model/implementation
                                                 correspondence is broken ("property": False)
  queries: list of oracle query lines (the same inputs are given to the extracted Coq model by the caller)
  stats  : counters for the evidence
The expected values computed here come from tools/tl_ref.py (independent python); the caller additionally compares
them with the extracted verified model (oracle) -- three implementations of every function must agree.
"""
from fractions import Fraction
from itertools import combinations
from math import gcd

import tl_ref as R


# ------------------------------------------------------------------------------------------------------------------
# oracle line protocol: integers only. Every query scales all its Q_delta values by the lcm of the denominators
# (positive scaling preserves the lexicographic order and commutes with +), so the model computes over Z x Z.
# ------------------------------------------------------------------------------------------------------------------
def _lcm(a, b):
    return a * b // gcd(a, b)


def scale_of(vals):
    d = 1
    for v in vals:
        d = _lcm(d, v[0].denominator)
        d = _lcm(d, v[1].denominator)
    return d


def zz(v, d):
    return "%d %d" % (int(v[0] * d), int(v[1] * d))


def q_sv(atoms):
    vals = [a.s for a in atoms] + [a.e for a in atoms]
    d = scale_of(vals)
    return "sv %d " % len(atoms) + " ".join("%d %s %s" % (a.id, zz(a.s, d), zz(a.e, d)) for a in atoms)


def q_svtl(atoms, origin, horizon):
    vals = [a.s for a in atoms] + [a.e for a in atoms] + [origin, horizon]
    d = scale_of(vals)
    return "svtl %s %s %d " % (zz(origin, d), zz(horizon, d), len(atoms)) + " ".join("%d %s %s" % (a.id, zz(a.s, d), zz(a.e, d)) for a in atoms)


def q_rr(atoms, cap, tl=None):
    vals = [a.s for a in atoms] + [a.e for a in atoms] + [a.amt for a in atoms] + [cap] + (list(tl) if tl else [])
    d = scale_of(vals)
    head = "rr %s" % zz(cap, d) if tl is None else "rrtl %s %s %s" % (zz(cap, d), zz(tl[0], d), zz(tl[1], d))
    return head + " %d " % len(atoms) + " ".join("%d %s %s %s" % (a.id, zz(a.s, d), zz(a.e, d), zz(a.amt, d)) for a in atoms), d


# expected oracle answers, rendered from the python reference -----------------------------------------------------
def exp_sv(atoms):
    return " ".join("%d,%d" % p for p in R.sv_sweep_ref(atoms)) or "-"


def exp_svtl(atoms, origin, horizon):
    return " ".join("[%s]" % ",".join(map(str, s["atoms"])) for s in R.timeline_ref(atoms, origin, horizon)) or "-"


def exp_rr(atoms, cap):
    """peaks and MCS windows as amount-index ranges are tie-independent: 'npeaks | for each peak: live ids : window sizes'"""
    out = []
    for p, lv, am, ids, distinct in R.rr_sweep_ref(atoms, cap):
        out.append("%s:%s" % (",".join(map(str, lv)), ",".join(str(len(w)) for w in am)))
    return " ".join(out) or "-"


def exp_rrtl(atoms, origin, horizon, d):
    segs = R.timeline_ref(atoms, origin, horizon, with_usage=True)
    return " ".join("[%s]%s" % (",".join(map(str, s["atoms"])), zz(s["usage"], d).replace(" ", "_")) for s in segs) or "-"


# ------------------------------------------------------------------------------------------------------------------
def choice_pairs(ch):
    """the unordered atom pairs a choice literal may be about (the literal can be shared by several pairs), or None"""
    if ch["k"] == "ord":
        return {frozenset(p) for p in ch["pairs"]}
    if ch["k"] == "plc":
        return {frozenset(p["atoms"]) for p in ch["places"]}
    return None


def inc_fits(inc, ids):
    """can the decision `inc` be the one for the atom set `ids`? every order / place choice must be about a pair inside it"""
    ids = set(ids)
    for ch in inc:
        ps = choice_pairs(ch)
        if ps is not None and not any(p <= ids for p in ps):
            return False
        if ch["k"] == "forbid" and not (set(ch["atoms"]) & ids):
            return False
    return True


def perfect_matching(n_left, adj):
    """adj[i] = right nodes compatible with left node i; returns (first unmatched left node | None, {left: right})"""
    match = {}

    def aug(i, seen):
        for j in adj[i]:
            if j in seen:
                continue
            seen.add(j)
            if j not in match or aug(match[j], seen):
                match[j] = i
                return True
        return False
    for i in range(n_left):
        if not aug(i, set()):
            return i, {}
    return None, {i: j for j, i in match.items()}


def neg(l):
    return ("-" if l[0] == "+" else "+") + l[1:]


def expected_choice_lits(ev, ids):
    """the literals get_current_incs offers for the atom set `ids` (a pair of a state variable, an MCS of a resource),
    computed from the tables the harness dumped BEFORE the call: for every pair the two ordering literals that are not
    False, then place literals that are Undefined (both tau variable) or the forbid literal that is Undefined (one tau
    variable, the other atom's instance among its values); for a single atom (resource, after commit 21e98f2) the
    forbid literal of the instance being swept is added by the caller."""
    A = {a["id"]: a for a in ev["atoms"]}
    leq = {(x[0], x[1]): (x[2], x[3]) for x in ev["leqs"]}
    out = set()
    for a, b in combinations(sorted(ids), 2):
        for x, y in ((a, b), (b, a)):
            if (x, y) in leq and leq[(x, y)][0] not in ("F", "F0"):
                out.add(leq[(x, y)][1])
        va, vb = A[a]["tau_var"], A[b]["tau_var"]
        if va and vb:
            for p in ev["plcs"]:
                if {p[0], p[1]} == {a, b} and p[3] == "U":
                    out.add(p[4])
        elif va or vb:
            v, f = (a, b) if va else (b, a)
            w = A[f]["tau"][0]
            for al in A[v].get("allows", []):
                if al[0] == w and al[1] == "U":
                    out.add(neg(al[2]))
    return out


def exact_choice_fit(ev, inc, ids, inst):
    """are the literals offered in `inc` exactly those the resolver model offers for the atom set `ids` (on instance `inst`)?"""
    exp = expected_choice_lits(ev, ids)
    if len(ids) == 1 and inst is not None:
        a = next(x for x in ev["atoms"] if x["id"] == list(ids)[0])
        if a["tau_var"]:
            for al in a.get("allows", []):
                if al[0] == inst and al[1] == "U":
                    exp.add(neg(al[2]))
    return set(ch["lit"] for ch in inc) == exp


def check_choices(ev, where, kind, incs, cands, issues, stats):
    """second matching, on the literals: every decision must offer exactly the choices of the resolver model for one of the
    conflicts the model reports. cands[j] = list of (atom ids, instance) the j-th model conflict may stand for (several when
    equal amounts leave the identity of the window open)."""
    adj = [[j for j, cs in enumerate(cands) if any(exact_choice_fit(ev, inc, ids, inst) for ids, inst in cs)] for inc in incs]
    stats["choice_lists_checked"] = stats.get("choice_lists_checked", 0) + len(incs)
    miss, _ = perfect_matching(len(incs), adj)
    if miss is not None:
        issues.append(("corr:tl:%s_choices" % kind.lower(),
                       {"property": False, "where": where, "offered": incs[miss],
                        "expected_for_the_candidates": [[sorted(ids), sorted(expected_choice_lits(ev, ids))] for cs in cands for ids, _ in cs][:12],
                        "what": "the choices offered for this conflict are not those of the resolver model (order both ways unless False, "
                                "place literals that are Undefined, forbid when exactly one tau is a variable)",
                        "state": {"atoms": ev["atoms"], "leqs": ev["leqs"], "plcs": ev["plcs"]}}))


def check_flaw_resolvers(fl, kind, issues, stats):
    """fl: the "flaws" event of one type: the resolvers compute_resolvers gave every expanded flaw, against the model:
    order both ways (when ordering literals exist), forbid when exactly one tau is a variable, else the placements;
    a resolver may be missing only if its literal is False at root level (F0)."""
    A = {a["id"]: a for a in fl["atoms"]}
    leq = {(x[0], x[1]): (x[2], x[3]) for x in fl["leqs"]}
    for f in fl["flaws"]:
        if not f["expanded"]:
            continue
        ids = f["atoms"]
        stats["flaws_checked"] = stats.get("flaws_checked", 0) + 1
        mx, mn = set(), set()
        for a, b in combinations(sorted(ids), 2):
            for x, y in ((a, b), (b, a)):
                if (x, y) in leq:
                    mx.add(("order", x, y))
                    if leq[(x, y)][0] != "F0":
                        mn.add(("order", x, y))
            va, vb = A[a]["tau_var"], A[b]["tau_var"]
            if va != vb:
                v, o = (a, b) if va else (b, a)
                mx.add(("forbid", v, A[o]["tau"][0]))
                mn.add(("forbid", v, A[o]["tau"][0]))
            else:
                for p in fl["plcs"]:
                    if {p[0], p[1]} == {a, b}:
                        mx.add(("place", p[4]))
                        if p[3] != "F0":
                            mn.add(("place", p[4]))
        got = set()
        for r in f["resolvers"]:
            if r["t"] == "order":
                got.add(("order", r["before"], r["after"]))
            elif r["t"] == "forbid":
                got.add(("forbid", r["atom"], r["inst"]))
            elif r["t"] == "place":
                got.add(("place", r["lit"]))
            else:
                got.add(("other",))
        if len(ids) == 1:
            # a single atom over the capacity (commit 21e98f2): forbid resolvers only, on instances of its tau
            ok = all(g[0] == "forbid" and g[1] == ids[0] for g in got)
        else:
            ok = mn <= got <= mx
        if not ok:
            issues.append(("corr:tl:%s_flaw_resolvers" % kind.lower(),
                           {"property": False, "flaw_atoms": ids, "resolvers": f["resolvers"], "model_at_least": sorted(map(str, mn)),
                            "model_at_most": sorted(map(str, mx)), "theorem": "resolvers_exhaustive (the flaw lost a resolver the theorem counts on) / resolvers_sound",
                            "state": {"atoms": fl["atoms"], "leqs": fl["leqs"], "plcs": fl["plcs"]}}))
            return


def check_order_literals(state, where, issues, stats):
    """the meaning the resolver model gives to an ordering literal (Order a b  <->  end(a) <= start(b), C11) against the
    values the planner holds when the sweep runs: a literal that is True / False must agree with the current values"""
    A = {a["id"]: a for a in state["atoms"]}
    for x in state.get("leqs", []):
        a, b, val = x[0], x[1], x[2]
        if val == "U" or a not in A or b not in A:
            continue
        le = R.qd(A[a]["end"]) <= R.qd(A[b]["start"])
        stats["order_literals_checked"] = stats.get("order_literals_checked", 0) + 1
        if le != (val == "T"):
            issues.append(("corr:tl:order_literal_meaning:" + state["kind"],
                           {"property": False, "where": where, "literal": x, "end_of_a": A[a]["end"], "start_of_b": A[b]["start"],
                            "what": "the literal stored in leqs[a][b] is %s but end(a) <= start(b) is %s under the current values" % (val, le)}))
            return


def check_to_check(state, where, issues, stats):
    tc = set(state["to_check"])
    for a in R.atoms_of(state):
        if a.sigma == "T":
            stats["to_check_obligations"] = stats.get("to_check_obligations", 0) + len(a.tau)
            miss = [i for i in a.tau if i not in tc]
            if miss:
                issues.append(("corr:tl:to_check_covers:" + state["kind"],
                               {"property": False, "where": where, "atom": a.id, "instances_not_in_to_check": miss,
                                "to_check": sorted(tc), "theorem": "to_check_covers"}))
                return


def analyse_sv_sweep(ev, where, issues, queries, stats):
    atoms = R.atoms_of(ev)
    tc = set(ev["to_check"])
    pi = R.per_instance(atoms, tc)
    model = []
    for i, ats in sorted(pi.items()):
        queries.append((q_sv(ats), exp_sv(ats), where + ":inst%d" % i))
        model += R.sv_sweep_ref(ats)
        # the brute-force reading of the property agrees with the sweep on what overlaps (set level)
        if sorted(set(R.sv_sweep_ref(ats))) != R.sv_overlaps_brute([a for a in ats if a.s <= a.e]) and all(a.s <= a.e for a in ats):
            issues.append(("corr:tl:sv_sweep_vs_bruteforce", {"property": False, "where": where, "inst": i}))
    stats["sv_sweeps"] = stats.get("sv_sweeps", 0) + 1
    if model:
        stats["sv_sweeps_with_overlap"] = stats.get("sv_sweeps_with_overlap", 0) + 1
    stats["sv_pairs_reported"] = stats.get("sv_pairs_reported", 0) + len(model)
    bad = None
    if ev["n_incs"] != len(model):
        bad = "number of reported (pulse, pair) decisions: implementation %d, model %d" % (ev["n_incs"], len(model))
    else:
        adj = [[j for j, m in enumerate(model) if inc_fits(inc, m)] for inc in ev["incs"]]
        miss, match = perfect_matching(len(ev["incs"]), adj)
        if miss is not None:
            bad = "the implementation's decision #%d (%s) cannot be matched to a (pulse, pair) the model reports" % (miss, [c for c in ev["incs"][miss]][:4])
        elif "leqs" in ev:
            check_choices(ev, where, "SV", ev["incs"], [[(set(m), None)] for m in model], issues, stats)
    if bad is None:
        ms = set(model)
        for k in ev["new_flaws"]:
            if tuple(sorted(k)) not in ms:
                bad = "a flaw was created for %s, not a pair the model reports" % (k,)
    if bad:
        # does the implementation's answer contradict the property's own reading? (it missed / invented an overlap)
        brute = []
        for i, ats in sorted(pi.items()):
            brute += R.sv_overlaps_brute(ats)
        cand = sorted(set(brute) | set(model))
        impl_pairs = set()
        undecided = False
        for inc in ev["incs"]:
            fit = [p for p in cand if inc_fits(inc, p)]
            if len(fit) == 1:
                impl_pairs.add(fit[0])
            else:
                undecided = True
        missed = sorted(set(brute) - impl_pairs) if not undecided and ev["n_incs"] >= 0 else []
        invented = []
        for inc in ev["incs"]:
            if inc and not any(inc_fits(inc, p) for p in brute):
                invented.append([c for c in inc][:4])
        if ev["n_incs"] == 0 and brute:
            missed = sorted(set(brute))
        issues.append(("sv:sweep" if (missed or invented) else "corr:tl:sv_sweep",
                       {"property": bool(missed or invented), "where": where, "what": bad, "model_pairs": model,
                        "overlapping_pairs_by_definition": brute, "missed_by_implementation": missed,
                        "reported_without_overlap": invented,
                        "state": {"atoms": ev["atoms"], "to_check": ev["to_check"]}, "incs": ev["incs"], "new_flaws": ev["new_flaws"]}))
    else:
        stats["sv_sweeps_agree"] = stats.get("sv_sweeps_agree", 0) + 1
    # every choice offered must be one of the resolvers of the model (order a<b, order b<a, place, forbid)
    for inc in ev["incs"]:
        for ch in inc:
            if ch["k"] == "unknown":
                issues.append(("corr:tl:sv_choice", {"property": False, "where": where, "choice": ch}))
                return


def analyse_rr_sweep(ev, where, issues, queries, stats):
    atoms = R.atoms_of(ev)
    tc = set(ev["to_check"])
    caps = [R.qd(c) for c in ev["capacity"]]
    pi = R.per_instance(atoms, tc)
    model = []      # list of (inst, live ids, amount tuple, ids or None)
    for i, ats in sorted(pi.items()):
        if i < 0 or i >= len(caps):
            continue
        ql, d = q_rr(ats, caps[i])
        queries.append((ql, exp_rr(ats, caps[i]), where + ":inst%d" % i))
        for p, lv, am, ids, distinct in R.rr_sweep_ref(ats, caps[i]):
            for w, wi in zip(am, ids):
                model.append((i, lv, w, wi if distinct else None))
        if any(a.amt < R.ZERO for a in ats):
            stats["negative_amount_seen"] = stats.get("negative_amount_seen", 0) + 1
        # peaks by definition (usage at an instant) = peaks of the sweep
        if all(a.s <= a.e for a in ats):
            sw = sorted(set(p for p, *_ in R.rr_sweep_ref(ats, caps[i])))
            if sw != R.rr_peaks_brute(ats, caps[i]) and caps[i] >= R.ZERO:
                issues.append(("corr:tl:rr_sweep_vs_bruteforce", {"property": False, "where": where, "inst": i}))
    stats["rr_sweeps"] = stats.get("rr_sweeps", 0) + 1
    if model:
        stats["rr_sweeps_with_peak"] = stats.get("rr_sweeps_with_peak", 0) + 1
    stats["rr_mcs_reported"] = stats.get("rr_mcs_reported", 0) + len(model)
    bad = None
    if ev["n_incs"] != len(model):
        bad = "number of MCS decisions: implementation %d, model %d" % (ev["n_incs"], len(model))
    else:
        # every decision of the implementation must be one MCS of the model (bipartite matching: with equal amounts
        # std::sort may order the tied atoms either way, so identities are only fixed up to ties)
        def compatible(inc, m):
            return inc_fits(inc, m[3] if m[3] is not None else m[1])
        adj = [[j for j, m in enumerate(model) if compatible(inc, m)] for inc in ev["incs"]]
        miss, match = perfect_matching(len(ev["incs"]), adj)
        if miss is not None:
            bad = "the implementation's decision #%d cannot be matched to an MCS of the model" % miss
        elif "leqs" in ev:
            amt1 = {a.id: a.amt for a in atoms}
            cands = []
            for m in model:
                if m[3] is not None:
                    cands.append([(set(m[3]), m[0])])
                else:   # equal amounts: any subset of the live atoms with the window's amounts
                    cs = [(set(c), m[0]) for c in combinations(m[1], len(m[2]))
                          if tuple(sorted((amt1[x] for x in c), reverse=True)) == tuple(m[2])]
                    cands.append(cs[:400])
            check_choices(ev, where, "RR", ev["incs"], cands, issues, stats)
    amt = {a.id: a.amt for a in atoms}
    if bad is None:
        for k in ev["new_flaws"]:
            am = tuple(sorted((amt[x] for x in k), reverse=True))
            ok = any(set(k) <= set(m[1]) and m[2] == am and (m[3] is None or set(m[3]) == set(k)) for m in model)
            if not ok:
                bad = "a flaw was created for %s (amounts %s), not an MCS of the model" % (k, [R.show(x) for x in am])
    if bad:
        # K2 on the implementation's own output: every new flaw must exceed the capacity of some instance and be live together
        prop = False
        for k in ev["new_flaws"]:
            ks = set(k)
            fine = False
            for i, ats in pi.items():
                if i < 0 or i >= len(caps):
                    continue
                for p in R.pulses_of(ats):
                    lv = set(a.id for a in ats if R.live(a, p))
                    if ks <= lv:
                        u = R.ZERO
                        for x in k:
                            u = R.qd_add(u, amt[x])
                        if u > caps[i]:
                            fine = True
            if not fine:
                prop = True
        peaks = sum(1 for _ in model)
        if (peaks == 0) != (ev["n_incs"] == 0):
            prop = True
        issues.append(("rr:sweep" if prop else "corr:tl:rr_sweep",
                       {"property": prop, "where": where, "what": bad, "model_mcs": [(m[0], m[1], [R.show(x) for x in m[2]], m[3]) for m in model],
                        "state": {"atoms": ev["atoms"], "to_check": ev["to_check"], "capacity": ev["capacity"]}, "incs": ev["incs"],
                        "new_flaws": ev["new_flaws"]}))
    else:
        stats["rr_sweeps_agree"] = stats.get("rr_sweeps_agree", 0) + 1
    for inc in ev["incs"]:
        for ch in inc:
            if ch["k"] == "unknown":
                issues.append(("corr:tl:rr_choice", {"property": False, "where": where, "choice": ch}))
                return


def analyse_final(kind, fin, t, issues, queries, stats):
    """t: one entry of final.types"""
    origin, horizon = R.qd(fin["origin"]), R.qd(fin["horizon"])
    kk = "sv" if kind == "SV" else "rr"
    # The atoms judged are NOT taken from the smart type's own registry (`atoms`, filled by new_atom) but from the harness's
    # independent enumeration: every atom of every predicate whose tau value(s) is an instance whose type derives from the
    # smart type at any depth. An atom the planner never handed to the smart type is judged like any other, and reported.
    if "all_atoms" in t:
        reg_ids = set(a["id"] for a in t["atoms"])
        seen_reg = set(a["reg"] for a in t["all_atoms"] if a["reg"] >= 0)
        if not reg_ids <= seen_reg:
            issues.append(("corr:tl:registry_atom_not_enumerated:" + kind, {"property": False, "atoms": sorted(reg_ids - seen_reg)}))
        for a in t["all_atoms"]:
            if a["sigma"] == "T" and a["tau"] and "start" not in a:
                issues.append((kk + ":atom-without-interval", {"property": True, "atom": a,
                                                               "what": "an active atom on an instance of the type has no start / end"}))
        unreg = [a for a in t["all_atoms"] if a["reg"] < 0 and a["sigma"] == "T" and a["tau"]]
        stats["atoms_enumerated_independently"] = stats.get("atoms_enumerated_independently", 0) + len(t["all_atoms"])
        stats["instances_of_derived_types"] = stats.get("instances_of_derived_types", 0) + sum(1 for x in t.get("inst_types", []) if x not in ("StateVariable", "ReusableResource"))
        if unreg:
            issues.append((kk + ":atom-not-registered",
                           {"property": True, "atoms": unreg, "instance_types": t.get("inst_types"),
                            "what": "active atoms whose tau is an instance of a (possibly indirect) subtype of the smart type were never handed to "
                                    "it (not in its `atoms`): they are not swept, get no ordering literals and do not appear in extract_timelines"}))
        if t.get("n_inst_all", 0) > t.get("n_inst_listed", 0):
            issues.append((kk + ":instance-not-registered", {"property": True, "instance_types": t.get("inst_types"), "listed": t.get("n_inst_listed"),
                                                             "what": "instances of a subtype are missing from the smart type's get_instances()"}))
        atoms = [R.Atom(a) for a in t["all_atoms"] if "start" in a]
        caps = [R.qd(c) if c is not None else None for c in t.get("capacity_all", [])]
    else:
        atoms = R.atoms_of(t)
        caps = [R.qd(c) for c in t.get("capacity", [])]
    pi = R.per_instance(atoms)
    act = [a for a in atoms if a.sigma == "T"]
    stats["solutions"] = stats.get("solutions", 0) + 1
    stats["active_atoms_in_solutions"] = stats.get("active_atoms_in_solutions", 0) + len(act)
    stats["zero_length_in_solutions"] = stats.get("zero_length_in_solutions", 0) + sum(1 for a in act if a.s == a.e)
    stats["tau_open_in_solutions"] = stats.get("tau_open_in_solutions", 0) + sum(1 for a in act if len(a.tau) > 1)
    stats["infinitesimal_in_solutions"] = stats.get("infinitesimal_in_solutions", 0) + sum(1 for a in act if a.s[1] or a.e[1])
    for a in act:
        if a.e < a.s:
            issues.append(("corr:tl:atom_not_well_formed", {"property": False, "atom": a.id, "what": "end < start on an active atom (C06's subject; the sweep theorems assume start <= end)"}))
    # --- the property itself, on the solution ---------------------------------------------------------------
    for i, ats in sorted(pi.items()):
        # the verified K2 checkers (sv_instance_ok / rr_instance_ok, extracted) on the atoms of this instance; the expected
        # answer is the brute-force reading of the property
        if all(a.s <= a.e for a in ats):
            if kind == "SV":
                queries.append((q_sv(ats).replace("sv ", "svok ", 1), "true" if not R.sv_overlaps_brute(ats) else "false", "final:checker:inst%d" % i))
            elif 0 <= i < len(caps) and caps[i] is not None and caps[i] >= R.ZERO:
                ql, _d = q_rr(ats, caps[i])
                queries.append((ql.replace("rr ", "rrok ", 1), "true" if not R.rr_peaks_brute(ats, caps[i]) else "false", "final:checker:inst%d" % i))
        touch = sum(1 for a in ats for b in ats if a.e == b.s and a.id != b.id and a.s < a.e and b.s < b.e)
        stats["touching_pairs_in_solutions"] = stats.get("touching_pairs_in_solutions", 0) + touch
        if kind == "SV":
            ov = R.sv_overlaps_brute(ats)
            if ov:
                issues.append(("sv:overlap-in-solution", {"property": True, "instance": i, "overlapping_atoms": ov,
                                                          "atoms": [{"id": a.id, "start": R.show(a.s), "end": R.show(a.e), "tau": a.tau} for a in ats]}))
        else:
            if i < 0 or i >= len(caps) or caps[i] is None:
                continue
            if caps[i] < R.ZERO:
                issues.append(("rr:negative-capacity-in-solution", {"property": True, "instance": i, "capacity": R.show(caps[i])}))
            for a in ats:
                if a.amt < R.ZERO:
                    issues.append(("rr:negative-amount-in-solution", {"property": False, "atom": a.id, "amount": R.show(a.amt)}))
            pk = R.rr_peaks_brute(ats, caps[i])
            if pk:
                issues.append(("rr:overuse-in-solution", {"property": True, "instance": i, "capacity": R.show(caps[i]),
                                                          "instants": [R.show(p) for p in pk],
                                                          "usage": [R.show(R.usage_at(ats, p)) for p in pk],
                                                          "atoms": [{"id": a.id, "start": R.show(a.s), "end": R.show(a.e), "amount": R.show(a.amt), "tau": a.tau} for a in ats]}))
            if ats and max(R.usage_at(ats, a.s) for a in ats) == caps[i]:
                stats["usage_equals_capacity_in_solutions"] = stats.get("usage_equals_capacity_in_solutions", 0) + 1
    # --- the extracted timelines ------------------------------------------------------------------------------
    seen = set()
    for tl in t["timelines"]:
        i = tl["id"]
        seen.add(i)
        ats = pi.get(i, [])
        ref = R.timeline_ref(ats, origin, horizon, with_usage=(kind == "RR"))
        got = []
        for v in tl["values"]:
            seg = {"from": R.jq(v["from"]), "to": R.jq(v["to"]), "atoms": sorted(v["atoms"])}
            if kind == "RR":
                seg["usage"] = R.jq(v["usage"])
            got.append(seg)
        stats["timeline_segments"] = stats.get("timeline_segments", 0) + len(got)
        if kind == "SV":
            queries.append((q_svtl(ats, origin, horizon), exp_svtl(ats, origin, horizon), "final:timeline:inst%d" % i))
        else:
            ql, d = q_rr(ats, caps[i], tl=(origin, horizon))
            queries.append((ql, exp_rrtl(ats, origin, horizon, d), "final:timeline:inst%d" % i))
            if R.jq(tl["capacity"]) != caps[i]:
                issues.append(("rr:timeline-capacity", {"property": True, "instance": i}))
        if got != ref:
            # property reading: a segment must show exactly the atoms covering it, and the usage must be their sum
            prop = False
            for seg in got:
                cov = sorted(a.id for a in ats if a.s <= seg["from"] and seg["from"] < a.e) if seg["from"] < seg["to"] else seg["atoms"]
                if cov != seg["atoms"]:
                    prop = True
                if kind == "RR":
                    u = R.ZERO
                    for a in ats:
                        if a.id in seg["atoms"]:
                            u = R.qd_add(u, a.amt)
                    if u != seg["usage"]:
                        prop = True
            issues.append((("sv" if kind == "SV" else "rr") + ":timeline" if prop else "corr:tl:timeline:" + kind,
                           {"property": prop, "instance": i, "implementation": [[R.show(s["from"]), R.show(s["to"]), s["atoms"]] + ([R.show(s["usage"])] if kind == "RR" else []) for s in got],
                            "model": [[R.show(s["from"]), R.show(s["to"]), s["atoms"]] + ([R.show(s["usage"])] if kind == "RR" else []) for s in ref]}))
        else:
            stats["timelines_agree"] = stats.get("timelines_agree", 0) + 1
        if kind == "SV" and any(len(s["atoms"]) > 1 for s in got):
            issues.append(("sv:timeline-shows-two-atoms", {"property": True, "instance": i}))
        if kind == "RR" and any(s["usage"] > caps[i] for s in got):
            issues.append(("rr:timeline-usage-over-capacity", {"property": True, "instance": i}))
    for i in pi:
        if i not in seen:
            shown = [a.id for a in pi[i] if a.s < a.e]
            issues.append(((kk + ":atom-not-in-timeline") if shown else ("corr:tl:timeline_missing:" + kind),
                           {"property": bool(shown), "instance": i, "active_atoms_with_positive_duration": shown,
                            "what": "extract_timelines has no timeline for an instance that hosts active atoms"}))
    # --- the sweep on the final state, with every instance forced into to_check -------------------------------------
    check_to_check(t, "final:to_check_at_return", issues, stats)
    fz = t["forced"]
    if kind == "SV":
        analyse_sv_sweep(fz, "final:forced_sweep", issues, queries, stats)
    else:
        analyse_rr_sweep(fz, "final:forced_sweep", issues, queries, stats)
    if fz["n_incs"] != 0:
        issues.append((("sv" if kind == "SV" else "rr") + ":inconsistency-left-in-solution",
                       {"property": True, "what": "get_current_incs() on the reported solution (every instance in to_check) still reports %d decisions" % fz["n_incs"],
                        "incs": fz["incs"]}))


def analyse(kind, out, max_sweeps=10 ** 9):
    """kind: 'SV' | 'RR'. Returns (issues, queries, stats, solve)."""
    sweeps, solve, final, flaws = R.parse_run(out)
    issues, queries, stats = [], [], {}
    n = 0
    for ev in sweeps:
        if ev.get("truncated"):
            stats["sweep_cut_short"] = stats.get("sweep_cut_short", 0) + 1
            stats["cut_short_state"] = ev
            continue
        if ev["kind"] != kind:
            continue
        n += 1
        if n > max_sweeps:
            break
        where = "sweep#%d(level %d)" % (ev["n"], ev["level"])
        check_to_check(ev, where, issues, stats)
        check_order_literals(ev, where, issues, stats)
        if kind == "SV":
            analyse_sv_sweep(ev, where, issues, queries, stats)
        else:
            analyse_rr_sweep(ev, where, issues, queries, stats)
    for fl in flaws:
        if fl["kind"] == kind:
            check_flaw_resolvers(fl, kind, issues, stats)
    if final is not None:
        for t in final["types"]:
            if t["kind"] == kind:
                analyse_final(kind, final, t, issues, queries, stats)
    return issues, queries, stats, solve
