"""Generator of mixed constraint networks (sat_core + LRA + IDL + RDL + OV) and of assume / pop / next / check
histories over them, for the C08 check (line protocol of harness/h_net.cpp).

A case is (cons, hist): `cons` = the construction script (starts with "reset", ends with "p"; every command that
creates something is answered with the variable / literal it returned, so the generator, which talks to a live
harness, refers to literals by number), `hist` = the history commands.  The only source of randomness is the `rng`
handed in (ctx.rng of the check).  The generation of the history is STEERED by the harness's own answers (decide
Undefined literals, pop only above root, propagate when the queue is not empty, stop when the network is dead); a few
percent of the operations ignore the state on purpose (they are then mostly answered "skip").

What the networks are aimed at (the case splits of the undo layers):
  * several atoms on the SAME LRA expression with different constants, both directions, strict and non strict
    ("ladders"), so that one bound is tightened again and again across levels, and - through the chain clauses
    loose -> tighter - several times within ONE level (first-write-wins layers);
  * several distance constraints on the same ordered pair of IDL / RDL time points with different distances, both
    directions, negative cycles possible; same chains;
  * OV variables over overlapping value sets with equalities;
  * binary implications between atoms of different theories, so that propagation chains cross the theories;
  * GADGETS (one or more per network, every theory): a trigger d with clauses d -> l1, d -> l2 (, d -> l3) where l1, l2, l3
    tighten the SAME LRA bound / IDL cell / RDL cell / OV domain (directly, or - difference logics - through a path over a
    third time point), so that assuming d updates it two or more times WITHIN ONE decision level; an older, looser
    l0 on the same bound triggered by d0 (to be assumed at a LOWER level: the pop has to give back l0's value, not +-inf
    and not the intermediate one); and two conflict makers whose learnt clause backjumps below d's level (a propositional
    one: e -> f, e & f -> !d0; a theory one: e2 -> a literal contradicting l0).  history() runs the scenarios
    [d0] d [x] followed by pop / next() / the conflict; the check counts, from the harness's exact "mu" statistics, how
    many undone levels really had such multiple updates, per theory and per way of undoing.
"""
import queue
import subprocess
import threading
from fractions import Fraction

import sat_gen


def _no_aslr():
    # lra_theory keeps rows in unordered_set<row *> (iteration order = a function of heap addresses): with address space
    # randomisation off a harness process is a deterministic function of the script it is fed
    try:
        import ctypes
        ctypes.CDLL(None).personality(0x0040000)
    except Exception:
        pass


class Drv(sat_gen.Driver):
    """Line-interactive access to a harness process (same interface as sat_gen.Driver) + batch mode.  The process runs
    without ASLR; its stdout is drained by a reader thread (a batch may write more than a pipe holds while the answers
    pile up in the other pipe); an answer that does not arrive within `limit` seconds kills the process (self.hung)."""

    def __init__(self, exe, args=(), limit=15.0):
        self.limit = limit
        self.hung = False
        self.p = subprocess.Popen([exe] + list(args), stdin=subprocess.PIPE, stdout=subprocess.PIPE, stderr=subprocess.DEVNULL,
                                  text=True, bufsize=1, preexec_fn=_no_aslr)
        self.q = queue.Queue()
        t = threading.Thread(target=self._reader, daemon=True)
        t.start()

    def _reader(self):
        try:
            for line in self.p.stdout:
                self.q.put(line.rstrip("\n"))
        except Exception:
            pass
        self.q.put(None)

    def _get(self, what):
        try:
            line = self.q.get(timeout=self.limit)
        except queue.Empty:
            self.hung = True
            self.p.kill()
            line = None
        if line is None:
            raise EOFError("harness died on: " + what)
        return line

    def send(self, cmd):
        try:
            self.p.stdin.write(cmd + "\n")
            self.p.stdin.flush()
        except (BrokenPipeError, OSError, ValueError):
            raise EOFError("harness died on: " + cmd)
        return self._get(cmd)

    def batch(self, cmds):
        if not cmds:
            return []
        try:
            self.p.stdin.write("\n".join(cmds) + "\n")
            self.p.stdin.flush()
        except (BrokenPipeError, OSError, ValueError):
            raise EOFError("harness died in a batch of %d commands" % len(cmds))
        return [self._get(c) for c in cmds]

    def rc(self):
        try:
            return self.p.wait(timeout=5)
        except Exception:
            self.p.kill()
            return None


parse = sat_gen.parse


def rat(f):
    f = Fraction(f)
    return "%d/%d" % (f.numerator, f.denominator)


def lin(terms, k=0):
    return " ".join(["c=" + rat(k)] + ["%d:%s" % (v, rat(c)) for v, c in terms])


class Net:
    """What the generator remembers about a constructed network."""

    def __init__(self):
        self.cons = []          # construction commands
        self.answers = []
        self.bools = []         # positive literal indexes of the plain boolean variables
        self.atoms = []         # (theory, literal index) of every non constant atom literal
        self.ladders = []       # lists of literal indexes: assigning them in order tightens ONE bound / cell step by step
        self.ov_lits = []
        self.gadgets = []       # dicts th, d0, d, e, e2, rungs
        self.dead = False
        self.nvars = 1


LRA_CONST = [-3, -2, -1, 0, 1, 2, 3, 4, 5, 6, Fraction(1, 2), Fraction(5, 2), Fraction(-3, 2), Fraction(7, 3)]
OPS = ["lt", "leq", "geq", "gt"]


def build(rng, drv, small=False, gadget_ths=None):
    """Constructs a random network on the live harness `drv`; returns Net.  gadget_ths: theories that get a gadget
    (default: one or two at random)."""
    net = Net()

    def do(cmd):
        a = drv.send(cmd)
        net.cons.append(cmd)
        net.answers.append(a)
        st = parse(a)
        if st.get("dead") == "1":
            net.dead = True
        if "vals" in st:
            net.nvars = len(st["vals"])
        return st

    def lit_of(st):
        rc = st.get("rc", "skip")
        return int(rc) if rc.lstrip("-").isdigit() else None

    do("reset")
    for _ in range(rng.randint(3, 5 if small else 8)):
        st = do("bv")
        net.bools.append(2 * int(st["rc"]) + 1)

    # --- LRA -------------------------------------------------------------------------------------------------
    nl = rng.randint(2, 3 if small else 5)
    lv = [int(do("lv")["rc"]) for _ in range(nl)]
    exprs = []
    for _ in range(rng.randint(2, 4)):
        k = rng.choice([1, 1, 1, 2, 2, 3])
        vs = rng.sample(lv, min(k, len(lv)))
        if k == 1:
            cs = [rng.choice([1, 1, 1, -1, 2, Fraction(1, 2)])]
        else:
            cs = [rng.choice([1, -1, 1, -1, 2, -2, 3, Fraction(1, 2), Fraction(-1, 3)]) for _ in vs]
        exprs.append(list(zip(vs, cs)))
    n_at = rng.randint(4, 6 if small else 12)
    per_expr = {}
    for i in range(n_at):
        e = rng.randrange(len(exprs)) if (i >= len(exprs) and rng.random() < 0.85) else i % len(exprs)
        op = rng.choice(OPS) if rng.random() < 0.93 else "eq"
        c = rng.choice(LRA_CONST)
        if rng.random() < 0.25:   # the constant on the left, part of the variables on the right
            st = do("la %s %s | %s" % ({"lt": "gt", "leq": "geq", "geq": "leq", "gt": "lt", "eq": "eq"}[op], lin([], c), lin(exprs[e])))
        else:
            st = do("la %s %s | %s" % (op, lin(exprs[e]), lin([], c)))
        l = lit_of(st)
        if l is not None and l > 1:
            net.atoms.append(("lra", l))
            if op != "eq":
                per_expr.setdefault(e, []).append((op, Fraction(c), l))
    for e, ats in per_expr.items():
        ups = sorted([a for a in ats if a[0] in ("lt", "leq")], key=lambda a: (-a[1], a[0] == "lt"))
        los = sorted([a for a in ats if a[0] in ("gt", "geq")], key=lambda a: (a[1], a[0] == "gt"))
        for lad in (ups, los):
            ls = list(dict.fromkeys(a[2] for a in lad))
            if len(ls) >= 2:
                net.ladders.append(ls)
        # negations tighten the opposite bound: !(x <= c) is x > c
        if len(ups) >= 2:
            net.ladders.append([l ^ 1 for l in dict.fromkeys(a[2] for a in reversed(ups))])
        if len(los) >= 2:
            net.ladders.append([l ^ 1 for l in dict.fromkeys(a[2] for a in reversed(los))])

    # --- IDL / RDL -----------------------------------------------------------------------------------------------
    for th in ("i", "r"):
        nt = rng.randint(3, 4 if small else 7)
        tps = [int(do(th + "v")["rc"]) for _ in range(nt)]
        pts = [0] + tps
        pairs = []
        for _ in range(rng.randint(2, 5)):
            a, b = rng.sample(pts if rng.random() < 0.35 else tps, 2)
            pairs.append((a, b))
            if rng.random() < 0.5:
                pairs.append((b, a))
        n_c = rng.randint(5, 7 if small else 15)
        per_pair = {}
        diamond = nt >= 4 and rng.random() < 0.6
        if diamond:
            # two routes a -> c -> b and a -> d -> b (the second one shorter: it overwrites the predecessors of the first when
            # asserted later), constraints between the ends that the routes decide (lemmas whose explanation walks the
            # predecessors), and an edge e -> a extending the routes
            n_c = max(2, n_c - 6)
            a, b, c, dd = rng.sample(tps, 4)
            e = rng.choice([x for x in pts if x not in (a, b, c, dd)] or [0])
            d1, d2 = rng.randint(1, 4), rng.randint(1, 4)
            d3, d4 = rng.randint(0, d1), rng.randint(0, d2)
            def edge(f, t, d):
                if th == "i":
                    st = do("id %d %d %d" % (f, t, d))
                else:
                    st = do("rd %d %d %s,%s" % (f, t, rat(d), rat(rng.choice([0, 0, -1]))))
                l = lit_of(st)
                if l is not None and l > 1:
                    net.atoms.append(("idl" if th == "i" else "rdl", l))
                    return l
                return None
            route = [edge(a, c, d1), edge(c, b, d2), edge(a, dd, d3), edge(dd, b, d4)]
            if rng.random() < 0.5:
                route = route[2:] + route[:2]
            ext = [edge(e, a, rng.randint(-1, 1))] if e != a else []
            for _ in range(rng.randint(1, 3)):
                k = rng.randint(d3 + d4 - 1, d1 + d2 + 2)
                f, t = rng.choice([(b, a), (b, e), (b, a)])
                ext.append(edge(f, t, -k))         # t - f <= -k, i.e. the route must be longer than k
            if rng.random() < 0.5:
                ext.append(edge(a, b, rng.randint(d3 + d4 - 1, d1 + d2 + 1)))
            route = [l for l in route if l]
            if len(route) >= 2:
                net.ladders.append(route)
                net.ladders.append(route)
            ext = [l for l in ext if l]
            if len(ext) >= 2:
                net.ladders.append(ext)
        for i in range(n_c):
            f, t = pairs[i % len(pairs)] if i < len(pairs) else rng.choice(pairs)
            if rng.random() < 0.12:
                f, t = rng.sample(pts, 2)
            r = rng.random()
            if th == "i":
                d = rng.randint(-6, 10)
                if r < 0.75:
                    st = do("id %d %d %d" % (f, t, d))
                else:   # t - f <= d through the lin interface (origin 0 is no variable of a lin)
                    op = rng.choice(["leq", "lt", "geq", "gt"])
                    if f == 0 or t == 0:
                        v = t if f == 0 else f
                        st = do("ia %s %s | %s" % (op, lin([(v, 1)]), lin([], d)))
                        f, t, d = None, None, None
                    else:
                        st = do("ia %s %s | %s" % (op, lin([(t, 1), (f, -1)]), lin([], d)))
                        if op in ("leq", "lt"):
                            d = d if op == "leq" else d - 1
                        else:
                            f, t, d = t, f, (-d if op == "geq" else -d - 1)
            else:
                d = Fraction(rng.randint(-12, 20), rng.choice([1, 1, 2, 2, 3]))
                eps = rng.choice([0, 0, 0, -1, 1])
                if r < 0.75:
                    st = do("rd %d %d %s,%s" % (f, t, rat(d), rat(eps)))
                    d = (d, eps)
                else:
                    op = rng.choice(["leq", "lt", "geq", "gt"])
                    if f == 0 or t == 0:
                        v = t if f == 0 else f
                        st = do("ra %s %s | %s" % (op, lin([(v, 1)]), lin([], d)))
                        f, t, d = None, None, None
                    else:
                        st = do("ra %s %s | %s" % (op, lin([(t, 1), (f, -1)]), lin([], d)))
                        if op in ("leq", "lt"):
                            d = (d, 0 if op == "leq" else -1)
                        else:
                            f, t, d = t, f, (-d, 0 if op == "geq" else -1)
            l = lit_of(st)
            if l is not None and l > 1:
                net.atoms.append(("idl" if th == "i" else "rdl", l))
                if f is not None:
                    per_pair.setdefault((f, t), []).append((d, l))
        for (f, t), cs in per_pair.items():
            cs = sorted(cs, key=lambda x: x[0], reverse=True)   # loosest first
            ls = list(dict.fromkeys(c[1] for c in cs))
            if len(ls) >= 2:
                net.ladders.append(ls)
                net.ladders.append([l ^ 1 for l in reversed(ls)])

    # --- OV --------------------------------------------------------------------------------------------------
    ovs = []
    for _ in range(rng.randint(1, 2 if small else 3)):
        k = rng.randint(2, 4)
        vals = rng.sample(range(5), k)
        st = do("ov " + " ".join(map(str, vals)))
        if st.get("rc", "skip") != "skip":
            ovs.append(int(st["rc"]))
            net.ov_lits += [int(x) for x in st.get("lits", "").split(",") if x and int(x) > 1]
    for _ in range(rng.randint(0, 2)):
        if len(ovs) >= 2:
            a, b = rng.sample(ovs, 2)
            l = lit_of(do("oe %d %d" % (a, b)))
            if l is not None and l > 1:
                net.atoms.append(("ov", l))


    # --- gadgets ---------------------------------------------------------------------------------------------------
    if gadget_ths is None:
        gadget_ths = rng.sample(["lra", "idl", "rdl", "ov"], rng.choice([1, 1, 2]))
    gclauses = []
    for gth in gadget_ths:
        if net.dead:
            break

        def newb():
            return 2 * int(do("bv")["rc"]) + 1
        rungs, contra, probe, extra_atoms = [], None, None, []     # rungs: loosest first; contra: a literal contradicting rungs[0]
        if gth == "lra":
            if rng.random() < 0.5 or not exprs:
                e = [(int(do("lv")["rc"]), 1)]
            else:
                e = rng.choice(exprs)
            up = rng.random() < 0.6
            c0 = rng.randint(4, 9)
            cs = [Fraction(c0)]
            for _ in range(3):
                cs.append(cs[-1] - rng.choice([1, 1, 2, Fraction(1, 2)]))
            if not up:
                cs = [-c for c in cs]
            for c in cs:
                op = rng.choice(["leq", "leq", "lt"]) if up else rng.choice(["geq", "geq", "gt"])
                rungs.append(lit_of(do("la %s %s | %s" % (op, lin(e), lin([], c)))))
            contra = lit_of(do("la %s %s | %s" % ("geq" if up else "leq", lin(e), lin([], cs[0] + (1 if up else -1)))))
        elif gth in ("idl", "rdl"):
            c = "i" if gth == "idl" else "r"
            def tp():
                return int(do(c + "v")["rc"])
            a, b = tp(), tp()
            if rng.random() < 0.3:
                a = 0                    # the cell is a bound of b
            d0 = rng.randint(6, 12)
            ds = [d0]
            for _ in range(3):
                ds.append(ds[-1] - rng.randint(1, 3))
            def edge(f, t, d, exact=False):
                if c == "i":
                    return lit_of(do("id %d %d %d" % (f, t, d)))
                if exact:
                    return lit_of(do("rd %d %d %s,0/1" % (f, t, rat(d))))
                return lit_of(do("rd %d %d %s,%s" % (f, t, rat(Fraction(d) + rng.choice([0, 0, Fraction(1, 2)])), rat(rng.choice([0, 0, -1])))))
            rungs = [edge(a, b, ds[0]), edge(a, b, ds[1])]
            if rng.random() < 0.5:
                # the third tightening of (a, b) comes through a path a -> m -> b
                m = tp()
                p1 = rng.randint(0, ds[2])
                rungs.append(("path", edge(a, m, p1), edge(m, b, ds[2] - p1)))
                rungs.append(edge(a, b, ds[3]))
            else:
                rungs += [edge(a, b, ds[2]), edge(a, b, ds[3])]
            contra = edge(b, a, -(d0 + 2), exact=True)
            # probe: an edge b -> q and constraints on (a, q) that it decides THROUGH the cell (a, b): their explanation walks the
            # predecessors of (a, b)
            q = tp()
            w = rng.randint(1, 3)
            probe = edge(b, q, w, exact=True)
            extra_atoms = [probe, edge(a, q, d0 + w + 1 + rng.randint(0, 1), exact=True), edge(q, a, -(d0 + w + 2), exact=True)]
        else:
            k = rng.randint(4, 5)
            st = do("ov " + " ".join(map(str, rng.sample(range(6), k))))
            ls = [int(x) for x in st.get("lits", "").split(",") if x]
            if st.get("rc", "skip") == "skip" or len(ls) < 4:
                continue
            rng.shuffle(ls)
            rungs = [l ^ 1 for l in ls[:3]]          # values removed one after the other
            contra = ls[0]
            ovs.append(int(st["rc"]))
        flat = []
        for r in rungs:
            flat += list(r[1:]) if isinstance(r, tuple) else [r]
        if any(l is None or l <= 1 for l in flat) or contra is None or contra <= 1:
            continue
        for l in flat + [x for x in extra_atoms if x is not None and x > 1]:
            net.atoms.append((gth, l))
        d0l, dl, el, fl, e2l = newb(), newb(), newb(), newb(), newb()
        # d -> two or three rungs above the loosest one, mostly loose before tight (watch order = propagation order)
        upper = rungs[1:]
        k = min(len(upper), rng.choice([2, 2, 3]))
        idx = list(range(k)) if rng.random() < 0.6 else sorted(rng.sample(range(len(upper)), k))
        chosen = [upper[i] for i in idx]
        if rng.random() < 0.2:
            chosen = list(reversed(chosen))
        gclauses.append("c %d %d" % (d0l ^ 1, flat[0]))
        for r in chosen:
            for l in (r[1:] if isinstance(r, tuple) else [r]):
                gclauses.append("c %d %d" % (dl ^ 1, l))
        gclauses.append("c %d %d" % (el ^ 1, fl))
        gclauses.append("c %d %d %d" % (el ^ 1, fl ^ 1, d0l ^ 1))
        gclauses.append("c %d %d" % (e2l ^ 1, contra))
        net.gadgets.append(dict(th=gth, d0=d0l, d=dl, e=el, e2=e2l, rungs=flat, probe=probe if probe and probe > 1 else None))
        net.ladders.append(flat)

    # --- clauses linking everything ---------------------------------------------------------------------------------
    alits = [l for _, l in net.atoms]
    pool = alits + net.bools + net.ov_lits

    def rl(p=None):
        return rng.choice(p or pool) ^ rng.randint(0, 1)
    for gc in gclauses:
        do(gc)
    # chains along the ladders: loose -> tighter (several updates of one bound / cell within one level)
    for lad in net.ladders:
        if len(lad) >= 2 and rng.random() < 0.45:
            i = rng.randrange(len(lad) - 1)
            do("c %d %d" % (lad[i] ^ 1, lad[i + 1]))
            if rng.random() < 0.5 and net.bools:
                do("c %d %d" % (rng.choice(net.bools) ^ 1 ^ rng.randint(0, 1), lad[i]))
    by_th = {}
    for th, l in net.atoms:
        by_th.setdefault(th, []).append(l)
    ths = [t for t in by_th if by_th[t]]
    dense = rng.random() < 0.3      # many more links: more conflicts / backjumps
    for _ in range(rng.randint(5, 8 if small else 20) * (2 if dense else 1)):
        if net.dead:
            break
        r = rng.random()
        if r < 0.5 and len(ths) >= 2:      # implication between atoms of two different theories
            t1, t2 = rng.sample(ths, 2)
            do("c %d %d" % (rl(by_th[t1]), rl(by_th[t2])))
        elif r < 0.7 and alits:
            do("c %d %d" % (rl(net.bools), rl(alits)))
        elif r < 0.9:
            ls = list(dict.fromkeys(rl() for _ in range(3)))
            do("c " + " ".join(map(str, ls)))
        else:
            ls = list(dict.fromkeys(rl() for _ in range(rng.choice([2, 4]))))
            do("c " + " ".join(map(str, ls)))
    st = do("p")
    return net


WEIGHTS = {
    "mixed": dict(a=50, p=3, o=18, n=8, k=12, s=3, c=2, L=18, G=7),
    "deep": dict(a=70, p=2, o=8, n=6, k=6, s=1, c=1, L=22, G=6),
    "updown": dict(a=42, p=2, o=34, n=5, k=8, s=2, c=1, L=30, G=8),
    "nextcheck": dict(a=35, p=2, o=8, n=26, k=26, s=2, c=1, L=10, G=6),
}
ENDINGS = ["pop", "next", "conflict", "tconflict", "none"]
PROFILES = ["mixed", "mixed", "deep", "deep", "updown", "updown", "nextcheck"]


def history(rng, drv, net, target_ops=None, profile=None, unsteered=0.04, max_depth=12, want_obs=True, first=()):
    """Appends a history to the network living in `drv`.  Returns (profile, hist, answers, obs, mus) where obs[i] / mus[i]
    are the answers of "obs" / "mu" sent after hist[i] (obs of the construction is the caller's business).
    first: gadget scenarios (gadget index, ending) run before anything else."""
    profile = profile or rng.choice(PROFILES)
    w = WEIGHTS[profile]
    target = target_ops or rng.randint(25, 110)
    hist, answers, obs, mus = [], [], [], []
    st = parse(net.answers[-1])
    state = dict(dead=net.dead)
    lad_pos = {}

    def do(cmd):
        a = drv.send(cmd)
        hist.append(cmd)
        answers.append(a)
        if want_obs:
            obs.append(drv.send("obs"))
            mus.append(drv.send("mu"))
        s = parse(a)
        if s.get("dead") == "1":
            state["dead"] = True
        return s

    def scenario(g, ending, st):
        """[d0] [x] d [y] then pop / next / a conflict that backjumps below d's level"""
        def und(l):
            v = st.get("vals", "")
            return (l >> 1) < len(v) and v[l >> 1] == "U"

        def ok(st):
            return st.get("rc") == "1" and st.get("dead") == "0" and int(st.get("q", 0)) == 0

        def filler(st):
            v = st.get("vals", "")
            fr = [i for i in range(1, len(v)) if v[i] == "U" and 2 * i + 1 not in (g["d0"], g["d"], g["e"], g["e2"])]
            return do("a %d" % (2 * rng.choice(fr) + rng.randint(0, 1))) if fr else st
        if not und(g["d"]) or int(st.get("lvl", 0)) > max_depth - 4 or int(st.get("q", 0)) > 0:
            return st
        if und(g["d0"]) and rng.random() < 0.75:
            st = do("a %d" % g["d0"])
            if not ok(st):
                return st
            if rng.random() < 0.3:
                st = filler(st)
                if not ok(st):
                    return st
        if not und(g["d"]):
            return st
        st = do("a %d" % g["d"])
        if not ok(st):
            return st
        if rng.random() < 0.3:
            st = filler(st)
            if not ok(st):
                return st
        if ending == "pop":
            st = do("o")
            if st.get("rc") == "1" and rng.random() < 0.5 and int(st.get("lvl", 0)) > 0:
                st = do("o")
        elif ending == "next":
            st = do("n")
        elif ending == "conflict" and und(g["e"]):
            st = do("a %d" % g["e"])
        elif ending == "tconflict" and und(g["e2"]):
            st = do("a %d" % g["e2"])
        # probe: with d's level undone and (mostly) d0's level still standing, make the theory EXPLAIN something through the bound /
        # cell that has just been restored (a conflict with the literal contradicting the loosest rung, or a rung asserted again):
        # a predecessor / reason / enforcing constraint restored wrongly gives a clause that omits literals (lemma_checks)
        if ending != "none" and st.get("dead") == "0" and int(st.get("q", 0)) == 0 and st.get("rc") in ("0", "1") and rng.random() < 0.7:
            if g.get("probe") and und(g["probe"]) and rng.random() < 0.7:
                st = do("a %d" % g["probe"])
            elif und(g["e2"]) and rng.random() < 0.7:
                st = do("a %d" % g["e2"])
            else:
                fr = [l for l in g["rungs"][1:] if und(l)]
                if fr:
                    st = do("a %d" % rng.choice(fr))
        return st

    for gi, ending in first:
        if state["dead"] or gi >= len(net.gadgets):
            break
        st = scenario(net.gadgets[gi], ending, st)
        if st.get("rc") == "skip":
            st = do("p")

    ops = "apoknscLG"
    ww = [w[o] for o in ops]
    nv = net.nvars
    while len(hist) < target and not state["dead"]:
        vals, lvl, q = st.get("vals", ""), int(st.get("lvl", 0)), int(st.get("q", 0))
        nv = len(vals)
        o = rng.choices(ops, ww)[0]
        steer = rng.random() >= unsteered
        free = [v for v in range(1, nv) if vals[v] == "U"]

        def undef(l):
            return (l >> 1) < nv and vals[l >> 1] == "U"
        if steer:
            if q > 0 and o != "p":
                o = "p"
            elif o == "G" and not net.gadgets:
                o = "a" if free and lvl < max_depth else "o" if lvl > 0 else "k"
            elif o in "aL" and (not free or lvl >= max_depth):
                o = rng.choice("onk") if lvl > 0 else rng.choice("ks")
            elif o == "o" and lvl == 0:
                o = "a" if free else "k"
            elif o in "sc" and lvl > 0:
                o = rng.choice("aao") if free else "o"
            elif o == "n" and lvl == 0:
                o = "a" if free else "k"
        if o == "G":
            if net.gadgets:
                st = scenario(rng.choice(net.gadgets), rng.choice(ENDINGS), st)
            else:
                st = do("p")
        elif o == "L":     # next rung of a ladder: tighten the same bound / cell once more, one level deeper
            cands = [(i, [l for l in lad if undef(l)]) for i, lad in enumerate(net.ladders)]
            cands = [(i, ls) for i, ls in cands if ls]
            if cands:
                i, ls = rng.choice(cands)
                st = do("a %d" % ls[0])
            elif free:
                st = do("a %d" % (2 * rng.choice(free) + rng.randint(0, 1)))
            else:
                st = do("p")
        elif o == "a":
            if steer and free:
                # prefer theory atoms
                fa = [l for _, l in net.atoms if undef(l)]
                if fa and rng.random() < 0.7:
                    st = do("a %d" % (rng.choice(fa) ^ rng.randint(0, 1)))
                else:
                    st = do("a %d" % (2 * rng.choice(free) + rng.randint(0, 1)))
            else:
                st = do("a %d" % rng.randint(0, 2 * nv - 1))
        elif o == "k":
            k = rng.choice([1, 1, 2, 2, 3, 4])
            pool = free if (free and rng.random() < 0.75) else list(range(1, nv))
            vs = rng.sample(pool, min(k, len(pool)))
            st = do("k " + " ".join(str(2 * v + rng.randint(0, 1)) for v in vs))
        elif o == "c":
            ls = list(dict.fromkeys(2 * rng.randint(1, nv - 1) + rng.randint(0, 1) for _ in range(rng.choice([2, 2, 3]))))
            st = do("c " + " ".join(map(str, ls)))
        else:
            st = do(o)
        if st.get("rc") == "skip" and steer:
            st = do("p")
            if st.get("rc") == "skip":
                break
    return profile, hist, answers, obs, mus
