"""C15, smt::lin: generator of operation sequences, exact specification (python Fractions, coefficient-wise) and judge.

Protocol: see harness/h_lin.cpp.  A program is  (init, [(op, arg), ...])  with textual operands.
The judge is independent of the Coq model: it computes, for every step, the exact coefficient-wise result
(dict var -> Fraction without zeros, known term) and the flag `zero_free` (the statement proved in Lin_Proofs.v:
zero-free operands and no binary multiplication by 0 / division by +-inf keep the map zero-free; `*= 0` and
`/= +-inf` clear the map), and checks on the implementation's output: strictly increasing keys, canonical
coefficients (den > 0, gcd = 1), the same non-zero coefficients and the same known term, no zero coefficient while
zero_free holds, returned copy of a compound assignment equal to the object."""
from fractions import Fraction
from math import gcd

LIN_OPS = ("addl", "subl", "addeql", "subeql")
RAT_OPS = ("addr", "radd", "subr", "rsub", "mulr", "rmul", "divr", "addeqr", "subeqr", "muleqr", "diveqr")
ALL_OPS = LIN_OPS + RAT_OPS + ("neg",)
LIMIT = 1 << 30   # the property's range clause: a program is cut when a state exceeds this magnitude; generated operands are
                  # below 2^7, so no intermediate product of the C++ reaches 2^62


# ------------------------------------------------------------------------------------------------
# text <-> values
# ------------------------------------------------------------------------------------------------
def rat_txt(f):
    return "%d/%d" % (f.numerator, f.denominator)


def p_rat(s):
    n, d = s.split("/")
    n, d = int(n), int(d)
    if d == 0:
        return "+inf" if n > 0 else "-inf"
    return Fraction(n, d)


def is_inf(x):
    return isinstance(x, str)


def lin_txt(known, entries):
    """entries: list of (var, Fraction) in key order (zeros allowed: they are written as 0/1)."""
    return ";".join([rat_txt(known)] + ["%d:%s" % (v, rat_txt(c)) for v, c in entries])


def p_lin_raw(s):
    """-> (known 'n/d', [(var, 'n/d')]) exactly as printed."""
    parts = s.split(";")
    ents = []
    for e in parts[1:]:
        v, c = e.split(":")
        ents.append((int(v), c))
    return parts[0], ents


def p_lin(s):
    k, ents = p_lin_raw(s)
    return p_rat(k), [(v, p_rat(c)) for v, c in ents]


def canonical_txt(c):
    n, d = c.split("/")
    n, d = int(n), int(d)
    return d > 0 and gcd(abs(n), d) == 1


# ------------------------------------------------------------------------------------------------
# exact specification
# ------------------------------------------------------------------------------------------------
class Spec:
    """Exact value of the object: coefs (no zeros), known, zero_free (must the map be free of zero entries?)."""

    def __init__(self, init):
        if init == "ctor":
            self.coefs, self.known, self.zero_free = {}, Fraction(0), True
        elif init.startswith("ctor_rat:"):
            self.coefs, self.known, self.zero_free = {}, p_rat(init[9:]), True
        elif init.startswith("ctor_var:"):
            _, v, c = init.split(":")
            c = p_rat(c)
            self.coefs = {int(v): c} if c != 0 else {}
            self.known, self.zero_free = Fraction(0), c != 0     # lin(v, 0) stores the zero coefficient
        else:
            k, ents = p_lin(init)
            self.coefs = {v: c for v, c in ents if c != 0}
            self.known = k
            self.zero_free = all(c != 0 for _, c in ents)
        self.defined = True

    def step(self, op, arg):
        """Apply op; returns False when the operation is outside the property's domain (x/0, 0*inf, inf operands)."""
        if op == "neg":
            self.coefs = {v: -c for v, c in self.coefs.items()}
            self.known = -self.known
            return True
        if op in LIN_OPS:
            k, ents = p_lin(arg)
            sg = 1 if op.startswith("add") else -1
            for v, c in ents:
                n = self.coefs.get(v, Fraction(0)) + sg * c
                if n == 0:
                    self.coefs.pop(v, None)
                else:
                    self.coefs[v] = n
            self.known += sg * k
            self.zero_free = self.zero_free and all(c != 0 for _, c in ents)
            return True
        k = p_rat(arg)
        if op in ("addr", "radd", "addeqr"):
            if is_inf(k):
                return False
            self.known += k
        elif op in ("subr", "subeqr"):
            if is_inf(k):
                return False
            self.known -= k
        elif op == "rsub":
            if is_inf(k):
                return False
            self.coefs = {v: -c for v, c in self.coefs.items()}
            self.known = k - self.known
        elif op in ("mulr", "rmul", "muleqr"):
            if is_inf(k):
                return False
            if k == 0:
                nonempty = bool(self.coefs) or not self.zero_free
                self.coefs = {}
                self.known = Fraction(0)
                if op == "muleqr":
                    self.zero_free = True       # the map is cleared
                elif nonempty:
                    self.zero_free = False      # operator* keeps every key, now with coefficient 0
            else:
                self.coefs = {v: c * k for v, c in self.coefs.items()}
                self.known *= k
        elif op in ("divr", "diveqr"):
            if is_inf(k):
                nonempty = bool(self.coefs) or not self.zero_free
                self.coefs = {}
                self.known = Fraction(0)
                if op == "diveqr":
                    self.zero_free = True
                elif nonempty:
                    self.zero_free = False
            elif k == 0:
                return False
            else:
                self.coefs = {v: c / k for v, c in self.coefs.items()}
                self.known /= k
        else:
            raise ValueError(op)
        return True

    def too_big(self):
        vals = list(self.coefs.values()) + [self.known]
        return any(abs(x.numerator) > LIMIT or x.denominator > LIMIT for x in vals)

    def txt(self):
        return lin_txt(self.known, sorted(self.coefs.items()))


def judge_state(spec, got):
    """None when the implementation's printed state `got` satisfies the property for the exact value `spec`,
    otherwise a short reason."""
    if "#ret=" in got:
        return "returned copy differs from the object: " + got
    if got.startswith("?"):
        return "harness: " + got
    got, _, key = got.partition("~")
    try:
        k_txt, ents = p_lin_raw(got)
    except ValueError:
        return "unparsable output " + got
    keys = [v for v, _ in ents]
    if any(a >= b for a, b in zip(keys, keys[1:])):
        return "keys not strictly increasing"
    for c in [k_txt] + [c for _, c in ents]:
        if not canonical_txt(c):
            return "non-canonical rational " + c
    k = p_rat(k_txt)
    coefs = {v: p_rat(c) for v, c in ents}
    zeros = [v for v, c in coefs.items() if c == 0]
    nz = {v: c for v, c in coefs.items() if c != 0}
    if nz != spec.coefs:
        return "coefficients differ: expected %s" % spec.txt()
    if k != spec.known:
        return "known term differs: expected %s" % rat_txt(spec.known)
    if zeros and spec.zero_free:
        return "zero coefficient left in the map for x%s" % zeros[0]
    # to_string(lin), the sharing key of lra_theory, must denote exactly this expression (read back by an
    # independent parser): two different expressions can then never share a key
    try:
        kc, kk = parse_key(key)
    except (ValueError, IndexError, ZeroDivisionError):
        return "to_string not readable: %r" % key
    if kc != spec.coefs or kk != spec.known:
        return "to_string %r denotes another expression than %s" % (key, spec.txt())
    return None


def parse_key(key):
    """Independent reader of the text produced by to_string(lin): -> (dict var -> Fraction without zeros, known term)."""
    def num(t):
        if "/" in t:
            a, b = t.split("/")
            return Fraction(int(a), int(b))
        return Fraction(int(t))
    toks = key.split(" ")
    coefs, known = {}, Fraction(0)
    sign, first = 1, True
    i = 0
    while i < len(toks):
        t = toks[i]
        if not first:
            if t not in ("+", "-"):
                raise ValueError(key)
            sign = 1 if t == "+" else -1
            i += 1
            t = toks[i]
        if "x" in t:
            c, _, v = t.partition("x")
            if c == "":
                c = Fraction(1)
            elif c == "-":
                c = Fraction(-1)
            else:
                if not c.endswith("*"):
                    raise ValueError(key)
                c = num(c[:-1])
            v = int(v)
            if v in coefs:
                raise ValueError(key)
            coefs[v] = sign * c
        else:
            if i != len(toks) - 1:
                raise ValueError(key)
            known = sign * num(t)
        first = False
        i += 1
    return {v: c for v, c in coefs.items() if c != 0}, known


def prog_line(prog):
    init, ops = prog
    return " | ".join([init] + [(op + " " + arg) if arg is not None else op for op, arg in ops])


def parse_line(line):
    parts = [p.strip() for p in line.split("|")]
    ops = []
    for p in parts[1:]:
        w = p.split()
        ops.append((w[0], w[1] if len(w) > 1 else None))
    return parts[0], ops


def judge_program(prog, out_line):
    """-> (index of the first failing step (0 = initial state) or None, reason, number of judged states).
    Steps after an out-of-domain operation or beyond the magnitude limit are not judged."""
    init, ops = prog
    states = [s.strip() for s in out_line.split(" | ")] if out_line is not None else []
    spec = Spec(init)
    n = 0
    if len(states) < 1:
        return 0, "no output (implementation aborted?)", n
    r = judge_state(spec, states[0])
    n += 1
    if r:
        return 0, r, n
    for i, (op, arg) in enumerate(ops, 1):
        if not spec.step(op, arg) or spec.too_big():
            return None, None, n
        if i >= len(states):
            return i, "no output for this step (implementation aborted?)", n
        r = judge_state(spec, states[i])
        n += 1
        if r:
            return i, r, n
    return None, None, n


# ------------------------------------------------------------------------------------------------
# generation
# ------------------------------------------------------------------------------------------------
SCALARS = [Fraction(0), Fraction(1), Fraction(-1), Fraction(2), Fraction(-2), Fraction(3), Fraction(1, 2), Fraction(-1, 2),
           Fraction(2, 3), Fraction(-3, 2), Fraction(5, 6), Fraction(-7, 12), Fraction(12), Fraction(-5)]


def rnd_scalar(rng, nonzero=False, small=True):
    while True:
        if rng.random() < 0.6:
            x = rng.choice(SCALARS)
        else:
            hi = 12 if small else 60
            x = Fraction(rng.randint(-hi, hi), rng.randint(1, 12))
        if not nonzero or x != 0:
            return x


def rnd_lin(rng, nvars=4, zero_coefs=False, like=None):
    """like: (coefs dict) of the current object, to aim at shared and cancelling variables."""
    ents = {}
    k = rng.choice([0, 0, 1, 2, 3])
    pool = list(range(nvars))
    rng.shuffle(pool)
    for v in pool[:k]:
        ents[v] = rnd_scalar(rng, nonzero=not zero_coefs)
    if like:
        for v, c in like.items():
            r = rng.random()
            if r < 0.35:
                ents[v] = c            # cancels under -, doubles under +
            elif r < 0.55:
                ents[v] = -c           # cancels under +
            elif r < 0.65:
                ents.pop(v, None)      # disjoint on this variable
    known = rnd_scalar(rng)
    return lin_txt(known, sorted(ents.items()))


def rnd_program(rng, max_ops=6, nvars=4):
    r = rng.random()
    if r < 0.08:
        init = "ctor"
    elif r < 0.16:
        init = "ctor_rat:" + rat_txt(rnd_scalar(rng))
    elif r < 0.30:
        init = "ctor_var:%d:%s" % (rng.randrange(nvars), rat_txt(rnd_scalar(rng)))
    else:
        init = rnd_lin(rng, nvars, zero_coefs=rng.random() < 0.05)
    spec = Spec(init)
    ops = []
    style = rng.random()
    for _ in range(rng.randint(1, max_ops)):
        if style < 0.35:      # compound assignments on one object
            op = rng.choice(("addeql", "subeql", "addeqr", "subeqr", "muleqr", "diveqr", "addeql", "subeql", "muleqr", "neg"))
        elif style < 0.55:    # binary forms only
            op = rng.choice(("addl", "subl", "addr", "radd", "subr", "rsub", "mulr", "rmul", "divr", "neg", "addl", "subl"))
        else:
            op = rng.choice(ALL_OPS)
        if op == "neg":
            arg = None
        elif op in LIN_OPS:
            arg = rnd_lin(rng, nvars, zero_coefs=rng.random() < 0.03, like=dict(spec.coefs))
        else:
            if op in ("divr", "diveqr"):
                arg = rng.choice(["1/0", "-1/0"]) if rng.random() < 0.08 else rat_txt(rnd_scalar(rng, nonzero=True))
            elif op in ("mulr", "rmul", "muleqr"):
                arg = rat_txt(rnd_scalar(rng))   # includes 0 and negative scalars
            else:
                arg = rat_txt(rnd_scalar(rng, small=False))
        snapshot = (dict(spec.coefs), spec.known, spec.zero_free)
        if not spec.step(op, arg) or spec.too_big():
            spec.coefs, spec.known, spec.zero_free = snapshot
            continue
        ops.append((op, arg))
    return init, ops


def grid_programs():
    """Every operator form on a fixed set of boundary operand pairs: shared / cancelling / disjoint variables,
    zero, negative and infinite scalars, empty maps."""
    lins = ["0/1", "2/1", "1/1;0:1/1", "-1/2;0:1/2;3:-2/1", "0/1;1:-1/1;2:1/3", "5/3;0:1/2;1:2/3;2:-3/2;3:7/1", "0/1;2:0/1"]
    args = ["0/1", "1/1;0:-1/1", "3/1;0:1/2;3:2/1", "2/1;1:1/1;2:-1/3", "-5/3;0:-1/2;1:-2/3;2:3/2;3:-7/1", "1/1;4:1/1", "0/1;0:1/2;3:-2/1"]
    rats = ["0/1", "1/1", "-1/1", "3/1", "-2/3", "5/6", "1/0", "-1/0"]
    progs = []
    for a in lins:
        progs.append((a, [("neg", None)]))
        for op in LIN_OPS:
            for b in args:
                progs.append((a, [(op, b)]))
        for op in RAT_OPS:
            for k in rats:
                progs.append((a, [(op, k)]))
    return progs
