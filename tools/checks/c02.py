"""C02 -- a problem is declared unsolvable only if it has no solution.

Pipeline (DESIGN.md 7-C02):
  1. prove props/Properties_C02.v: the reference decision procedure of coq/plan/RefSolve.v (search over atoms +
     Fourier-Motzkin with strictness) is sound and complete; the protocol of search-control clauses (coq/plan/NoGood.v)
  2. build the oracle (extracted ref_solve + no-good shape checks) and the verdict harness harness/h_verdict.cpp from
     /repo's current sources in 2 (quick) / 4 (thorough) solver configurations
  3. generate problems around the feasibility boundary (tools/c02_gen.py, tools/c02_plans.py), seeded from ctx.rng:
       planted   constraint problems built around a random model            -> must never be rejected
       near      planted problems with a few tight cuts, cycles, squeezes ... -> judged by ref_solve
       sched     state-variable / reusable-resource problems, timeline semantics encoded for ref_solve
       plan      goals / facts with a plan by construction                    -> must never be rejected
       classes   reordered / renamed / tautology-padded / rewritten members   -> same verdict
  4. compare VERDICTS; an `unsolvable` (false from solve, unsolvable / inconsistency exception while reading) on a
     problem that the planted model or ref_solve shows feasible is a VIOLATION with the (minimised) program as replay;
     so is a verdict flip inside an equivalence class or between configurations
  5. K2 on the hook: every kind-1 clause is exactly the negated decision prefix, every kind-5 clause {choice, !decisions}
"""
import glob
import json
import os
import select
import subprocess
import sys
import time
from fractions import Fraction as Fr

import vlib
import c02_build
import c02_gen
import c02_plans

LEVEL = "proof"
EXTRACT = """From Coq Require Import Extraction ExtrOcamlBasic.
From ORatio Require Import plan.RefSolve plan.NoGood.
Extraction "c02_model.ml" ref_solve holdsb check_nogood check_choice.
"""
U_VERDICTS = ("unsolvable_false", "unsolvable_exception_read", "inconsistency_exception_read")


# ------------------------------------------------------------------------------------------------
# builds
# ------------------------------------------------------------------------------------------------
def build_oracle():
    return vlib.ocaml_build("c02", ["plan/RefSolve.vo", "plan/NoGood.vo"], EXTRACT, [("c02_main.ml", None)])


def prebuild():
    build_oracle()
    for c in c02_build.THOROUGH:
        c02_build.build(c)


class Oracle:
    """persistent oracle process, one query per line, with a time budget per query"""

    def __init__(self, exe):
        self.exe = exe
        self.p = None
        self.restarts = 0

    def start(self):
        def big_stack():          # the extracted list functions are not tail recursive
            import resource
            try:
                resource.setrlimit(resource.RLIMIT_STACK, (resource.RLIM_INFINITY, resource.RLIM_INFINITY))
            except (ValueError, OSError):
                pass
        self.p = subprocess.Popen([self.exe], stdin=subprocess.PIPE, stdout=subprocess.PIPE, text=True, bufsize=1, preexec_fn=big_stack)

    def ask(self, line, timeout=6.0):
        if self.p is None or self.p.poll() is not None:
            self.start()
        try:
            self.p.stdin.write(line + "\n")
            self.p.stdin.flush()
        except BrokenPipeError:
            self.start()
            return None
        r, _, _ = select.select([self.p.stdout], [], [], timeout)
        if not r:
            self.p.kill()
            self.p.wait()
            self.p = None
            self.restarts += 1
            return None
        return self.p.stdout.readline().rstrip("\n")

    def close(self):
        if self.p is not None:
            try:
                self.p.stdin.close()
                self.p.wait(timeout=5)
            except Exception:
                self.p.kill()


def run_harness(exe, texts, per_problem_s=10):
    """-> list of (verdict string, [event lines]) in the order of texts"""
    inp = "#timeout %d\n" % per_problem_s + "====\n".join(t if t.endswith("\n") else t + "\n" for t in texts)
    r = vlib.run([exe], stdin=inp, timeout=per_problem_s * len(texts) + 60)
    res = [None] * len(texts)
    ev = []
    for l in r.out.split("\n"):
        if l.startswith("E "):
            ev.append(l[2:])
        elif l.startswith("R "):
            parts = l.split(" ", 2)
            try:
                i = int(parts[1])
            except ValueError:
                continue
            if 0 <= i < len(texts):
                res[i] = (parts[2] if len(parts) > 2 else "", ev)
            ev = []
    return [x if x is not None else ("harness-no-answer", []) for x in res]


def vclass(v):
    w = v.split(" ")[0]
    if w == "solved":
        return "S"
    if w in U_VERDICTS:
        return "U"
    if w == "timeout":
        return "T"
    if w.startswith("abort"):
        return "A"
    if w.startswith("exception_read"):
        return "P"
    if w.startswith("exception_solve"):
        return "X"
    return "?"


# ------------------------------------------------------------------------------------------------
# records
# ------------------------------------------------------------------------------------------------
def rec_from_problem(p, family, kind, truth=None, model=None, group=None, transform=None, style=None, header=None, implicit=None):
    if header is None:
        text = c02_gen.to_riddle(p, style)
    else:
        # names such as g0.start are not declared by a statement: give the printer their types
        pr = c02_gen.Printer({n: t for t, n in p['decls']}, style)
        text = "\n".join(list(header) + pr.stmts(p['stmts'])) + "\n"
    refp = p if implicit is None else {'decls': p['decls'], 'stmts': list(implicit) + list(p['stmts']), 'enums': p.get('enums', {})}
    sexp, bidx, xidx = c02_gen.to_sexp(refp)
    return {'family': family, 'kind': kind, 'text': text, 'sexp': sexp, 'bidx': bidx, 'xidx': xidx, 'refp': refp, 'p': p,
            'truth': truth, 'model': model, 'group': group, 'transform': transform, 'ints': [n for t, n in c02_gen.all_decls(refp) if t == 'int'],
            'header': header, 'implicit': implicit, 'style': style}


def rec_from_text(text, family, kind, truth=None, group=None, transform=None, note=None):
    return {'family': family, 'kind': kind, 'text': text, 'sexp': None, 'truth': truth, 'model': None, 'group': group,
            'transform': transform, 'note': note, 'p': None}


def generate(ctx):
    rng = ctx.rng
    g = c02_gen.Gen(rng)
    P = c02_plans.Plans(rng)
    S = c02_plans.Sched(rng)
    n_pl, n_near, n_sched, n_plan, n_cls = (150, 260, 120, 60, 90) if not ctx.thorough else (3500, 6000, 3000, 1200, 2000)
    recs = []
    gid = [0]

    def add_class(base_rec, p, members=3):
        gid[0] += 1
        base_rec['group'] = gid[0]
        base_rec['transform'] = 'base'
        for name, q, style in g.variants(p, members):
            r2 = rec_from_problem(q, base_rec['family'], 'class', truth=base_rec['truth'], group=gid[0], transform=name, style=style)
            recs.append(r2)

    for i in range(n_pl):
        p, M = g.planted()
        r = rec_from_problem(p, 'planted', 'planted', truth='S', model=M)
        recs.append(r)
        if i < n_cls // 2:
            add_class(r, p)
    for i in range(n_near):
        p, fam = g.near()
        r = rec_from_problem(p, fam, 'near')
        recs.append(r)
        if i < n_cls // 2:
            add_class(r, p)
    # bound re-tightening inside a failing branch and tp difference-logic cycles: always with the member whose disjuncts
    # state their (independent) statements in another order
    n_rt, n_tp = (70, 180) if not ctx.thorough else (1200, 3000)
    for i in range(n_rt + n_tp):
        p, M = g.retighten() if i < n_rt else g.tpcycle()
        r = rec_from_problem(p, 'retighten' if i < n_rt else 'tpcycle', 'planted' if M else 'near', truth='S' if M else None, model=M)
        recs.append(r)
        gid[0] += 1
        r['group'] = gid[0]
        r['transform'] = 'base'
        for name, q, style in g.variants(p, 3, force=('reorder-inner',)):
            recs.append(rec_from_problem(q, r['family'], 'class', truth=r['truth'], group=gid[0], transform=name, style=style))
    # large problems (110-150 variables, a handful of constraints): caches keyed on variable ids
    n_big = 10 if not ctx.thorough else 120
    for i in range(n_big):
        full, small, twin, small_twin = g.large_n(numeric=(i % 5 == 4))
        gid[0] += 1
        for prob, ref, tr in ((full, small, 'base'), (twin, small_twin, 'declarations-permuted')):
            r = rec_from_problem(ref, 'large-n', 'near', group=gid[0], transform=tr)     # ground truth on the constrained variables
            r['text'] = c02_gen.to_riddle(prob)
            r['p'] = None
            recs.append(r)
    # a dead disjunct with expanded inner flaws, decisions on their literals, then a backjump to root; the twin is the same
    # problem without the dead disjunct
    n_bj = 120 if not ctx.thorough else 2000
    for i in range(n_bj):
        p, M, q = g.backjump()
        r = rec_from_problem(p, 'backjump', 'planted', truth='S', model=M)
        recs.append(r)
        gid[0] += 1
        r['group'] = gid[0]
        r['transform'] = 'base'
        recs.append(rec_from_problem(q, 'backjump', 'class', truth='S', model=M, group=gid[0], transform='dead-disjunct-removed'))
        for name, q2, style in g.variants(p, 2, force=('reorder-inner',) if i % 2 else ('reorder',)):
            recs.append(rec_from_problem(q2, 'backjump', 'class', truth='S', group=gid[0], transform=name, style=style))
    # goals that can only be achieved by unification with a fact; the role-exchanged twin must get the same verdict
    U = c02_plans.Unify(rng)
    n_un = 150 if not ctx.thorough else 2500
    for i in range(n_un):
        d = U.make()
        gid[0] += 1
        base_gid = gid[0]
        symmetric = len(d['facts']) == 1 and len(d['goals']) == 1
        for transform, exch, gfirst in (('base', False, False), ('roles-exchanged', True, False), ('goal-before-fact', False, True)):
            if transform == 'goal-before-fact' and rng.random() < 0.5:
                continue
            lines, atoms, fs, gs = U.render(d, exchanged=exch, goal_first=gfirst, force_false=True)
            decls, implicit = U.reference(d, fs, gs)
            p = {'decls': decls, 'stmts': list(d['cons']), 'enums': d['enums']}
            r = rec_from_problem(p, 'unify' if not gfirst else 'unify:goal-before-fact', 'unify', header=[], implicit=implicit)
            pr = c02_gen.Printer({n: t for t, n in decls}, None)
            cons_txt = pr.stmts(d['cons'])

            def text(ls):
                return "\n".join(ls + (cons_txt + atoms if i % 2 == 0 else atoms + cons_txt)) + "\n"
            r['text'] = text(lines)
            if d['body'] != 'false' and not gfirst:
                # the infinite-regress rule is only used where the problem turns out to be feasible (otherwise the planner
                # extends the graph for ever: a timeout, which is not judged)
                r['text_if_feasible'] = text(U.render(d, exchanged=exch, goal_first=gfirst)[0])
            r['p'] = None                      # small already: no minimisation
            if exch and not symmetric:
                gid[0] += 1                    # several goals against one fact is another problem: judged on its own
                r['group'] = gid[0]
            else:
                r['group'] = base_gid
            r['transform'] = transform
            recs.append(r)
        # the same facts, created by the rules of other goals.  Only "producer stated first, one level, no disjunct" works
        # in the planner: unification targets are fixed when the goal's flaw is expanded (known finding, no small repair)
        if rng.random() < 0.6:
            variants = [('producer-first', True, 1, False)]
            variants.append(rng.choice([('target-created-later', False, 1, False), ('target-created-later', True, 2, False),
                                        ('target-created-later', False, 2, False), ('target-created-later', True, 1, True),
                                        ('target-created-later', False, 1, True)]))
            for transform, pfirst, depth, indisj in variants:
                lines, atoms, fs, gs = U.render_produced(d, pfirst, depth, indisj)
                decls, implicit = U.reference(d, fs, gs)
                p = {'decls': decls, 'stmts': list(d['cons']), 'enums': d['enums']}
                r = rec_from_problem(p, 'unify:' + transform, 'unify', header=[], implicit=implicit)
                pr = c02_gen.Printer({n: t for t, n in decls}, None)
                r['text'] = "\n".join(lines + pr.stmts(d['cons']) + atoms) + "\n"
                r['p'] = None
                r['group'] = base_gid if transform == 'producer-first' else None
                r['transform'] = transform
                recs.append(r)
    for i in range(n_sched):
        s = S.any()
        p = {'decls': s['decls'], 'stmts': s['stmts']}
        recs.append(rec_from_problem(p, s['family'], 'sched', header=s['header'], implicit=s['implicit']))
    for i in range(n_plan):
        it = P.any()
        gid[0] += 1
        recs.append(rec_from_text(it['text'], it['family'], 'plan', truth=it['expect'], group=gid[0], transform='base', note=it['plan']))
        for name, t in it['members']:
            recs.append(rec_from_text(t, it['family'], 'class', truth=it['expect'], group=gid[0], transform=name, note=it['plan']))
    return recs


def corpus_records():
    """corpus/C02/*.rddl: first lines  // expect: S|U|?   // family: name   (always run first)"""
    out = []
    for f in sorted(glob.glob(os.path.join(vlib.VERIF, "corpus", "C02", "*.rddl"))):
        text = open(f).read()
        exp = None
        for l in text.split("\n")[:4]:
            if l.startswith("// expect:"):
                e = l.split(":", 1)[1].strip()
                exp = e if e in ("S", "U") else None
        r = rec_from_text(text, "corpus:" + os.path.basename(f), 'corpus', truth=exp)
        out.append(r)
    return out


# ------------------------------------------------------------------------------------------------
# ground truth through the oracle
# ------------------------------------------------------------------------------------------------
def integral(rec, M):
    return all(M[n].denominator == 1 for n in rec.get('ints', []))


def judge_by_reference(ctx, orc, rec, stats):
    """fills rec['ref'] in sat / unsat / timeout / error and rec['truth'] where it can"""
    if rec.get('sexp') is None:
        return
    ans = orc.ask("P " + rec['sexp'])
    if ans is None or ans.startswith("?stackoverflow"):
        rec['ref'] = 'timeout'
        stats['ref_timeout'] = stats.get('ref_timeout', 0) + 1
        return
    kind, M = c02_gen.parse_ref_answer(ans, rec['bidx'], rec['xidx'])
    rec['ref'] = kind
    if kind == 'error':
        ctx.violation("corr:c02:oracle-error", {"kind": "oracle-failure", "answer": ans, "program": rec['text'], "sexp": rec['sexp']}, no_input=True)
        return
    if kind == 'sat':
        rec['ref_model'] = M
        if not c02_gen.ev_problem(rec['refp'], M):
            ctx.violation("corr:c02:ref-model-rejected-by-python", {"kind": "reference-model-does-not-satisfy-the-problem (generator / front-end / extraction)",
                                                                  "program": rec['text'], "sexp": rec['sexp'], "answer": ans}, no_input=True)
            rec['ref'] = 'error'
            return
        if not integral(rec, M):
            # the witness is over Q: try to move the int variables to neighbouring integers
            import math
            M2 = dict(M)
            for n in rec.get('ints', []):
                if M2[n].denominator != 1:
                    for cand in (Fr(math.floor(M2[n])), Fr(math.ceil(M2[n]))):
                        M3 = dict(M2)
                        M3[n] = cand
                        if c02_gen.ev_problem(rec['refp'], M3):
                            M2 = M3
                            break
            if integral(rec, M2) and c02_gen.ev_problem(rec['refp'], M2):
                M = M2
                rec['ref_model'] = M
        if rec['truth'] is None:
            if integral(rec, M):
                rec['truth'] = 'S'
            else:
                rec['truth_relaxed'] = 'S'     # feasible over Q, int variables not integral in this witness: undetermined
                stats['undetermined_int'] = stats.get('undetermined_int', 0) + 1
    elif kind == 'unsat':
        if rec['truth'] == 'S':
            ctx.violation("corr:c02:ref-unsat-on-planted", {"kind": "reference procedure says unsat on a problem with a planted model",
                                                           "program": rec['text'], "sexp": rec['sexp'], "model": {k: str(v) for k, v in (rec['model'] or {}).items()}}, no_input=True)
        elif rec['truth'] is None:
            rec['truth'] = 'U'


# ------------------------------------------------------------------------------------------------
# minimisation (delta debugging over statements, disjuncts and sub-formulas) of a constraint problem that is rejected
# although feasible; the features of the minimised program name the failing input class in the signature
# ------------------------------------------------------------------------------------------------
def shrink_form(f):
    """strictly smaller formulas obtained from f by one step (not equivalent: the caller re-judges each candidate)"""
    k = f[0]
    if k == 'not':
        yield f[1]
        for g in shrink_form(f[1]):
            yield ('not', g)
    elif k in ('and', 'or', 'xor'):
        ops = f[1]
        for i in range(len(ops)):
            rest = ops[:i] + ops[i + 1:]
            yield rest[0] if len(rest) == 1 else (k, rest)
        for i in range(len(ops)):
            for g in shrink_form(ops[i]):
                yield (k, ops[:i] + [g] + ops[i + 1:])
    elif k in ('imp', 'iff', 'neq'):
        yield f[1]
        yield f[2]
        for g in shrink_form(f[1]):
            yield (k, g, f[2])
        for g in shrink_form(f[2]):
            yield (k, f[1], g)


def shrink_stmts(stmts):
    for i in range(len(stmts) - 1, -1, -1):
        yield stmts[:i] + stmts[i + 1:]
    for i, s in enumerate(stmts):
        if s[0] == 'disj':
            bodies = s[1]
            if len(bodies) > 1:
                for j in range(len(bodies)):
                    yield stmts[:i] + [('disj', bodies[:j] + bodies[j + 1:])] + stmts[i + 1:]
            for j, b in enumerate(bodies):
                for b2 in shrink_stmts(b):
                    if b2:
                        yield stmts[:i] + [('disj', bodies[:j] + [b2] + bodies[j + 1:])] + stmts[i + 1:]
        elif s[0] == 'c':
            for g in shrink_form(s[1]):
                yield stmts[:i] + [('c', g)] + stmts[i + 1:]


def printable(p):
    try:
        c02_gen.to_riddle(p)
        return True
    except (AssertionError, StopIteration, ValueError, KeyError):
        return False


def features(p):
    fs = set()
    types = {n: t for t, n in c02_gen.all_decls(p)}

    def wf(f):
        k = f[0]
        if k == 'b':
            fs.add('bool')
        elif k == 'xx':
            fs.add('x-op-x')
        elif k in ('eeq', 'ene'):
            fs.add('enum')
        elif k == 'cmp':
            fs.add({'lt': 'strict', 'gt': 'strict', 'le': 'le', 'ge': 'le', 'eq': 'eq', 'ne': 'ne'}[f[1]])
            if any(types.get(x) == 'int' for x in f[2][0]):
                fs.add('int')
        elif k == 'not':
            fs.add('not')
            wf(f[1])
        elif k in ('and', 'or', 'xor'):
            fs.add(k)
            for g in f[1]:
                wf(g)
        else:
            fs.add(k)
            wf(f[1])
            wf(f[2])

    def ws(stmts, inside):
        for s in stmts:
            if s[0] == 'c':
                wf(s[1])
            elif s[0] == 'decl' and inside:
                fs.add('local-decl')
            elif s[0] == 'disj':
                fs.add('disj')
                for b in s[1]:
                    ws(b, True)
    ws(p['stmts'], False)
    return fs


def slug_of(fs):
    # the dominant feature names the input class; otherwise the whole feature set
    for dom in ('local-decl', 'xor'):
        if dom in fs:
            return dom
    return "+".join(sorted(fs)) or "empty"


def minimise(ctx, orc, exe, rec):
    """-> (program text, extra replay fields, slug naming the failing input class)"""
    if rec.get('p') is None:
        return rec['text'], None, rec['family']
    p = c02_gen.clone(rec['p'])
    implicit, header, style = rec.get('implicit'), rec.get('header'), rec.get('style')
    deadline = [time.time() + (25 if not ctx.thorough else 60)]

    def still_bad(q):
        if time.time() > deadline[0] or not printable(q) and header is None:
            return None
        r2 = rec_from_problem(q, rec['family'], 'min', header=header, implicit=implicit, style=style)
        v, _ = run_harness(exe, [r2['text']], 3)[0]
        if vclass(v) != 'U':
            return None
        ans = orc.ask("P " + r2['sexp'])
        if ans is None:
            return None
        kind, M = c02_gen.parse_ref_answer(ans, r2['bidx'], r2['xidx'])
        if kind == 'sat' and c02_gen.ev_problem(r2['refp'], M) and all(M[n].denominator == 1 for n in r2['ints']):
            return r2, M, v
        return None
    best = still_bad(p)
    if best is None:
        return rec['text'], None, (rec['family'] if implicit is not None else slug_of(features(rec['p'])))
    changed = True
    while changed and time.time() < deadline[0]:
        changed = False
        for stmts in shrink_stmts(p['stmts']):
            q = dict(p, stmts=stmts)
            try:
                b = still_bad(q)
            except (AssertionError, StopIteration, ValueError, KeyError):
                b = None
            if b is not None:
                p, best, changed = q, b, True
                break
    if implicit is None:
        # drop unused declarations
        used = json.dumps(p['stmts'], default=str)
        q = dict(p, decls=[(t, n) for t, n in p['decls'] if ('"%s"' % n) in used])
        b = still_bad(q)
        if b is not None:
            p, best = q, b
    r2, M, v = best
    slug = rec['family'] if implicit is not None else slug_of(features(p))
    return r2['text'], {"witness_model": {k: str(x) for k, x in sorted(M.items())}, "verdict": v, "features": sorted(features(p))}, slug


def pending_fixes():
    """notes/fixes/C02-pending.json: defects found by this check whose repair (a patch file under notes/fixes) has not been
    committed to /repo yet; listed signatures are reported as PENDING-FIX and do not fail the check"""
    f = os.path.join(vlib.VERIF, "notes", "fixes", "C02-pending.json")
    if not os.path.exists(f):
        return {}
    return {e["signature"]: e.get("what", "") for e in json.load(open(f))}


# ------------------------------------------------------------------------------------------------
def run(ctx):
    cov = ctx.cov
    t0 = time.time()
    # 1. proofs ---------------------------------------------------------------------------------
    state = {"found": False}

    def search(res):
        return state["found"]
    # the differential below is also the failing-input search, so it runs first when the proofs are fine too
    # 2. builds ---------------------------------------------------------------------------------
    oexe, olog = build_oracle()
    if not oexe:
        vlib.proof_stage(ctx, search=search)
        ctx.violation("build:oracle_c02", {"kind": "oracle-build-failed", "log": olog[-3000:]}, no_input=True)
        return
    cfgs = c02_build.THOROUGH if ctx.thorough else c02_build.QUICK
    exes = {}
    for c in cfgs:
        exe, log = c02_build.build(c)
        if not exe:
            ctx.violation("build:h_verdict:" + c, {"kind": "harness-build-failed", "config": c, "log": log[-3000:]}, no_input=True)
            return
        exes[c] = exe
    ctx.log("builds ready (%.0fs): %s" % (time.time() - t0, ", ".join(cfgs)))

    # 3. inputs ----------------------------------------------------------------------------------
    recs = corpus_records() + generate(ctx)
    stats = {}
    orc = Oracle(oexe)
    for r in recs:
        judge_by_reference(ctx, orc, r, stats)
        if r.get('text_if_feasible') and r['truth'] == 'S':
            r['text'] = r['text_if_feasible']
    ctx.log("generated %d problems, reference answers: %s (%.0fs)" % (
        len(recs), {k: sum(1 for r in recs if r.get('ref') == k) for k in ('sat', 'unsat', 'timeout')}, time.time() - t0))

    # 4. run and compare -------------------------------------------------------------------------
    verdicts = {}
    events = []
    for c in cfgs:
        out = run_harness(exes[c], [r['text'] for r in recs], 10 if not ctx.thorough else 20)
        verdicts[c] = out
        for i, (v, evs) in enumerate(out):
            for e in evs:
                events.append((c, i, e))
        ctx.log("config %s: %s (%.0fs)" % (c, {k: sum(1 for v, _ in out if vclass(v) == k) for k in "SUTAPX?"}, time.time() - t0))

    dist = {}
    hits = {}
    agree = 0
    judged = 0

    pending = pending_fixes()
    pend_hits = {}

    def report(sig, payload):
        if sig in pending and not ctx.known(sig):
            pend_hits[sig] = pend_hits.get(sig, 0) + 1
            if pend_hits[sig] == 1:
                print("PENDING-FIX: property=C02 %s -- %s" % (sig, pending[sig]), flush=True)
                ctx.sample({"pending_fix": sig, "what": pending[sig], "example": payload.get("minimised_program") or payload.get("program")})
            return
        hits[sig] = hits.get(sig, 0) + 1
        state["found"] = True
        if hits[sig] <= 2 and state.get("reported", 0) < 12:      # at most 12 replay files per run; everything is counted
            state["reported"] = state.get("reported", 0) + 1
            ctx.violation(sig, payload)

    for i, r in enumerate(recs):
        for c in cfgs:
            v, _ = verdicts[c][i]
            k = vclass(v)
            key = "%s/%s truth=%s impl=%s" % (r['kind'], r['family'] if r['kind'] != 'corpus' else 'corpus', r['truth'], k)
            dist[key] = dist.get(key, 0) + 1
            if r['truth'] in ('S', 'U') and k in ('S', 'U'):
                judged += 1
                agree += (r['truth'] == k)
            if r['truth'] == 'S' and k == 'U':
                if hits.get("__min__", 0) < 12 and r.get('p') is not None and r.get('ref') == 'sat':
                    hits["__min__"] = hits.get("__min__", 0) + 1
                    text, extra, slug = minimise(ctx, orc, exes[c], r)
                else:
                    text, extra, slug = r['text'], None, (slug_of(features(r['p'])) if r.get('p') is not None and r.get('implicit') is None else r['family'])
                pay = {"kind": "declared-unsolvable-although-feasible", "config": c, "defines": c02_build.CONFIGS[c], "program": r['text'],
                       "minimised_program": text, "verdict": v, "family": r['family'], "transform": r.get('transform'),
                       "ground_truth": "planted model / plan" if r['kind'] in ('planted', 'plan') or r.get('model') else "ref_solve (Coq: C02_ref_sat_is_model)",
                       "witness": {k2: str(x) for k2, x in sorted((r.get('model') or r.get('ref_model') or {}).items())} or r.get('note'),
                       "replay_cmd": "python3 tools/verif.py C02 replay <this file>"}
                if extra:
                    pay.update(extra)
                report("verdict:unsolvable-but-feasible:" + slug, pay)
            elif r['truth'] == 'S' and k in ('A', 'X', 'P'):
                what = " ".join(v.split(' #')[0].split(" ")[1:]).split("what():")[-1].strip()[:80] or r['family']
                report("verdict:%s-on-feasible:%s" % ({'A': 'abort', 'X': 'exception', 'P': 'read-exception'}[k], what),
                       {"kind": "feasible problem not solved: " + v.split(' #')[0], "config": c, "program": r['text'], "verdict": v, "family": r['family']})
            elif r['truth'] is None and k in ('P',) and r['kind'] != 'corpus':
                report("verdict:read-exception-on-valid-program:" + r['family'],
                       {"kind": "generated well-typed program rejected while reading: " + v.split(' #')[0], "config": c, "program": r['text'], "verdict": v})
            elif r['truth'] == 'U' and k == 'S':
                stats['solved_but_infeasible'] = stats.get('solved_but_infeasible', 0) + 1
                if stats['solved_but_infeasible'] <= 3:
                    ctx.sample({"note": "NOT a C02 matter (C01): solved although ref_solve says infeasible", "config": c, "program": r['text'], "verdict": v})
    # equivalence classes and configurations
    groups = {}
    for i, r in enumerate(recs):
        if r.get('group') is not None:
            groups.setdefault(r['group'], []).append(i)
    flips = 0
    for gidx, members in groups.items():
        for c in cfgs:
            ks = [(i, vclass(verdicts[c][i][0])) for i in members]
            ks = [(i, k) for i, k in ks if k in ('S', 'U')]
            if len({k for _, k in ks}) > 1:
                flips += 1
                a = next(i for i, k in ks if k == 'S')
                b = next(i for i, k in ks if k == 'U')
                report("verdict:flip:" + (recs[b].get('transform') if recs[b].get('transform') != 'base' else recs[a].get('transform') or "?"),
                       {"kind": "semantically equivalent formulations get different verdicts", "config": c,
                        "program_solved": recs[a]['text'], "transform_solved": recs[a].get('transform'), "verdict_solved": verdicts[c][a][0],
                        "program_unsolvable": recs[b]['text'], "transform_unsolvable": recs[b].get('transform'), "verdict_unsolvable": verdicts[c][b][0],
                        "truth": recs[a]['truth']})
    cflips = 0
    for i, r in enumerate(recs):
        ks = {c: vclass(verdicts[c][i][0]) for c in cfgs}
        su = {k for k in ks.values() if k in ('S', 'U')}
        if len(su) > 1:
            cflips += 1
            report("verdict:flip:configuration", {"kind": "the same program gets different verdicts in different solver configurations",
                                                  "program": r['text'], "verdicts": {c: verdicts[c][i][0] for c in cfgs}, "truth": r['truth']})

    # 5. K2 on the hook events --------------------------------------------------------------------
    kinds = {}
    bad_ev = 0
    for c, i, e in events:
        parts = [x.strip() for x in e.split("|")]
        if len(parts) < 5:
            continue
        kinds[parts[0]] = kinds.get(parts[0], 0) + 1
        ok = parts[4] == "ok" and orc.ask("E " + e) == "ok"
        if not ok:
            bad_ev += 1
            report("nogood:shape:kind%s" % parts[0],
                   {"kind": "search-control clause does not have the documented shape", "hook_kind": parts[0], "clause": parts[1], "decisions_standing": parts[2],
                    "decision_popped": parts[3], "spy": parts[4], "config": c, "program": recs[i]['text'],
                    "expected": "kind 1: rev(map neg (standing ++ [popped]));  kind 5: choice :: map neg decisions"})
    orc.close()
    ctx.log("hook events checked: %s, malformed: %d" % (kinds, bad_ev))

    # proofs (after the differential so that a broken obligation can point at a concrete failing input)
    vlib.proof_stage(ctx, search=search)

    # 6. evidence ----------------------------------------------------------------------------------
    nontrivial = {r['text'] for r in recs if r.get('p') is not None and c02_gen.count_atoms(r['refp']) >= 3}
    nontrivial |= {r['text'] for r in recs if r.get('p') is None}
    cov["evaluations"] = len(recs) * len(cfgs)
    cov["problems"] = len(recs)
    cov["configurations"] = {c: c02_build.CONFIGS[c] for c in cfgs}
    cov["distinct_nontrivial"] = len(nontrivial)
    cov["judged_against_ground_truth"] = judged
    cov["traces_validated_against_impl"] = agree
    cov["input_distribution"] = dict(sorted(dist.items()))
    cov["reference_answers"] = {k: sum(1 for r in recs if r.get('ref') == k) for k in ('sat', 'unsat', 'timeout', 'error')}
    cov["equivalence_classes"] = len(groups)
    cov["class_flips"] = flips
    cov["configuration_flips"] = cflips
    cov["hook_events_checked"] = kinds
    cov["hook_events_malformed"] = bad_ev
    cov["pending_fixes_hit"] = pend_hits
    cov["violations_by_signature"] = {k: v for k, v in hits.items() if not k.startswith("__")}
    cov["stats"] = stats
    cov["rule"] = ("<= 12 variables, <= 25 atoms per constraint problem; constants of tight atoms are the value of the expression in the planted model "
                   "(+-0, 1/2, 1, 3); families planted / cut / cycle / squeeze / guard / parity / random / sched_sv / sched_rr / plans with goals; "
                   "non-trivial = at least 3 atoms, or goals/facts/timelines")
    for r in recs[:: max(1, len(recs) // 5)]:
        ctx.sample({"family": r['family'], "truth": r['truth'], "program": r['text'][:600], "verdicts": {c: verdicts[c][recs.index(r)][0].split(' #')[0][:80] for c in cfgs}})
    cov["trusted_base"] += [
        "tools/c02_gen.py / c02_plans.py: ONE internal representation printed both as RIDDLE text and as the reference procedure's input; "
        "python Fractions re-check every model returned by the extracted ref_solve",
        "the encoding of timeline semantics for ref_solve in the sched families (no overlap on a state variable; pairwise-overlap / capacity on a reusable resource; Interval axioms of INIT_STRING)",
        "`int` variables: ground truth is feasibility over Q (what core::new_int implements); a Q-model is used against the implementation only when integral on the int variables",
        "harness/h_verdict.cpp (fork per problem, alarm() budget, spy theory mirroring the decision stack) and oracle/c02_main.ml",
        "NoGood.v: Sol (the set of solutions within the current graph) is abstract; that the planner calls next() only on dead prefixes is NOT proved (named gap)",
    ]
    ctx.assumptions += ["search terminates within the budget (10 s quick / 20 s thorough per problem); timeouts are counted, not judged",
                        "completeness of the planner's heuristic search for arbitrary planning domains is not provable without a model of the whole search: "
                        "C02_root_conflict_no_solution_partial assumes every kind-1 / kind-5 clause obeys the protocol; only their SHAPE is checked on real runs"]


# ------------------------------------------------------------------------------------------------
def replay(path):
    rep = json.load(open(path))
    progs = [rep[k] for k in ("minimised_program", "program", "program_solved", "program_unsolvable") if rep.get(k)]
    cfg = rep.get("config") or "hmax"
    cfgs = [cfg] if cfg in c02_build.CONFIGS else list(c02_build.QUICK)
    if rep.get("signature", "").endswith("configuration"):
        cfgs = list(c02_build.THOROUGH)
    rc = 0
    for c in cfgs:
        exe, log = c02_build.build(c)
        if not exe:
            print("harness build failed", log[-2000:])
            return 2
        out = run_harness(exe, progs, 20)
        for t, (v, evs) in zip(progs, out):
            print("--- config %s ---\n%s--> %s" % (c, t, v))
            for e in evs[:10]:
                print("    E", e)
        ks = [vclass(v) for v, _ in out]
        sig = rep.get("signature", "")
        if sig.startswith("verdict:unsolvable-but-feasible") and 'U' in ks[:1]:
            rc = 1
        if sig.startswith("verdict:flip") and len({k for k in ks if k in "SU"}) > 1:
            rc = 1
        if "-on-feasible" in sig and ks and ks[0] in "AXP":
            rc = 1
    print("still violating" if rc else "not reproduced")
    return rc
