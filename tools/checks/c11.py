"""C11 -- a linear-relation literal means exactly its relation.

1. proofs: props/Properties_C11.v (literal meaning for fresh / shared / constant literals, new_eq, solution set unchanged).
2b. queries: equates / bounds / lb / ub / value on pairs of expressions over interval classes (equal, disjoint, touching closed /
   by an infinitesimal, overlapping, strictly nested both ways, constants, infinite ends), compared with the model and judged by
   exact interval arithmetic in python.
2. tie: the trace differential of the LRA model (see c09.py) on request-heavy scripts: returned literal, number of
   propositional variables consumed, slack identity (through the assertion table), bounds, tableau after every request.
3. semantic probe on the REAL code: the literal (and its negation) is assumed together with x_i = q_i for rational points
   aimed at the relation's boundary; the feasibility reported by sat_core::check must equal the relation evaluated
   exactly (python Fractions) -- the independent judge and the failing-input search.
"""
import json
import os
import re

import vlib
import lra_tools as T
from checks import c09

LEVEL = "proof"


def run(ctx):
    cov = ctx.cov
    vlib.proof_stage(ctx, search=None)
    exe, oexe, log = T.build_all(vlib)
    if not exe or not oexe:
        ctx.violation("build:lra", {"kind": "build-failed", "log": log[-3000:]}, no_input=True)
        return
    rng = ctx.rng
    report = lambda c, sig, rep, no_input=False: c09.report(c, sig, rep, no_input)
    # ---- semantic probe ------------------------------------------------------------------------------------------
    n_probe = 1000 if not ctx.thorough else 15000
    probes = [T.gen_semantic_probe_pivoted(rng) if rng.random() < 0.45 else T.gen_semantic_probe(rng) for _ in range(n_probe)]
    r = vlib.run([exe], stdin="".join(p[0].text() for p in probes), timeout=600 if ctx.thorough else 120)
    got, cur, dead, nonroot = [], None, [], 0
    basic_now, req_basic, req_basic_scaled = set(), 0, 0
    for line in (r.out or "").split("\n"):
        if line.startswith("S "):
            try:
                basic_now = set(int(x) for x in re.findall(r"\[(\d+) ", line.split(" | ")[3]))
            except (IndexError, ValueError):
                basic_now = set()
        elif line.startswith("E newrel") or line.startswith("E neweq"):
            # relations whose left-hand side mentions a variable that is basic at the time of the request (substitution path)
            left = line.split("|")[-2].split()
            terms = [t.split(":") for t in left if ":" in t and not t.startswith("c=")]
            hit = [(int(v), c) for v, c in terms if v.isdigit() and int(v) in basic_now]
            if hit:
                req_basic += 1
                if any(c not in ("1/1",) for _, c in hit):
                    req_basic_scaled += 1
        if line.startswith("E reset"):
            basic_now = set()
            cur = []
            got.append(cur)
            dead.append(False)
        elif line.startswith("C checklits ") and cur is not None:
            cur.append(line.split()[-1] == "1")
        elif line.startswith("C skipped-dead") and dead:
            dead[-1] = True
        elif line.startswith("C precondition-violated"):
            nonroot += 1
    if "C end" not in (r.out or "")[-100:]:
        k = max(0, len(got) - 1)
        report(ctx, "lra:crash", {"kind": "implementation-aborted", "script": probes[min(k, len(probes) - 1)][0].text(), "rc": r.rc, "stderr": (r.err or "")[-500:]})
    st = {"probes": 0, "relation_true": 0, "relation_false": 0, "dead_root": 0, "boundary": 0}
    bad = 0
    for (sc, exp, root_feasible), g, d in zip(probes, got, dead):
        if d:
            st["dead_root"] += 1
            if root_feasible:
                bad += 1
                if bad == 1:
                    report(ctx, "lra:literal-meaning:root-unsat-claimed", {"kind": "root-assertions-feasible-but-rejected", "script": sc.text()})
            continue
        for e, a in zip(exp, g):
            st["probes"] += 1
            st["relation_true" if e else "relation_false"] += 1
            if e != a:
                bad += 1
                if bad <= 2:
                    report(ctx, "lra:literal-meaning", {"kind": "literal-does-not-mean-its-relation", "script": sc.text(),
                                                        "expected_feasible": e, "implementation": a,
                                                        "explanation": "literal (or its negation) assumed together with x_i = q_i; feasibility must equal the relation evaluated at q"})
    st["requests_over_a_basic_variable"] = req_basic
    st["requests_over_a_basic_variable_with_coefficient_not_1"] = req_basic_scaled
    cov["semantic_probe"] = st
    # ---- differential --------------------------------------------------------------------------------------------
    n = 800 if not ctx.thorough else 10000
    scs = [T.gen_queries(rng) if (r := rng.random()) < 0.3 else T.gen_requests(rng) if r < 0.8 else T.gen_scenario(rng, "mixed") for _ in range(n)]
    cdir = os.path.join(vlib.VERIF, "corpus", "C11")
    corp = []
    if os.path.isdir(cdir):
        for f in sorted(os.listdir(cdir)):
            if f.endswith(".json"):
                corp.append(json.load(open(os.path.join(cdir, f)))["script"])
    scripts = corp + [s.text() for s in scs]
    out = T.run_differential(vlib, exe, oexe, "".join(scripts), timeout=600 if ctx.thorough else 120)
    impl, model = out["impl"], out["model"]
    if out["crashed"] or len(impl) < len(scripts):
        k = max(0, len(impl) - 1)
        report(ctx, "lra:crash", {"kind": "implementation-aborted", "script": scripts[min(k, len(scripts) - 1)], "rc": out["rc"], "stderr": out["stderr"]})
    stats = {"requests": 0, "true_false": 0, "shared": 0, "fresh": 0, "eq": 0, "queries": 0, "slack_reused": 0, "events": 0}
    mism, first = 0, None
    jfail = [l for l in out["judge"] if " FAIL " in l]
    for si, (a, b) in enumerate(zip(impl, model)):
        nprev = None
        for rec in a:
            if not rec["E"]:
                continue
            stats["events"] += 1
            E, R = rec["E"], rec["R"] or ""
            if E.startswith("E newrel") or E.startswith("E neweq"):
                stats["requests"] += 1
                stats["eq"] += E.startswith("E neweq")
                if R.startswith("R lit 0"):
                    stats["true_false"] += 1
                elif R.endswith(" 0"):
                    stats["shared"] += 1
                else:
                    stats["fresh"] += 1
                n_now = int(rec["S"].split(" | ")[0].split("=")[1]) if rec["S"] else None
                if nprev is not None and n_now == nprev and not R.startswith("R lit 0"):
                    stats["slack_reused"] += 1
            if E.startswith("E query"):
                stats["queries"] += 1
            if rec["S"]:
                nprev = int(rec["S"].split(" | ")[0].split("=")[1])
        d = T.compare_scenario(a, b)
        if d:
            mism += 1
            if first is None:
                first = (si, d)
    # the query functions (bounds / lb / ub / value / equates), judged independently of the model by exact interval arithmetic
    nq, badq = T.judge_queries(impl)
    cov["queries_judged"] = nq
    cov["query_interval_classes"] = dict(sorted(T.judge_queries.classes.items()))
    for b in badq[:3]:
        bad += 1
        report(ctx, "lra:query:" + b["event"].split()[1], {"kind": "query-answer-differs-from-exact-interval-arithmetic", "script": scripts[b["scenario"]],
                                                           "event": b["event"], "expected": b["expected"], "implementation": b["got"]})
    if jfail:
        report(ctx, "lra:k2", {"kind": "k2-checker-rejects-implementation-output", "lines": jfail[:5]})
    if first is not None and not bad and not jfail:
        si, d = first
        report(ctx, "corr:lra:" + d["what"], {"kind": "model-differs-from-implementation", "correspondence": "corr:lra (trace differential, requests)",
                                              "script": scripts[si], "first_difference": d,
                                              "semantic_probe": "no probe point distinguishes the implementation's literals from their relations"}, no_input=True)
    if nonroot:
        report(ctx, "lra:precondition:new_rel-above-root", {"kind": "monitored-precondition-violated", "count": nonroot}, no_input=True)
    cov.pop("_reported", None)
    cov["evaluations"] = st["probes"] + stats["events"]
    cov["distinct_nontrivial"] = st["probes"] + stats["shared"] + stats["true_false"] + stats["slack_reused"]
    cov["rule_round2"] = ("pivoted probes (45%): root assertions on sums violated by the initial values force pivots, then the target c*x (c != 1, sometimes "
                          "c*x + d*y) is requested against a constant at / next to the probe point, then further root bounds, then both polarities are probed")
    cov["rule"] = ("semantic probes: 1-4 variables, 0-3 root assertions, target relation (all five kinds) with its boundary placed at / next to a rational "
                   "probe point, requested before or after the root tightening, both polarities; differential: 6-16 requests per script over a pool of "
                   "shared / shifted / cancelling expressions and slack references, root assertions in between, queries")
    cov["input_distribution"] = stats
    cov["traces_validated_against_impl"] = len(impl) - mism
    cov["model_vs_impl_mismatching_scenarios"] = mism
    for p in probes[:3]:
        ctx.sample({"probe_script": p[0].text()[-200:], "expected": p[1]})
    cov["trusted_base"] += [
        "harness/h_lra.cpp, oracle/lra_*.ml, tools/lra_tools.py (generators, python Fractions as the exact judge of the semantic probe)",
        "C15 (exact arithmetic of rational / inf_rational / lin) and C13 (sat_core::new_conj clauses: a reified conjunction has the value of its conjunction)",
        "to_string(lin) / to_string(inf_rational) injective on canonical values: modelled by keying the sharing tables with the canonical data; monitored by the differential",
    ]
    ctx.assumptions += ["relations are requested at root level (hypothesis of the theorems; the harness reports requests above root level; the C++ asserts it in debug builds)"]


def replay(path):
    return c09.replay(path)


def prebuild():
    T.build_all(vlib)
