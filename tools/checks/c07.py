"""C07 -- the constraint network only infers what is entailed.

Pipeline (DESIGN.md 7-C07, CONVENTIONS.md):
  1. prove   props/Properties_C07.v (theorems over all histories of the Gallina model smt/SatCore.v + RUP checker)
  2. build   the extracted model + RUP checker (OCaml) and harness/h_sat.cpp from /repo's CURRENT sources
             (-DNDEBUG as the pinned build, and once more with the asserts alive)
  3. generate seeded operation histories (corpus first), steered by the implementation's own answers
  4. compare  model vs implementation line by line (return code, values, level, trail, decisions, levels, reasons,
             number of constraints, every clause seen by verif_hook)  -> the tie of the K1 theorems to the code
  5. judge   the implementation's trace with the property's own predicates (K2): every learnt clause is RUP (verified
             checker), next() no-goods have the documented shape, quiescent full assignments satisfy every added clause,
             `false` at root => unsatisfiable (exhaustive DPLL, <= 20 variables), check() = false => clauses + decisions +
             lits unsatisfiable, sampled values are entailed
     and, for the histories of the "probe" family (a scriptable smt::theory subclass in harness/h_sat.cpp, mirrored by the
     probe instance pr_propagate / pr_check / ext_conflict of coq/smt/SatCore.v): theory conflicts out of propagate(p) and
     check(), theory lemmas (theory::record), and conflicts raised from outside propagation through swap_conflict +
     backtrack_analyze_and_backjump while standing 0, 1, 2 levels above the conflict's highest level (level 0 included) - the
     declared theory clauses are axioms; after a true answer with an empty queue no clause (added, no-good, theory) is all
     false; a literal assigned at level 0 is never retracted; an external conflict answering false => unsatisfiable
  6. classify a disagreement: property predicate violated on the implementation => VIOLATION with the history;
             otherwise the model no longer describes the code => corr:sat:... no-failing-input-found
"""
import glob
import json
import os
import time

import vlib
import sat_lib
import sat_gen

LEVEL = "proof"
MAX_STABLE_LEARNT = 17   # std::sort is an insertion sort (stable) up to 16 elements: learnt clauses up to 17 literals


def prebuild():
    sat_lib.build_oracle()
    sat_lib.build_h_sat()
    sat_lib.build_h_sat(asserts=True)


def split_histories(lines, answers):
    """[(lines, answers)] per history (each starts with reset)"""
    out, cur_l, cur_a = [], [], []
    for l, a in zip(lines, answers):
        if l == "reset" and cur_l:
            out.append((cur_l, cur_a))
            cur_l, cur_a = [], []
        cur_l.append(l)
        cur_a.append(a)
    if cur_l:
        out.append((cur_l, cur_a))
    return out


def judge_history(lines, impl, oracle_exe, max_solve_vars=20):
    """K2 on one implementation trace. Returns (problems, stats)."""
    J = sat_lib.Judge(max_solve_vars)
    for i, (cmd, ans) in enumerate(zip(lines, impl)):
        if ans.startswith("?"):
            continue
        J.step(cmd, ans, i)
    problems = list(J.problems)
    for meta in sat_lib.rup_verdicts(oracle_exe, J):
        problems.append(("sat:learnt-clause-not-rup", meta))
    return problems, J.stats


def compare_history(lines, impl, model):
    """First index where model and implementation differ (None if equal), number of lines compared exactly, and
    whether the comparison was cut because a learnt clause exceeded the stable-sort bound."""
    cut = False
    n = 0
    for i, (a, b) in enumerate(zip(impl, model)):
        if a != b:
            return i, n, cut
        n += 1
        st = sat_lib.parse_state(a)
        for kind, ls in sat_lib.parse_hooks(st.get("hooks", "")):
            if kind in (0, 2) and len(ls) > MAX_STABLE_LEARNT:
                cut = True
        if cut:
            break
    if len(impl) != len(model) and not cut:
        return min(len(impl), len(model)), n, cut
    return None, n, cut


def shrink(lines, still_fails, budget=120):
    """Greedy removal of operations (keeping 'reset' and the variable creations) while the failure persists."""
    cur = list(lines)
    t0 = time.time()
    changed = True
    while changed and time.time() - t0 < budget:
        changed = False
        i = len(cur) - 1
        while i > 0 and time.time() - t0 < budget:
            if cur[i] in ("reset", "v"):
                i -= 1
                continue
            cand = cur[:i] + cur[i + 1:]
            if still_fails(cand):
                cur = cand
                changed = True
            i -= 1
    return cur


def run_history_on(exe, lines, args=()):
    r, out = sat_lib.run_lines(exe, lines, args=args, timeout=120)
    return r, out


def replay(path):
    d = json.load(open(path))
    lines = d.get("history") or d.get("minimised") or []
    h, _ = sat_lib.build_h_sat()
    o, _ = sat_lib.build_oracle()
    r1, impl = run_history_on(h, lines)
    r2, model = run_history_on(o, lines)
    for l, a, b in zip(lines, impl, model):
        print(l)
        print("  impl :", a)
        if a != b:
            print("  model:", b)
    probs, _ = judge_history(lines, impl, o)
    print("K2 problems:", probs)
    return 1 if (probs or impl != model) else 0


def run(ctx):
    cov = ctx.cov
    t_start = time.time()
    found = {"property": [], "corr": []}

    # ---- build -------------------------------------------------------------------------------------
    h, hlog = sat_lib.build_h_sat()
    if not h:
        ctx.violation("build:h_sat", {"kind": "harness-build-failed", "log": hlog[-3000:]}, no_input=True)
        return
    hd, hdlog = sat_lib.build_h_sat(asserts=True)
    if not hd:
        ctx.violation("build:h_sat_dbg", {"kind": "harness-build-failed", "log": hdlog[-3000:]}, no_input=True)
        return

    # ---- the oracle is extracted from the freshly compiled model files -----------------------------
    o, olog = sat_lib.build_oracle()
    if not o:
        ctx.violation("build:oracle_sat", {"kind": "oracle-build-failed", "log": olog[-3000:]}, no_input=True)
        return

    # ---- 3. inputs: corpus, then generated ------------------------------------------------------------
    histories = []
    for f in sorted(glob.glob(os.path.join(vlib.VERIF, "corpus", "C07", "*.txt"))):
        ls = [l for l in open(f).read().split("\n") if l and not l.startswith("#")]
        if ls and ls[0] != "reset":
            ls = ["reset"] + ls
        r, ans = run_history_on(h, ls)
        histories.append(("corpus:" + os.path.basename(f), ls, ans, r))
    n_corpus = len(histories)
    n_hist = 6000 if ctx.thorough else 600
    budget = 600 if ctx.thorough else 40
    fam_count = {}
    drv = sat_gen.Driver(h)
    t_gen = time.time()
    crashes = 0
    try:
        for k in range(n_hist):
            if time.time() - t_gen > budget or crashes >= 3:
                break
            fam = sat_gen.FAMILIES[k % len(sat_gen.FAMILIES)] if k < 4 * len(sat_gen.FAMILIES) else None
            try:
                fam, ls, ans = sat_gen.history(ctx.rng, drv, family=fam)
            except sat_gen.Crash as e:
                crashes += 1
                ctx.log("implementation died during steered generation:", e)
                histories.append((e.family, e.lines, e.answers, None))   # fewer answers than lines: reported below
                drv.close()
                drv = sat_gen.Driver(h)
                continue
            fam_count[fam] = fam_count.get(fam, 0) + 1
            histories.append((fam, ls, ans, None))
    finally:
        drv.close()
    gen_secs = time.time() - t_gen

    # ---- 4./5. model and assert-build on the same histories, compare + judge ----------------------------
    all_lines = [l for _, ls, ans, _ in histories if len(ans) == len(ls) for l in ls]
    r_model, model_out = run_history_on(o, all_lines)
    r_dbg, dbg_out = run_history_on(hd, all_lines)
    pos = 0
    stats_sum = {}
    ops_total = 0
    compared = 0
    mism = 0
    cut_hist = 0
    nontrivial = 0
    op_dist = {}
    max_level = 0
    skips = 0
    model_ub = 0
    corr_candidates = []
    for fam, ls, impl, r in histories:
        if len(impl) == len(ls):
            model = model_out[pos:pos + len(ls)]
            dbg = dbg_out[pos:pos + len(ls)]
            pos += len(ls)
        else:
            model, dbg = [], []
        ops_total += len(ls)
        for l, a in zip(ls, impl):
            op_dist[l.split(" ")[0]] = op_dist.get(l.split(" ")[0], 0) + 1
            st = sat_lib.parse_state(a)
            if st.get("rc") == "skip":
                skips += 1
            try:
                max_level = max(max_level, int(st.get("lvl", 0)))
            except ValueError:
                pass
        if len(impl) < len(ls):
            sig = "sat:crash"
            if sig not in found["property"]:
                found["property"].append(sig)
                def dies(cand):
                    rr, out = run_history_on(h, cand)
                    return len(out) < len(cand)
                hist = ls[:len(impl) + 1]
                mini = shrink(hist, dies, budget=60 if ctx.thorough else 20) if dies(hist) else hist
                rm, mo = run_history_on(o, mini)
                ctx.violation(sig, {"kind": "implementation-aborted-on-a-history-meeting-the-preconditions", "history": hist, "family": fam,
                                    "minimised": mini, "model_last_line": mo[-1] if mo else None,
                                    "model_flags_undefined_behaviour": any(" UB" in x for x in mo)})
            continue
        # K2 on the implementation
        probs, st = judge_history(ls, impl, o)
        for k, v in st.items():
            stats_sum[k] = stats_sum.get(k, 0) + v
        if st.get("learnt", 0) or st.get("nogoods", 0):
            nontrivial += 1
        for sig, detail in probs:
            if sig not in found["property"]:
                found["property"].append(sig)

                def fails(cand, sig=sig):
                    rr, out = run_history_on(h, cand)
                    if len(out) < len(cand):
                        return False
                    pp, _ = judge_history(cand, out, o)
                    return any(s == sig for s, _ in pp)
                mini = shrink(ls[:detail.get("op", len(ls)) + 1], fails, budget=60 if ctx.thorough else 20)
                ctx.violation(sig, {"kind": "property-predicate-violated-by-implementation", "family": fam, "detail": detail,
                                    "history": ls[:detail.get("op", len(ls)) + 1], "minimised": mini,
                                    "replay_cmd": "python3 tools/verif.py C07 replay <this file>"})
        # asserts alive
        if len(dbg) < len(ls) or dbg != impl:
            sig = "sat:assert-or-debug-divergence"
            if sig not in found["property"] and not probs:
                found["property"].append(sig)
                k = next((i for i, (a, b) in enumerate(zip(impl, dbg)) if a != b), min(len(dbg), len(ls) - 1))
                ctx.violation(sig, {"kind": "assert-fired-or-debug-build-differs-on-a-history-meeting-the-preconditions", "family": fam,
                                    "history": ls[:k + 1], "stderr": r_dbg.err[-400:]})
        # model vs implementation
        k, n, cut = compare_history(ls, impl, model)
        compared += n
        if cut:
            cut_hist += 1
        if any(" UB" in m for m in model[:len(ls)]):
            model_ub += 1
        if k is not None:
            mism += 1
            if not probs:
                corr_candidates.append((fam, ls, impl, model, k))
    # a disagreement on a history where the implementation's own trace satisfies every predicate: the model no longer
    # describes the code.  Reported (once, minimised) unless a genuine violation was found elsewhere in this run.
    if corr_candidates and not found["property"]:
        fam, ls, impl, model, k = min(corr_candidates, key=lambda c: c[4])
        op = ls[k].split(" ")[0] if k < len(ls) else "?"

        def differs(cand):
            r1, a = run_history_on(h, cand)
            r2, b = run_history_on(o, cand)
            kk, _, _ = compare_history(cand, a, b)
            return kk is not None
        mini = shrink(ls[:k + 1], differs, budget=60 if ctx.thorough else 20)
        ctx.violation("corr:sat:" + {"v": "new_var", "c": "new_clause", "a": "assume", "p": "propagate", "o": "pop", "n": "next",
                                     "k": "check", "s": "simplify_db", "r": "reset",
                                     "tc": "theory-propagate-check", "tx": "backtrack_analyze_and_backjump"}.get(op, op),
                      {"kind": "model-differs-from-implementation", "correspondence": "corr:sat (Gallina sat_core vs C++ sat_core)",
                       "family": fam, "history": ls[:k + 1], "minimised": mini, "disagreeing_histories": len(corr_candidates),
                       "implementation": impl[k] if k < len(impl) else None, "model": model[k] if k < len(model) else None,
                       "note": "the K2 judgement of the implementation's own traces found no violation of the property in this run"},
                      no_input=True)
    # ---- 2. proof evidence (after the implementation has been judged: that was the failing-input search) ----
    def search2(res):
        return bool(found["property"])
    vlib.proof_stage(ctx, search=search2)

    cov["evaluations"] = ops_total
    cov["histories"] = len(histories)
    cov["corpus_histories"] = n_corpus
    cov["traces_validated_against_impl"] = compared
    cov["model_vs_impl_mismatching_histories"] = mism
    cov["histories_cut_at_unstable_sort"] = cut_hist
    cov["model_raised_ub"] = model_ub
    cov["distinct_nontrivial"] = nontrivial
    cov["k2"] = stats_sum
    cov["input_distribution"] = {"families": fam_count, "ops": op_dist, "skipped_ops": skips, "max_decision_level": max_level}
    cov["probe_theory"] = {k: stats_sum.get(k, 0) for k in ("theory_clauses", "theory_conflicts", "theory_lemmas", "external_conflicts",
                                                            "external_conflicts_above_their_level", "external_conflicts_all_root", "quiet_checks")}
    cov["rule"] = ("steered histories of 30-300 operations over 4-30 variables: random 3-CNF at ratio 4.26, mixed 2-5-CNF, pigeonhole fragments, "
                   "implication chains, duplicated/complementary/constant literals, long (>16 literal) clauses, probe-theory histories (tc / tx), next()/check()-heavy and deep "
                   "decision stacks; ~4% unsteered operations (precondition skips must agree); non-trivial = at least one learnt clause or no-good")
    cov["timing_s"] = {"generate": round(gen_secs, 1), "total": round(time.time() - t_start, 1)}
    for fam, ls, impl, _ in histories[n_corpus:n_corpus + 3]:
        ctx.sample({"family": fam, "ops": len(ls), "last": impl[-1][:160] if impl else None})
    cov["trusted_base"] += [
        "harness/h_sat.cpp, oracle/sat_main.ml, tools/sat_gen.py, tools/sat_lib.py (drivers, generator, K2 judge incl. a small DPLL used "
        "only to look for counter-models; every model it returns is re-checked by evaluation)",
        "the theorems of Properties_C07.v are about the operations of [op]; theory::backtrack_analyze_and_backjump (ext_conflict in the "
        "model) and the scripted probe theory are covered by the exact differential and the K2 judgement only; while no theory clause "
        "has been declared the oracle runs the proved no-theory instance and the probe instance side by side and requires equal output",
        "std::sort is modelled by a stable insertion sort (libstdc++ below 17 elements); histories are compared only up to the first learnt "
        "clause longer than 17 literals",
        "the theorems hold for histories in which the model does not raise `ub` (C++ undefined behaviour / corrupted watch list); "
        "that is PROVED for every history (simplify_db included) of a network whose theories record no lemma "
        "(C07_no_undefined_behaviour_when_theories_record_no_lemma, via the two-watched-literal invariant) and for every theory meeting the "
        "contract on histories without simplify_db (C07_no_ub_partial); open only for simplify_db after theory lemmas; the model's flag is "
        "also compared on every generated history (model_raised_ub must be 0)",
    ]
    ctx.assumptions += [
        "theory_contract (theory lemmas/conflicts are T-valid, range over existing variables, mention only false literals besides the "
        "propagated one, involve the current level, check() records no lemma): Section hypothesis, discharged for `no theory`; "
        "for LRA/IDL/RDL/OV it is the obligation of C09-C12/C14",
        "sort_contract (std::sort returns a permutation sorted w.r.t. the comparison): Section hypothesis, proved for the extracted isort",
        "documented preconditions = asserts of sat_core.cpp: new_clause/simplify_db at root, assume with an empty queue on an unassigned "
        "literal, next() with every decision true, nothing after a `false` answer that leaves the network at root level",
    ]
