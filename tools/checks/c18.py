"""C18 -- No abnormal termination: bad input is rejected, valid use never aborts.

Pipeline:
  1. prove props/Properties_C18.v: totality of the lexer and parser models with classified outcomes (Ok | Error, never
     out of fuel; fuel linear in the input)
  2. tie = OUTCOME-CLASS differential between the model and the real front end (riddle::lexer + riddle::parser compiled
     from /repo's current sources, every input in a forked child with a wall-clock and memory bound):
         OK | ERR lex:<class> | ERR syntax | ERR too-deep      vs     ABORT <signal> | HANG  (never predicted by the model)
     on all prefixes of the example programs at token boundaries and random byte offsets, byte mutations, and
     pathological inputs (unterminated string / comment, 25-digit numerals, nesting at and beyond the limit, 10^5-fold
     repetitions, 0xFF and NUL bytes, empty input)
  2b. evaluation-level errors: generated programs that parse but divide by a constant zero (every operand position of 2-, 3-,
     4-ary divisions), are non-linear, ill-typed or use unknown names, run through the REAL planner in the assertion build and
     in the NDEBUG build: the outcome must be a reported error (never a signal, a hang or acceptance); valid programs without
     solution must end with the verdict; the evaluation model (Eval.v: `ev` = None) must predict the rejections it can express
  3. SUPPORT (labelled as such, not proof): the same inputs through -O0 and ASan+UBSan+LeakSanitizer builds of the front end;
     every example problem of solver/tests/CMakeLists.txt read + solved + serialised by the real planner with assertions
     ON, and (subset in the quick tier) under ASan+UBSan+LeakSanitizer; the reference counting of smt::json handles.
What no model exhibits: invalid memory accesses, leaks, real time. They are searched for, not proved absent.
"""
import glob
import json
import os
import re

import vlib
import lang_build
import lang_lib
import lang_gen as G
import c18_net

LEVEL = "proof"


def example_files():
    return sorted(glob.glob(os.path.join(vlib.REPO, "examples", "**", "*.rddl"), recursive=True))


def example_groups():
    """the file groups of the 70 solver tests (solver/tests/CMakeLists.txt): name -> [files], expected-to-fail names"""
    txt = open(os.path.join(vlib.REPO, "solver", "tests", "CMakeLists.txt")).read()
    groups = []
    for m in re.finditer(r'add_test\(NAME (\S+) COMMAND solver_tests (.*?) "solution.json"', txt):
        files = [f.replace("${CMAKE_SOURCE_DIR}", vlib.REPO) for f in re.findall(r'"([^"]+)"', m.group(2))]
        groups.append((m.group(1), files))
    wf = set()
    for m in re.finditer(r"set_tests_properties\((.*?) PROPERTIES WILL_FAIL TRUE\)", txt):
        wf |= set(m.group(1).split())
    return groups, wf


def prebuild():
    lang_lib.build_oracle()
    lang_build.build_parse()
    lang_build.build_parse(debug=True)
    lang_build.build_parse(san=True)
    lang_build.build_eval()
    lang_build.build_eval(ndebug=True)
    lang_build.build_eval(san=True)
    c18_net.prebuild()


def model_class(line):
    """oracle `parse` answer -> outcome class"""
    if line.startswith("OK"):
        return "OK"
    if line.startswith("ERR"):
        return " ".join(line.split(" ")[:2])
    return line.split(" ")[0]


def impl_class(line):
    c = lang_lib.canon_parse(line)
    if c.startswith("OK"):
        return "OK"
    if c.startswith("ERR"):
        return " ".join(c.split(" ")[:2])
    return lang_lib.outcome_class(c)


def front_inputs(ctx):
    rng = ctx.rng
    ins = []
    for c in sorted(glob.glob(os.path.join(vlib.VERIF, "corpus", "C18", "*.json"))):
        j = json.load(open(c))
        ins.append(("corpus:" + j.get("name", "?"), bytes.fromhex(j["input_hex"])))
    ins += [("pathological:" + n, x) for n, x in G.pathological()]
    exs = [(f, open(f, "rb").read()) for f in example_files()]
    exs.sort(key=lambda t: len(t[1]))
    full = 14 if not ctx.thorough else len(exs)
    for k, (f, d) in enumerate(exs):
        ins.append(("example", d))
        bs = G.token_boundaries(d)
        pick = bs if k < full else rng.sample(bs, min(len(bs), 25))
        for b in pick:
            ins.append(("prefix-token", d[:b]))
        for _ in range(6 if not ctx.thorough else 30):
            ins.append(("prefix-byte", d[:rng.randrange(len(d) + 1)]))
    for f, d in rng.sample(exs, min(len(exs), 25 if not ctx.thorough else len(exs))):
        ins += [("mutated", x) for x in G.mutate_bytes(rng, d[:6000], 12 if not ctx.thorough else 40)]
    return ins


def front_tie(ctx, pend, oexe, pexe):
    cov = ctx.cov
    ins = front_inputs(ctx)
    if pend.is_active("front:ERR lex:unterminated"):
        keep = [(k, x) for k, x in ins if k.startswith(("corpus", "pathological")) or G.ref_line(x) not in ("ERR unterminated-string", "ERR unterminated-comment")]
        cov["skipped_because_the_unrepaired_lexer_hangs"] = len(ins) - len(keep)
        ins = keep
    data = [x for _, x in ins]
    impl = lang_lib.run_harness(pexe, data, jobs=8, tmo=5)
    model = lang_lib.run_oracle(oexe, ["parse " + x.hex() for x in data], timeout=900, jobs=8)
    dist, classes, bad = {}, {}, 0
    for (k, x), a, m in zip(ins, impl, model):
        g = k.split(":")[0]
        dist[g] = dist.get(g, 0) + 1
        mc, ic = model_class(m), impl_class(a)
        classes[mc] = classes.get(mc, 0) + 1
        if mc == ic:
            continue
        if mc.startswith("ERR lex:") and ic in ("ERR syntax", "ERR too-deep"):
            # the real parser pulls tokens on demand: a syntax error BEFORE the offending characters is reported first;
            # the model lexes the whole text first. Both reject with a reported error.
            dist["rejected-earlier-by-syntax"] = dist.get("rejected-earlier-by-syntax", 0) + 1
            continue
        bad += 1
        rep = {"kind": "front-end-outcome", "generator": k, "input_len": len(x), "input_hex": x[:4000].hex(), "input": x[:200].decode("latin1"),
               "model_outcome": m[:200], "implementation_outcome": a[:300], "replay_cmd": "python3 tools/verif.py C18 replay <this file>"}
        if len(x) > 4000:
            rep["input_note"] = "input longer than 4000 bytes: regenerate with generator '%s'" % k
        if ic in ("ABORT", "HANG") or ic.startswith("?"):
            pend.violation("front:%s:%s" % (mc, ic), rep)               # abnormal termination of the real front end
        else:
            pend.violation("corr:front:%s/%s" % (mc, ic), rep, no_input=True)
    cov["front_end"] = {"inputs": len(ins), "by_generator": dist, "model_outcome_classes": classes, "disagreements": bad}
    return ins, impl, bad


def support_front(ctx, pend, ins, impl, dexe, sexe):
    """-O0 (no tail calls, bigger frames) and sanitizer builds of the front end on the same inputs: the outcome class must not
    change and there must be no sanitizer report; LEAK only counts for accepted (valid) programs."""
    cov = ctx.cov
    rng = ctx.rng
    # (quick tier: inputs above 1 MB only go to the plain build -- the instrumented builds need tens of seconds on them)
    sel = [i for i, (k, x) in enumerate(ins) if k.startswith(("corpus", "pathological", "example")) and (ctx.thorough or len(x) <= 1000000)]
    rest = [i for i in range(len(ins)) if i not in set(sel)]
    sel += rng.sample(rest, min(len(rest), 1500 if ctx.thorough else 300))
    if pend.is_active("front:ERR lex:unterminated"):
        sel = [i for i in sel if not impl[i].startswith(("HANG", "EXC"))]
    data = [ins[i][1] for i in sel]
    res = {"debug": lang_lib.run_harness(dexe, data, jobs=8, tmo=10),
           "sanitizer": lang_lib.run_harness(sexe, data, jobs=8, tmo=30, as_mb=0, env_extra={"ASAN_OPTIONS": "detect_leaks=1:abort_on_error=0", "UBSAN_OPTIONS": "print_stacktrace=1"})}
    bad = 0
    for name, out in res.items():
        for i, a in zip(sel, out):
            base = impl_class(impl[i])
            leak = a.endswith(" LEAK")
            ic = impl_class(a[:-5] if leak else a)
            k, x = ins[i]
            rep = {"kind": "support-run", "build": name, "generator": k, "input_len": len(x), "input_hex": x[:4000].hex(), "input": x[:200].decode("latin1"),
                   "outcome": a[:300], "outcome_of_the_plain_build": impl[i][:200], "stderr_tail": lang_lib.run_harness.last_stderr[-1500:]}
            if ic != base:
                bad += 1
                pend.violation("support:%s:%s/%s" % (name, base, ic), rep)
            elif leak and base == "OK":
                bad += 1
                pend.violation("support:%s:leak-on-valid-program" % name, rep)
    cov["support_front_end"] = {"label": "support, not proof", "inputs_per_build": len(sel), "builds": ["-O0 -g", "-O1 -fsanitize=address,undefined + LeakSanitizer"], "findings": bad}
    return bad


def planner_support(ctx, pend, eexe, sexe):
    cov = ctx.cov
    groups, will_fail = example_groups()
    data = ["\n".join(fs).encode() for _, fs in groups]
    out = lang_lib.run_harness(eexe, data, args=["--files"], jobs=8, tmo=120, as_mb=8192)
    bad = 0
    verdicts = {}
    for (name, fs), a in zip(groups, out):
        cls = lang_lib.outcome_class(a)
        verdicts[name] = a[:40]
        rep = {"kind": "planner-run", "build": "assertions ON (-O1, no NDEBUG)", "test": name, "files": fs, "outcome": a[:300], "stderr_tail": lang_lib.run_harness.last_stderr[-1500:]}
        if cls in ("ABORT", "HANG") or cls.startswith("?"):
            bad += 1
            pend.violation("planner:assert-build:%s" % cls, rep)
        elif cls == "OK":
            solved = " solved=1" in a
            if solved == (name in will_fail):
                bad += 1
                pend.violation("planner:verdict-differs-from-the-pinned-test:%s" % name, rep)
    cov["planner_assert_build"] = {"label": "support, not proof", "problems": len(groups), "findings": bad}
    # sanitizers: the small problems in the quick tier, all in the thorough tier
    idx = list(range(len(groups)))
    if not ctx.thorough:
        idx = [i for i in idx if sum(os.path.getsize(f) for f in groups[i][1]) < 3500][:24]
    sout = lang_lib.run_harness(sexe, [data[i] for i in idx] + [b"x"], args=["--files"], jobs=8, tmo=600, as_mb=0,
                                env_extra={"ASAN_OPTIONS": "detect_leaks=1:abort_on_error=0"})
    sbad = 0
    for i, a in zip(idx, sout):
        name, fs = groups[i]
        leak = a.endswith(" LEAK")
        cls = lang_lib.outcome_class(a)
        rep = {"kind": "planner-run", "build": "ASan+UBSan+LSan", "test": name, "files": fs, "outcome": a[:300], "stderr_tail": lang_lib.run_harness.last_stderr[-2500:]}
        if cls in ("ABORT", "HANG") or cls.startswith("?"):
            sbad += 1
            pend.violation("planner:sanitizer:%s" % cls, rep)
        elif leak:
            sbad += 1
            pend.violation("planner:sanitizer:leak", rep)
    jout = lang_lib.run_harness(sexe, [b"x"], args=["--json"], tmo=60, as_mb=0, env_extra={"ASAN_OPTIONS": "detect_leaks=1:abort_on_error=0"})[0]
    if not jout.startswith("OK json=") or jout.endswith(" LEAK"):
        sbad += 1
        pend.violation("json:handle-refcount", {"kind": "json-refcount-probe", "outcome": jout[:300], "stderr_tail": lang_lib.run_harness.last_stderr[-2500:]})
    cov["planner_sanitizer_build"] = {"label": "support, not proof", "problems": len(idx), "json_refcount_probe": jout[:80], "findings": sbad}
    return bad + sbad


def eval_class(line):
    """outcome class of a planner run on a program text: OK1 (solution) | OK0 / UNSAT (verdict: no solution) |
    ERR (a std::exception reported by read()/solve(): invalid_argument, out_of_range, ...) | ABORT | HANG"""
    if line.startswith("OK solved=1"):
        return "OK1"
    if line.startswith("OK solved=0") or line.startswith("UNSAT"):
        return "UNSAT"
    if line.startswith("ERR") or (line.startswith("EXC") and not line.startswith("EXC std::bad_alloc")):
        return "ERR"
    return lang_lib.outcome_class(line)


def semantic_tie(ctx, pend, oexe, exes):
    """Evaluation-level errors: programs that PARSE but divide by a constant zero (every operand position of 2-, 3-, 4-ary
    divisions; literal, constant variable, expression evaluating to 0), are non-linear, ill-typed or refer to unknown names
    must be REJECTED WITH A REPORTED ERROR by the real planner -- in the assertion build and in the NDEBUG build --, never
    abort, hang or be accepted; valid programs without solution must end with the verdict. Where the evaluation model
    (lang/Eval.v through the oracle's `semcheck`) can run the program it must predict the rejection; valid generated programs
    (the model says OK) must not be rejected."""
    cov = ctx.cov
    rng = ctx.rng
    progs = [(k, t, "ERR") for k, t in G.semantic_errors(rng, extra=1 if ctx.thorough else 0)]
    progs += [("unsolvable:" + k, t, "UNSAT") for k, t in G.unsolvable_programs()]
    # modeling errors in declarations and in time-point arithmetic, object variables without values, same-named predicates, long
    # operator chains -- with valid programs of the same shapes
    progs += G.structural_programs(rng, extra=1 if ctx.thorough else 0)
    # products with a constant that is exactly zero over unbounded variables, cancelling sums, products over variables whose bounds
    # already coincide: valid programs (or the verdict when the comparison is false) -- no assertion, no wrong 'unsolvable'
    progs += [(k, t, want) for k, t, want, _ in G.zero_programs()]
    progs += [("fixed-bounds:" + p["tags"][1], p["text"], "OK1") for p in G.fixed_var_programs(rng, 300 if ctx.thorough else 40)]
    # valid programs of the same shapes (non-zero divisors, linear products, well-typed connectives): must be accepted
    for _ in range(400 if ctx.thorough else 60):
        names = ["x%d" % i for i in range(rng.choice([0, 1, 2]))]
        e, _ = G.gen_arith(rng, rng.choice([1, 2, 3]), set(names))
        vals = {n: G.Fraction(1) for n in names}
        mag = G.arith_magnitude(e, vals)
        if mag is None or mag >= 2 ** 28:
            continue
        progs.append(("valid:arith", " ".join("real %s;" % n for n in names) + " real v = %s; v <= v + 1;" % text_of(e), "OK1"))
    data = [t.encode("latin1") for _, t, _ in progs]
    model = lang_lib.run_oracle(oexe, ["semcheck " + x.hex() for x in data], jobs=4)
    res = {name: lang_lib.run_harness(exe, data, jobs=8, tmo=6, as_mb=4096) for name, exe in exes.items()}
    dist, bad = {}, 0
    for i, (k, t, want) in enumerate(progs):
        fam = k.split(":")[0]
        dist[fam] = dist.get(fam, 0) + 1
        m = model[i].split(" ")[0]
        if want == "ERR" and fam in ("div0", "nonlinear", "ill-typed") and m not in ("SEMERR", "SKIP"):
            bad += 1
            pend.violation("corr:semantic:model-accepts:" + fam, {"kind": "model", "program": t, "model": model[i]}, no_input=True)
        # (the evaluation model calls a factor constant only if it has no variable: products over variables with coinciding bounds are
        #  outside it, and the 0x1E separator of successive read() calls is not RIDDLE text)
        if want == "OK1" and m not in ("OK", "SKIP") and fam != "fixed-bounds":
            bad += 1
            pend.violation("corr:semantic:model-rejects-valid", {"kind": "model", "program": t, "model": model[i]}, no_input=True)
        for name, out in res.items():
            got = eval_class(out[i])
            if got == want:
                # the reported error must be the one the program deserves (diagnostic class, not wording)
                need = {"div0": ("zero",), "nonlinear": ("non-linear",), "tp-arith": ("difference logic", "time-point"), "inheritance": ("cyclic",),
                        "enum-union": ("cyclic", "not an enum"), "chain": ("nesting",)}.get(fam)
                if want == "ERR" and need and not any(n in out[i] for n in need):
                    bad += 1
                    pend.violation("semantic:%s:wrong-diagnostic" % fam, {"kind": "semantic-error-program", "family": k, "program": t, "build": name,
                                                                        "expected_diagnostic": " / ".join(need), "implementation": out[i][:300]})
                continue
            bad += 1
            rep = {"kind": "semantic-error-program", "family": k, "program": t[:4000], "program_len": len(t), "build": name, "expected_outcome": want, "implementation": out[i][:300],
                   "model": model[i][:200], "replay_cmd": ("echo %s | <h_eval of that build>" % t.encode("latin1").hex()) if len(t) <= 4000 else
                   "regenerate: the program of family '%s' in lang_gen.structural_programs" % k}
            pend.violation("semantic:%s:%s:%s" % (fam, want, got), rep)
    cov["semantic_errors"] = {"programs": len(progs), "builds": sorted(exes), "by_family": dist, "model_predictions": {c: sum(1 for x in model if x.startswith(c)) for c in ("SEMERR", "OK", "SKIP")},
                              "disagreements": bad}
    return len(progs), bad


def text_of(e):
    """plain infix text of a generated arithmetic tree, fully parenthesised (the printer of C16 is not needed here)"""
    k = e[0]
    if k == "int":
        return e[1]
    if k == "real":
        return e[1] + "." + e[2]
    if k == "id":
        return e[1][0]
    if k == "minus":
        return "(-" + text_of(e[1]) + ")"
    if k == "plus":
        return "(+" + text_of(e[1]) + ")"
    if k == "cast":
        return text_of(e[2])
    op = {"add": " + ", "sub": " - ", "mul": " * ", "div": " / "}[k]
    return "(" + op.join(text_of(x) for x in e[1]) + ")"


def run(ctx):
    cov = ctx.cov
    pend = lang_lib.Pending(ctx)
    oexe, olog = lang_lib.build_oracle()
    if not oexe:
        ctx.violation("build:oracle_lang", {"kind": "oracle-build-failed", "log": olog[-3000:]}, no_input=True)
        return
    builds = {"h_parse": lang_build.build_parse(), "h_parse_dbg": lang_build.build_parse(debug=True), "h_parse_san": lang_build.build_parse(san=True),
              "h_lex": lang_build.build_lex(), "h_eval": lang_build.build_eval(), "h_eval_nd": lang_build.build_eval(ndebug=True),
              "h_eval_san": lang_build.build_eval(san=True)}
    for name, (exe, lg) in builds.items():
        if not exe:
            ctx.violation("build:" + name, {"kind": "harness-build-failed", "log": lg[-3000:]}, no_input=True)
            return
    ctx.log("built oracle + harnesses")
    pend.resolve({"lex": builds["h_lex"][0], "parse": builds["h_parse"][0], "parse_dbg": builds["h_parse_dbg"][0], "parse_san": builds["h_parse_san"][0],
                  "eval": builds["h_eval"][0], "eval_san": builds["h_eval_san"][0]})
    if pend.active:
        ctx.log("pending fixes still active on this tree:", ", ".join(sorted(pend.active)))

    ins, impl, b1 = front_tie(ctx, pend, oexe, builds["h_parse"][0])
    ctx.log("front-end outcome tie: %d inputs, %d disagreements" % (len(ins), b1))
    b2 = support_front(ctx, pend, ins, impl, builds["h_parse_dbg"][0], builds["h_parse_san"][0])
    ctx.log("support: -O0 and sanitizer front end: %d findings" % b2)
    n4, b4 = semantic_tie(ctx, pend, oexe, {"assertions-on": builds["h_eval"][0], "NDEBUG": builds["h_eval_nd"][0]})
    ctx.log("evaluation-level errors (assertion and NDEBUG builds): %d programs, %d disagreements" % (n4, b4))
    b3 = planner_support(ctx, pend, builds["h_eval"][0], builds["h_eval_san"][0])
    ctx.log("support: planner with assertions / sanitizers: %d findings" % b3)
    c18_net.run(ctx, ctx.tier)  # network side: steered sat_core / mixed-network histories on ASan+UBSan+LeakSanitizer builds
    ctx.log("support: network API histories under sanitizers: %s" % (cov.get("network_sanitizers", {}).get("findings"),))

    def search(res):
        return bool(ctx.violations) or bool(pend.hit)
    vlib.proof_stage(ctx, search=search)

    cov["evaluations"] = len(ins) + n4
    cov["distinct_nontrivial"] = len({x for _, x in ins if len(x) > 8})
    cov["traces_validated_against_impl"] = len(ins) - b1 + n4 - b4
    cov["pending_fixes_hit"] = pend.hit
    cov["rule"] = ("every prefix at a token boundary of the smallest example programs (25 random boundaries of the others), random byte "
                   "prefixes, byte mutations, 107 pathological inputs (nesting 1 .. 10^5 around the limit of 1000, repetitions up to 2*10^5, "
                   "flat operator chains of 10 .. 3*10^5 operators around the limit (alone, inside parentheses, after unary operators), "
                   "unterminated literals, numerals around LONG_MAX, 0xFF / NUL / high bytes); programs with modeling errors run through the real planner in the "
                   "assertion and NDEBUG builds: division by zero, non-linear and ill-typed expressions, unknown names, time-point arithmetic outside "
                   "difference logic, cyclic inheritance and enum unions, object variables of classes without instances, same-named predicates, "
                   "long chains; non-trivial = longer than 8 bytes")
    cov["trusted_base"] += [
        "harness/lang_common.h: fork per case, alarm() wall-clock bound (5 s), RLIMIT_AS memory bound (2 GB; an exhausted bound counts as HANG)",
        "AddressSanitizer / UndefinedBehaviorSanitizer / LeakSanitizer of g++ 12: used as SUPPORT for 'no invalid memory access / no leak'; they observe the runs made, nothing more",
        "riddle::parser::max_depth = 1000 mirrored as Parser.MAX_DEPTH, the operators of one chain counted like frames (the nesting and chain cases 996..1001 check the mirror)",
    ]
    ctx.assumptions += ["memory safety, absence of leaks and bounded real time are not provable about a Gallina model: the theorems cover termination with a classified outcome of the lexer and parser on every input; the network-level assertions (sat_core, theories, solver) belong to C07-C10; here precondition-respecting sat_core and mixed-network API histories are replayed on ASan+UBSan+LeakSanitizer builds (tools/c18_net.py) as support",
                        "stack depth: the parser's recursion is bounded by max_depth frames (theorem: Err ETooDeep beyond it); that 1000 frames fit the stack is observed (-O0 and ASan builds), not proved"]


def replay(path):
    r = json.load(open(path))
    oexe, _ = lang_lib.build_oracle()
    if "input_hex" in r:
        exe, _ = lang_build.build_parse()
        x = bytes.fromhex(r["input_hex"])
        print("implementation:", lang_lib.run_harness(exe, [x])[0][:500])
        print("model         :", lang_lib.run_oracle(oexe, ["parse " + x.hex()])[0][:500])
    elif "files" in r:
        exe, _ = lang_build.build_eval()
        print("implementation:", lang_lib.run_harness(exe, ["\n".join(r["files"]).encode()], args=["--files"], tmo=120)[0])
    return 0
