"""C09 -- linear arithmetic: reported values are a model, conflicts mean infeasibility.

1. proofs: props/Properties_C09.v (model smt/Lra.v, invariant + theorems in proofs/Lra*_Proofs.v, K2 soundness).
2. tie: harness/h_lra.cpp drives the real sat_core + lra_theory (subclassed: propagate/check/push/pop are virtual) with
   generated scripts and prints a TRACE of every call on the theory's interface with the environment's inputs; the
   extracted model replays the same events; results and the full private state (bounds+reasons, values, tableau,
   t_watches, layers, assertions) are compared after EVERY event. Not compared (depends on the iteration order of
   unordered_set<row*>): the conflict clause and the lemmas of a propagate() that fails -- those, every other recorded
   lemma / conflict and every dumped state are judged by the extracted verified checkers (K2).
3. independent judge of verdicts: Fourier-Motzkin over Fractions on the asserted atoms at root level (plain histories; histories
   over new_var(lin) slacks with known terms bounded by set_lb / set_ub; conjunctions re-checked after backtracking from the
   conflicts of literal batches).
4. evidence: which lemma / conflict branches of lra_constraint.cpp the run reached (read off the trace, and gcov line counts of
   every `return false` / `th.record` statement on the same script).
"""
import json
import os
from fractions import Fraction

import vlib
import lra_tools as T

LEVEL = "proof"
FUEL = 10000


def pending():
    p = os.path.join(vlib.VERIF, "notes/fixes/C09-pending.json")
    if os.path.exists(p):
        return {e["signature"]: e for e in json.load(open(p))}
    return {}


def report(ctx, sig, replay, no_input=False):
    seen = ctx.cov.setdefault("_reported", [])
    if sig in seen:
        return
    seen.append(sig)
    pen = pending()
    if sig in pen:
        key = "pending:" + sig
        if key not in ctx.cov.setdefault("pending_findings_hit", []):
            ctx.cov["pending_findings_hit"].append(key)
            print("KNOWN-FINDING (pending fix, notes/fixes): property=%s %s" % (ctx.prop, pen[sig].get("what", sig)), flush=True)
        return
    ctx.violation(sig, replay, no_input=no_input)


def gen(ctx, n):
    rng = ctx.rng
    scs = []
    for i in range(n):
        r = rng.random()
        if r < 0.30:
            scs.append(T.gen_scenario(rng, "mixed"))
        elif r < 0.45:
            scs.append(T.gen_rowprop(rng))
        elif r < 0.55:
            scs.append(T.gen_degenerate(rng))
        elif r < 0.62:
            scs.append(T.gen_queries(rng))        # bounds / lb / ub / value / equates on interval classes
        elif r < 0.74:
            scs.append(T.gen_batch(rng))          # several literals of one variable in one propagation batch
        elif r < 0.86:
            scs.append(T.gen_row_batch(rng))      # the same along a tableau row
        else:
            scs.append(T.gen_const_rows(rng))     # new_var(lin) with known terms, set_lb / set_ub, relations over basic variables
    return scs


def corpus():
    d = os.path.join(vlib.VERIF, "corpus", "C09")
    out = []
    if os.path.isdir(d):
        for f in sorted(os.listdir(d)):
            if f.endswith(".json"):
                out.append((f, json.load(open(os.path.join(d, f)))))
    return out


def run(ctx):
    cov = ctx.cov
    res = vlib.proof_stage(ctx, search=None)
    exe, oexe, log = T.build_all(vlib)
    if not exe or not oexe:
        ctx.violation("build:lra", {"kind": "build-failed", "log": log[-3000:]}, no_input=True)
        return
    n = 1500 if not ctx.thorough else 30000
    scs = gen(ctx, n)
    # corpus first: K2-only entries (API uses outside the modelled precondition) and differential entries
    corp = corpus()
    k2_only = [(f, c) for f, c in corp if c.get("mode") == "k2"]
    diff_corp = [(f, c) for f, c in corp if c.get("mode") != "k2"]
    scripts = [c["script"] for _, c in diff_corp] + [s.text() for s in scs]
    names = [f for f, _ in diff_corp] + ["gen%d" % i for i in range(len(scs))]
    out = T.run_differential(vlib, exe, oexe, "".join(scripts), timeout=900 if ctx.thorough else 100)
    impl, model = out["impl"], out["model"]
    stats = {"events": 0, "conflicts_check": 0, "conflicts_propagate": 0, "lemma_events": 0, "row_lemmas": 0, "pivots_seen": 0,
             "states_judged": 0, "clauses_judged": 0, "order_dependent_conflicts": 0, "outoffuel": 0, "dead": 0,
             "true_false_shortcuts": 0, "shared_literals": 0, "pops": 0}
    if out["crashed"] or len(impl) < len(scripts):
        k = max(0, len(impl) - 1)
        report(ctx, "lra:crash", {"kind": "implementation-aborted", "scenario": names[min(k, len(names) - 1)],
                                  "script": scripts[min(k, len(scripts) - 1)], "rc": out["rc"], "stderr": out["stderr"]})
    # ---- K2 verdicts, grouped by scenario (judge lines carry a running event index that restarts never; map by order)
    jl = out["judge"]
    jfail = [l for l in jl if " FAIL " in l]
    stats["states_judged"] = sum(1 for l in jl if " state " in l)
    stats["clauses_judged"] = sum(1 for l in jl if " clause " in l)
    impl_bad = set()
    # robust mapping: recount including resets
    order = []
    for si, sc in enumerate(impl):
        order.append((si, None))          # the E reset line
        for r in sc:
            if r["E"]:
                order.append((si, r))
    first_reset_missing = not out["impl_text"].startswith("E reset")
    for l in jfail:
        tk = l.split()
        gi = int(tk[1]) - 1
        if first_reset_missing:
            gi += 1
        si, r = order[gi] if 0 <= gi < len(order) else (len(impl) - 1, None)
        impl_bad.add(si)
        if tk[2] == "state":
            sig = "lra:state:" + tk[4]
            report(ctx, sig, {"kind": "implementation-state-violates-property", "failed_checks": tk[4], "scenario": names[si],
                              "script": scripts[si], "event": r["E"] if r else None, "state": r["S"] if r else None})
        else:
            atoms = T.atoms_from_judge_line(l)
            try:
                st = T.parse_state(r["S"]) if r and r["S"] else None
            except (IndexError, ValueError):
                st = None   # dump cut short by a crash
            defs = {}
            for rr in impl[si]:
                for dl in rr.get("D", []):
                    t2 = dl.split()
                    defs[int(t2[1])] = T.p_lin(t2[2:])
            wit = T.witness_for_atoms(st, defs, atoms) if st else None
            if wit is None:
                # infeasible after all: the checker was too weak (not a violation of the property); count and go on
                cov.setdefault("k2_incomplete", []).append(l[:200])
                impl_bad.discard(si)
                continue
            report(ctx, "lra:lemma-invalid", {"kind": "theory-lemma-or-conflict-not-valid", "clause": tk[4], "scenario": names[si], "script": scripts[si],
                                              "event": r["E"] if r else None, "atoms_assumed": [str(a) for a in atoms],
                                              "counterexample_point": [str(x) for x in wit] if isinstance(wit, list) else wit})
    # ---- differential
    mism = 0
    first = None
    for si, (a, b) in enumerate(zip(impl, model)):
        for r in a:
            if not r["E"]:
                continue
            stats["events"] += 1
            R = r["R"] or ""
            if R.startswith("R check conflict"):
                stats["conflicts_check"] += 1
            if R.startswith("R prop 0"):
                stats["conflicts_propagate"] += 1
            if R.startswith("R prop") and "{" in R:
                stats["lemma_events"] += 1
                stats["row_lemmas"] += sum(1 for c in R.split("{")[1:] if c.count(",") >= 2)
            if R.startswith("R lit 0"):
                stats["true_false_shortcuts"] += 1
            if R.startswith("R lit") and R.endswith(" 0") and not R.startswith("R lit 0"):
                stats["shared_literals"] += 1
            if r["E"].startswith("E pop"):
                stats["pops"] += 1
            if any("skipped-dead" in c for c in r["C"]):
                stats["dead"] += 1
        for r in b:
            if r["R"] and "outoffuel" in r["R"]:
                stats["outoffuel"] += 1
        d = T.compare_scenario(a, b)
        # conflicts of failing propagate calls may legitimately differ (iteration order): count them
        for ra, rb in zip([r for r in a if r["E"]], [r for r in b if r["E"]]):
            if ra["R"] and rb["R"] and ra["R"].startswith("R prop 0") and ra["R"] != rb["R"]:
                stats["order_dependent_conflicts"] += 1
        if d:
            mism += 1
            if first is None:
                first = (si, d)
    # ---- exact expectations carried by the generated scenarios (verdicts of root-level histories with known-term rows and
    #      set_lb / set_ub; feasibility of conjunctions re-checked after backtracking from batch conflicts)
    n_exp, bad_exp = T.check_expectations(ctx, report, scs, "E reset".join([""] + out["impl_text"].split("E reset")[1 + len(diff_corp):]), "generated")
    cov["expectations_checked"] = n_exp
    # ---- the query functions, judged independently of the model (python Fractions with infinitesimals)
    nq, badq = T.judge_queries(impl)
    cov["queries_judged"] = nq
    cov["query_interval_classes"] = dict(sorted(T.judge_queries.classes.items()))
    for b in badq[:3]:
        report(ctx, "lra:query:" + b["event"].split()[1], {"kind": "query-answer-differs-from-exact-interval-arithmetic", "script": scripts[b["scenario"]],
                                                           "event": b["event"], "expected": b["expected"], "implementation": b["got"]})
    # ---- which lemma / conflict branches of lra_constraint.cpp were reached
    cov["branches_from_trace"] = dict(sorted(T.classify_branches(impl).items()))
    try:
        g = T.gcov_branches(vlib, "".join(scripts), timeout=200 if ctx.thorough else 60)
    except Exception as e:  # coverage is evidence, never a verdict
        g = {"error": repr(e)}
    cov["branch_coverage_gcov_lra_constraint"] = g
    cov["branches_not_reached"] = sorted(k for k, v in g.items() if isinstance(v, int) and v == 0)
    # ---- independent verdict check on root-level histories (before classifying a mismatch: a concrete failing input wins)
    T.verdict_probe(ctx, vlib, exe, report, 300 if not ctx.thorough else 4000)
    concrete = bool(ctx.violations) or bool(cov.get("pending_findings_hit"))
    if first is not None:
        si, d = first
        if si in impl_bad or ctx.violations:
            pass  # already reported as a violation of the property with a concrete input (K2 judge on the implementation's own output / verdict probe)
        else:
            report(ctx, "corr:lra:" + d["what"], {"kind": "model-differs-from-implementation", "correspondence": "corr:lra (trace differential)",
                                                  "scenario": names[si], "script": scripts[si], "first_difference": d,
                                                  "k2_verdict_on_implementation": "all dumped states and clauses of this scenario accepted by the verified checkers"},
                   no_input=True)
    if stats["outoffuel"]:
        report(ctx, "lra:out-of-fuel", {"kind": "simplex-did-not-terminate-within-fuel", "fuel": FUEL}, no_input=True)
    # ---- K2-only corpus (uses of the public API outside the modelled precondition)
    for f, c in k2_only:
        o2 = vlib.run([exe], stdin=c["script"], timeout=60)
        j2 = vlib.run([oexe, "judge"], stdin=o2.out or "", timeout=60)
        bad = [l for l in (j2.out or "").split("\n") if " FAIL " in l]
        cov.setdefault("k2_corpus", {})[f] = "FAIL" if bad else "ok"
        if bad:
            report(ctx, c.get("signature", "lra:corpus:" + f), {"kind": "corpus-entry-fails", "file": f, "script": c["script"], "judge": bad[:4]})
    cov.pop("_reported", None)
    cov["evaluations"] = stats["events"]
    cov["scenarios"] = len(scripts)
    cov["distinct_nontrivial"] = stats["lemma_events"] + stats["conflicts_check"] + stats["conflicts_propagate"] + stats["pops"]
    cov["rule_round2"] = ("batches: a decision d with clauses (!d | L_i) forcing 2-4 literals of one variable / of a sum and its summands in ONE propagation, "
                          "optionally one of them a level earlier (distinct bound reasons), then backtracking and checklits of random conjunctions against exact "
                          "feasibility; known-term rows: 2-4 new_var(lin) with constants (also over other slacks), set_lb / set_ub, new relations over the rows' "
                          "variables asserted at root, every verdict against Fourier-Motzkin")
    cov["rule"] = ("random systems (2-6 variables, 3-12 relations, coefficients in {-3..3} and small fractions, strict and non-strict, shared and "
                   "cancelling sub-expressions, relations over slack variables), root assertions, assume/negate/pop walks, degenerate cycles, "
                   "row-propagation profiles; non-trivial = events with a lemma, a conflict or a pop")
    cov["input_distribution"] = stats
    cov["traces_validated_against_impl"] = len(impl) - mism
    cov["model_vs_impl_mismatching_scenarios"] = mism
    cov["k2_fail_lines"] = len(jfail)
    cov["timings_s"] = {"harness": round(out["secs"][0], 2), "model": round(out["secs"][1], 2), "judge": round(out["secs"][2], 2)}
    for si in range(0, len(impl), max(1, len(impl) // 5)):
        ev = [r for r in impl[si] if r["E"]]
        if ev:
            ctx.sample({"scenario": names[si], "last_event": ev[-1]["E"][:120], "result": (ev[-1]["R"] or "")[:120]})
    cov["trusted_base"] += [
        "harness/h_lra.cpp (subclass of lra_theory logging propagate/check/push/pop, state dump through #define private public), oracle/lra_*.ml, tools/lra_tools.py",
        "C15 ties smt::rational / inf_rational / lin to exact arithmetic: the model uses Coq's Q and Q x Q",
        "sharing keys: to_string(lin) / to_string(inf_rational) are assumed injective on canonical values (a collision would show as a differing slack id or literal)",
        "what depends on unordered_set<row*> iteration (conflict clause and lemmas of a failing propagate) is judged by the verified checkers only; "
        "the clause -> atoms translation and the use of TRUE-reason bounds as root facts in oracle/lra_judge.ml are unverified",
        "sat_core (enqueue order, clause learning) is the environment of the model: its inputs are taken from the real run (trace refinement), its clauses for new_conj are C13's",
    ]
    ctx.assumptions += ["termination of Bland's rule is not proved: theorems exclude OutOfFuel, the run reports it (fuel %d)" % FUEL,
                        "relations and new_var(lin) are requested at root level (asserted by the C++ in debug builds: the harness is compiled without NDEBUG)",
                        "numerators/denominators stay far below 2^62 (generator ranges)"]


def replay(path):
    r = json.load(open(path))
    exe, oexe, log = T.build_all(vlib)
    out = T.run_differential(vlib, exe, oexe, r["script"])
    print(out["impl_text"][-3000:])
    print("\n".join(out["judge"][-20:]))
    for a, b in zip(out["impl"], out["model"]):
        print("difference:", T.compare_scenario(a, b))
    return 0


def prebuild():
    T.build_all(vlib)
