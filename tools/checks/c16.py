"""C16 -- RIDDLE expressions are read and evaluated with the language's semantics.

Pipeline:
  1. prove props/Properties_C16.v (lexer / parser round trips against the printer, exact evaluation)
  2. build the oracle (extraction of lang/*.v) and the harnesses from /repo's current riddle/, core/, solver/ sources
  3. tie, on the same inputs:
       lexer   token by token  : riddle::lexer  vs  Lexer.v  vs  an independent reference tokenizer (the judge)
       parser  tree by tree    : riddle::parser (factory methods overridden -> S-expressions)  vs  Parser.v, on the examples,
                                 on `show (pp u)` of generated trees (expected tree known = the judge) and on mutated text
       eval    end to end      : generated programs solved by the REAL planner, the value read back  vs  Eval.v  vs  exact
                                 python Fractions / truth tables (the judge)
  The same generators are the failing-input search when a proof obligation breaks.
"""
import glob
import json
import os
from fractions import Fraction

import vlib
import lang_build
import lang_lib
import lang_gen as G

LEVEL = "proof"


def example_files():
    return sorted(glob.glob(os.path.join(vlib.REPO, "examples", "**", "*.rddl"), recursive=True))


def corpus(prop):
    out = []
    d = os.path.join(vlib.VERIF, "corpus", prop)
    for f in sorted(glob.glob(os.path.join(d, "*.json"))):
        out.append(json.load(open(f)))
    return out


def prebuild():
    lang_lib.build_oracle()
    lang_build.build_lex()
    lang_build.build_parse()
    lang_build.build_eval()


# ------------------------------------------------------------------------------------------------
def lexer_tie(ctx, pend, oexe, lexe):
    rng = ctx.rng
    cov = ctx.cov
    inputs = []
    kinds = []

    def add(k, xs):
        for x in xs:
            inputs.append(x)
            kinds.append(k)
    add("corpus", [bytes.fromhex(c["input_hex"]) for c in corpus("C16") if c.get("kind") == "lex"])
    add("corpus", G.LEX_CORPUS)
    add("keyword-automaton", G.keyword_sweep())
    add("first-byte", G.first_byte_sweep())
    add("operator-glue", G.operator_glue())
    add("soup", G.lexeme_soup(rng, 30000 if ctx.thorough else 5000))
    exs = [open(f, "rb").read() for f in example_files()]
    add("example", exs)
    for e in rng.sample(exs, min(len(exs), 114 if ctx.thorough else 30)):
        add("mutated-example", G.mutate_bytes(rng, e[:4000], 60 if ctx.thorough else 15))
    expected = {}
    for _ in range(30000 if ctx.thorough else 4000):
        t, exp = G.gen_token_text(rng, rng.randint(1, 14))
        expected[len(inputs)] = exp
        inputs.append(t)
        kinds.append("show-of-tokens")
    if pend.is_active("lex:hang"):
        # the unrepaired lexer loops on these: keep the corpus witnesses only (each costs the watchdog's 3 s)
        keep = [i for i, x in enumerate(inputs) if kinds[i] == "corpus" or G.ref_line(x) not in ("ERR unterminated-string", "ERR unterminated-comment")]
        expected = {k: expected[i] for k, i in enumerate(keep) if i in expected}
        inputs, kinds = [inputs[i] for i in keep], [kinds[i] for i in keep]
    impl = [lang_lib.canon_lex(x) for x in lang_lib.run_harness(lexe, inputs, jobs=8, tmo=3)]
    model = lang_lib.run_oracle(oexe, ["lex " + x.hex() for x in inputs], jobs=4)
    dist, bad = {}, 0
    nontrivial = set()
    for i, x in enumerate(inputs):
        dist[kinds[i]] = dist.get(kinds[i], 0) + 1
        ref = expected.get(i) or G.ref_line(x)
        a, m = impl[i], model[i]
        if len(a) > 20:
            nontrivial.add(a)
        if a == m == ref:
            continue
        bad += 1
        rep = {"kind": "lexer", "input_hex": x.hex(), "input": x[:200].decode("latin1"), "implementation": a[:600], "model": m[:600],
               "reference": ref[:600], "generator": kinds[i], "replay_cmd": "echo %s | %s" % (x.hex(), lexe)}
        if a != ref:      # the implementation does not recognise the tokens the language defines
            cls = lang_lib.outcome_class(a)
            if cls in ("HANG", "ABORT"):
                sig = "lex:%s:%s" % (cls.lower(), ref.split(" ")[1] if ref.startswith("ERR") else "valid-input")
            elif a.startswith("ERR") or ref.startswith("ERR"):
                sig = "lex:outcome:%s/%s" % (" ".join(ref.split(" ")[:2]) if ref.startswith("ERR") else "OK", " ".join(a.split(" ")[:2]) if a.startswith("ERR") else "OK")
            else:
                ta, tr = a.split(" "), ref.split(" ")
                k = next((j for j in range(min(len(ta), len(tr))) if ta[j] != tr[j]), min(len(ta), len(tr)))
                sig = "lex:token:%s/%s" % (tr[k].split("(")[0] if k < len(tr) else "end", ta[k].split("(")[0] if k < len(ta) else "end")
            pend.violation(sig, rep)
        else:             # the implementation is right, the model no longer describes it
            pend.violation("corr:lex:model-differs", rep, no_input=True)
    cov["lexer"] = {"inputs": len(inputs), "by_generator": dist, "disagreements": bad,
                    "keyword_automaton_states_x_bytes": dist.get("keyword-automaton", 0)}
    return len(inputs), bad, nontrivial


# ------------------------------------------------------------------------------------------------
def first_diff(a, b):
    j = next((x for x in range(min(len(a), len(b))) if a[x] != b[x]), min(len(a), len(b)))
    return a[max(0, j - 60):j + 80], b[max(0, j - 60):j + 80]


def sx_head_at_diff(a, b):
    """the S-expression constructor names around the first difference (a stable signature for a tree mismatch)"""
    j = next((x for x in range(min(len(a), len(b))) if a[x] != b[x]), min(len(a), len(b)))

    def head(s):
        k = s.rfind("(", 0, j + 1)
        return s[k + 1:].split(" ")[0].split(")")[0] if k >= 0 else "?"
    return "%s/%s" % (head(b), head(a))


def e2e_search(ctx, oexe, pexe, eexe, x, n_val=8):
    """END-TO-END search on an input for which the model's tree and the implementation's tree differ although both accept it:
    find the shortest sub-text that both read as an expression but as different trees, bind its identifiers to constants
    (several random valuations), evaluate through the real planner and compare with the model's evaluation of the model's tree.
    -> (signature, replay dict) for the first valuation with different values, else None."""
    from fractions import Fraction
    rng = ctx.rng
    ws = G.expr_windows(x)
    if not ws:
        return None
    impl = [lang_lib.canon_parse(r) for r in lang_lib.run_harness(pexe, ws, args=["--expr"], jobs=4, tmo=5)]
    model = lang_lib.run_oracle(oexe, ["pexpr " + w.hex() for w in ws])
    cands = [(w, a[3:], m[3:]) for w, a, m in zip(ws, impl, model)
             if a.startswith("OK (") and m.startswith("OK (") and a != m][:4]
    for w, ti, tm in cands:
        try:
            em = G.expr_of_sx(G.read_sx(tm))
        except (ValueError, IndexError):
            continue
        it = G.infer_types(em)
        if it is None:
            continue
        ty, kind = it
        try:   # identifiers that only the implementation's tree mentions get the arithmetic type
            it2 = G.infer_types(G.expr_of_sx(G.read_sx(ti)))
            for n in (it2[0] if it2 else {}):
                ty.setdefault(n, it2[0][n])
        except (ValueError, IndexError):
            pass
        if G.infer_types_check(ty) is False:
            continue
        jobs = []
        for _ in range(n_val):
            vals = {n: (Fraction(rng.choice([-7, -5, -3, -2, -1, 1, 2, 3, 5, 7, 11]), rng.choice([1, 1, 1, 2, 3])) if t == "a" else rng.random() < 0.5)
                    for n, t in ty.items()}
            prog, probe, env = G.bind_program(ty, vals, kind, w.decode("latin1"))
            jobs.append((vals, prog, probe, env))
        got = lang_lib.run_harness(eexe, [j[1].encode("latin1") for j in jobs], jobs=4, tmo=20, as_mb=4096)
        want = lang_lib.run_oracle(oexe, ["eval %s | %s" % (j[3], tm) for j in jobs])
        for (vals, prog, probe, env), a, m in zip(jobs, got, want):
            mm = m.split(" ")
            if mm[0] == "A":
                mv = "r:" + mm[1]
            elif mm[0] == "B":
                mv = "T" if mm[1] == "1" else "F"
            else:
                continue          # the model does not evaluate it under this valuation (non-linear, division by zero, ...)
            iv = None
            if a.startswith("OK solved=1"):
                for kv in a.split(" ")[2:]:
                    if kv.startswith(probe + "="):
                        iv = kv.split("=", 1)[1]
            elif lang_lib.outcome_class(a) in ("ABORT", "HANG"):
                iv = a[:80]
            if iv is not None and iv != mv:
                return ("eval:misparsed-expression:" + sx_head_at_diff(ti, tm),
                        {"kind": "evaluation-of-a-misparsed-expression", "program": prog, "expression": w.decode("latin1"),
                         "valuation": {n: str(v) for n, v in vals.items()}, "expected": mv, "implementation": iv,
                         "tree_by_the_language": tm, "tree_built_by_the_implementation": ti,
                         "found_in_input_hex": x[:4000].hex(), "found_in_input": x[:300].decode("latin1"),
                         "replay_cmd": "echo %s | %s" % (prog.encode("latin1").hex(), eexe)})
    return None


def parser_tie(ctx, pend, oexe, pexe, sexe=None, eexe=None):
    rng = ctx.rng
    cov = ctx.cov
    total, bad = 0, 0
    dist = {}
    nontrivial = set()

    def report(sig, rep, judged):
        nonlocal bad
        bad += 1
        if judged:
            pend.violation(sig, rep)
        else:
            pend.violation(sig, rep, no_input=True)

    both = []     # (input, signature, replay, already reported) of inputs that both sides accept with different trees

    # (a) corpus + examples: model vs implementation on real programs
    texts = [bytes.fromhex(c["input_hex"]) for c in corpus("C16") if c.get("kind") == "parse"] + [open(f, "rb").read() for f in example_files()]
    impl = [lang_lib.canon_parse(x) for x in lang_lib.run_harness(pexe, texts, jobs=4, tmo=5)]
    model = lang_lib.run_oracle(oexe, ["parse " + x.hex() for x in texts])
    for x, a, m in zip(texts, impl, model):
        total += 1
        dist["examples+corpus"] = dist.get("examples+corpus", 0) + 1
        if a.startswith("OK"):
            nontrivial.add(a)
        if a != m:
            da, dm = first_diff(a, m)
            valid = m.startswith("OK")
            sig = ("parse:valid-program:" + lang_lib.outcome_class(a)) if valid and not a.startswith("OK") else "corr:parse:examples"
            rep = {"kind": "parser", "input_hex": x.hex(), "input": x[:300].decode("latin1"), "implementation": da, "model": dm}
            if valid and a.startswith("OK"):
                both.append((x, sig, rep, False))
            else:
                report(sig, rep, valid and not a.startswith("OK"))

    # (b) generated trees: show (pp u) must be read back as u (the printer is the specification)
    n_units = 8000 if ctx.thorough else 1000
    n_exprs = 30000 if ctx.thorough else 4000
    n_mixed = 1500 if ctx.thorough else 250
    sx = []
    pat = [0, 0, 0]
    for _ in range(n_units):
        u = G.gen_unit(rng, rng.choice([1, 2, 2, 3]))
        pat = [a + b for a, b in zip(pat, G.disj_cost_patterns(u))]
        sx.append(("unit", G.sx_unit(u)))
    # disjunctions in which only some disjuncts carry a cost (`{..} [2] or {..} or {..} [3]`): every disjunct owns its own cost or none
    for _ in range(n_mixed):
        u = G.gen_mixed_unit(rng)
        pat = [a + b for a, b in zip(pat, G.disj_cost_patterns(u))]
        sx.append(("mixed-cost-unit", G.sx_unit(u)))
    for _ in range(n_exprs):
        e = G.gen_expr(rng, rng.choice([1, 2, 3, 3, 4, 5, 6, 8]))
        sx.append(("expr", "(cu (types) (methods) (preds) (stmts (expr %s)))" % G.sx_expr(e)))
    # parenthesised identifiers / qualified identifiers as operands of every binary and n-ary operator, followed by every unary
    # operator: `(a) - b`, `(a.b) + c`, `(a) * (b)`, `(a) - -b`, `((a)) - b`. The text is NOT the printer's (which never writes a
    # redundant parenthesis) but lang_gen.render_paren's; by the grammar it denotes the tree it was rendered from.
    ptrees = G.gen_paren_id_trees(rng, 3000 if ctx.thorough else 400)
    ptext = {}
    for t, st in ptrees:
        s1 = "(cu (types) (methods) (preds) (stmts (expr %s)))" % G.sx_expr(t)
        ptext[len(sx)] = (G.render_paren(rng, t, st) + " ;").encode()
        sx.append(("paren-ids", s1))
    shown = lang_lib.run_oracle(oexe, ["show " + s for _, s in sx])
    texts, wanted, kinds = [], [], []
    for i, ((k, s), line) in enumerate(zip(sx, shown)):
        if line.startswith("?"):
            report("corr:parse:oracle-show", {"kind": "oracle-failure", "sexpr": s[:500], "answer": line}, False)
            continue
        h, canon = line.split(" ", 1)
        texts.append(ptext.get(i, bytes.fromhex(h)))
        wanted.append("OK " + canon)
        kinds.append(k)
    impl = [lang_lib.canon_parse(x) for x in lang_lib.run_harness(pexe, texts, jobs=4, tmo=5)]
    model = lang_lib.run_oracle(oexe, ["parse " + x.hex() for x in texts])
    for x, w, a, m, k in zip(texts, wanted, impl, model, kinds):
        total += 1
        dist["printed-" + k] = dist.get("printed-" + k, 0) + 1
        nontrivial.add(w)
        if a != w:
            da, dw = first_diff(a, w)
            if a.startswith("OK"):
                sig = "parse:grouping:" + sx_head_at_diff(a, w)
            else:
                sig = "parse:rejects-valid:%s:%s" % (k, a[:60])
            rep = {"kind": "parser-roundtrip", "input_hex": x.hex(), "input": x[:400].decode("latin1"),
                   "expected_tree": dw, "implementation": da, "model": first_diff(m, w)[0]}
            report(sig, rep, True)
            if a.startswith("OK") and m == w:
                both.append((x, sig, rep, True))
        elif m != w:
            report("corr:parse:model-roundtrip", {"kind": "model-roundtrip", "input": x[:400].decode("latin1"), "expected_tree": first_diff(w, m)[0], "model": first_diff(m, w)[0]}, False)

    # (c) mutated text: acceptance / rejection and trees must agree between model and implementation
    muts = []
    for x in rng.sample(texts, min(len(texts), 4000 if ctx.thorough else 600)):
        muts += G.mutate_tokens(rng, x, 6)
    impl = [lang_lib.canon_parse(x) for x in lang_lib.run_harness(pexe, muts, jobs=4, tmo=5)]
    model = lang_lib.run_oracle(oexe, ["parse " + x.hex() for x in muts])
    acc = 0
    for x, a, m in zip(muts, impl, model):
        total += 1
        dist["mutated-tokens"] = dist.get("mutated-tokens", 0) + 1
        acc += a.startswith("OK")
        if a != m:
            da, dm = first_diff(a, m)
            if lang_lib.outcome_class(a) in ("ABORT", "HANG"):
                report("parse:%s-on-mutated-text" % lang_lib.outcome_class(a).lower(), {"kind": "parser", "input_hex": x.hex(), "input": x[:300].decode("latin1"), "implementation": a[:200], "model": m[:200]}, True)
            else:
                sig = "corr:parse:mutated:%s/%s" % (m.split(" ")[0] + (" " + m.split(" ")[1] if m.startswith("ERR") else ""), a.split(" ")[0] + (" " + a.split(" ")[1] if a.startswith("ERR") else ""))
                rep = {"kind": "parser-differs-from-model", "input_hex": x.hex(), "input": x[:300].decode("latin1"), "implementation": da, "model": dm}
                if a.startswith("OK") and m.startswith("OK"):
                    both.append((x, sig, rep, False))
                else:
                    report(sig, rep, False)
    dist["mutated-accepted"] = acc

    # (c') both sides accept the input but build different trees: which tree is the language's is decided END TO END -- the
    # sub-expression on which they differ is evaluated through the real planner under concrete valuations and compared with the
    # model's evaluation of the model's tree. A value difference is the failing input (program + valuation + both values).
    e2e = {"inputs_with_different_trees": len(both), "searched": 0, "value_differences": 0, "without_value_difference": 0}
    if both:
        hits, misses = [], []
        order = sorted(range(len(both)), key=lambda i: len(both[i][0]))
        for i in order:
            x, sig, rep, reported = both[i]
            hit = None
            if eexe and e2e["searched"] < (40 if ctx.thorough else 12) and len(hits) < 4:
                e2e["searched"] += 1
                hit = e2e_search(ctx, oexe, pexe, eexe, x)
            if hit:
                hits.append(hit)
            elif not reported:
                misses.append((sig, rep))
        e2e["value_differences"] = len(hits)
        e2e["without_value_difference"] = len(misses)
        for hsig, hrep in hits:
            hrep = dict(hrep, other_inputs_with_different_trees=[r["input"][:120] for _, r in misses[:10]])
            report(hsig, hrep, True)
        if not hits:
            for sig, rep in misses:
                report(sig, rep, False)
        else:
            bad += len(misses)
    cov["end_to_end_search_on_tree_disagreements"] = e2e

    # (d) the destruction path: the sanitizer build of the same harness parses AND destroys the compilation unit (every node of the
    # tree is deleted by its owner exactly once); no report (ABORT), no memory left behind for an accepted program (LEAK), same tree.
    # Rejected programs leave partially built trees behind in the pinned implementation (no ownership on the error path), so for
    # them only the outcome class is compared.
    san = {"inputs": 0, "accepted": 0, "findings": 0}
    if sexe:
        idx_mixed = [i for i, k in enumerate(kinds) if k == "mixed-cost-unit"]
        idx_unit = [i for i, k in enumerate(kinds) if k == "unit"]
        idx_expr = [i for i, k in enumerate(kinds) if k == "expr"]
        sel = (rng.sample(idx_mixed, min(len(idx_mixed), 1500 if ctx.thorough else 150)) +
               rng.sample(idx_unit, min(len(idx_unit), 3000 if ctx.thorough else 350)) +
               rng.sample(idx_expr, min(len(idx_expr), 2000 if ctx.thorough else 150)))
        sdata = [texts[i] for i in sel] + [open(f, "rb").read() for f in example_files()]
        msel = rng.sample(range(len(muts)), min(len(muts), 3000 if ctx.thorough else 400))
        sdata += [muts[i] for i in msel]
        plain = [lang_lib.canon_parse(x) for x in lang_lib.run_harness(pexe, sdata, jobs=4, tmo=5)]
        sout = lang_lib.run_harness(sexe, sdata, jobs=8, tmo=60, as_mb=0,
                                    env_extra={"ASAN_OPTIONS": "detect_leaks=1:abort_on_error=0", "UBSAN_OPTIONS": "print_stacktrace=1"})
        for x, p, a in zip(sdata, plain, sout):
            total += 1
            san["inputs"] += 1
            leak = a.endswith(" LEAK")
            a0 = lang_lib.canon_parse(a[:-5] if leak else a)
            rep = {"kind": "parser-sanitizer-run", "build": "-O1 -fsanitize=address,undefined + LeakSanitizer; the unit is destroyed after printing",
                   "input_hex": x.hex(), "input": x[:400].decode("latin1"), "outcome": a[:300], "outcome_of_the_plain_build": p[:300],
                   "stderr_tail": lang_lib.run_harness.last_stderr[-1500:]}
            if p.startswith("OK"):
                san["accepted"] += 1
                if lang_lib.outcome_class(a0) in ("ABORT", "HANG"):
                    san["findings"] += 1
                    report("parse:destroying-the-tree:%s" % lang_lib.outcome_class(a0), rep, True)
                elif leak:
                    san["findings"] += 1
                    report("parse:destroying-the-tree:leak", rep, True)
                elif a0 != p:
                    san["findings"] += 1
                    report("parse:sanitizer-build-differs", rep, True)
            elif lang_lib.outcome_class(a0) != lang_lib.outcome_class(p):
                san["findings"] += 1
                report("parse:sanitizer-build:%s/%s" % (lang_lib.outcome_class(p), lang_lib.outcome_class(a0)), rep, True)
    cov["parser"] = {"programs": total, "by_generator": dist, "disagreements": bad,
                     "disjunctions": {"generated": pat[0], "mixed_cost": pat[1], "costless_disjunct_after_a_costed_one": pat[2]},
                     "destruction_under_sanitizers": san}
    return total, bad, nontrivial


# ------------------------------------------------------------------------------------------------
def eval_programs(ctx):
    """-> list of (program text, probe name, kind 'a'|'b', expected value, env spec for the oracle, expr sx, tags)"""
    rng = ctx.rng
    progs = []
    skipped = [0]
    ctx.cov["evaluation_skipped_out_of_range"] = skipped
    n_a = 6000 if ctx.thorough else 700
    n_b = 6000 if ctx.thorough else 700
    for _ in range(n_a):
        nv = rng.choice([0, 0, 1, 2, 3])
        names = ["x%d" % i for i in range(nv)]
        vals = {n: G.lit_value(G.frac_lit(rng)) * rng.choice([1, 1, -1]) for n in names}
        e, const = G.gen_arith(rng, rng.choice([1, 2, 3, 4]), set(names))
        want = G.eval_arith(e, vals)
        mag = G.arith_magnitude(e, vals)
        if want is None or mag is None or mag >= 2 ** 28:
            skipped[0] += 1
            continue
        # some programs are written with redundant parentheses around identifiers and literals (`(x0) - x1`, `(o.x0) + 1`) instead of
        # by the model's printer, and some of their variables are fields of an object (qualified identifiers)
        paren = rng.random() < 0.35
        qual = set(n for n in names if rng.random() < 0.5) if paren and rng.random() < 0.4 else set()
        lines = []
        for n in names:
            v = vals[n]
            lit = ("%d.0" % v.numerator) if v.denominator == 1 and v >= 0 else None
            if lit is None:
                # pin the variable through an exact expression:  n / d  (and a sign)
                lit = "%s%d / %d" % ("-" if v < 0 else "", abs(v.numerator), v.denominator)
            if n not in qual:
                lines.append("real %s; %s == %s;" % (n, n, lit))
            else:
                lines.append("o.%s == %s;" % (n, lit))
        if qual:
            lines.insert(0, "class C_o { %s } C_o o = new C_o();" % " ".join("real %s;" % n for n in names if n in qual))
        progs.append({"decl": lines, "probe": "v", "kind": "a", "want": want, "expr": G.qualify_ids(e, qual), "paren": paren,
                      "env": ",".join("%s%s:a:%d:%d/%d" % ("o." if n in qual else "", n, i + 1, vals[n].numerator, vals[n].denominator) for i, n in enumerate(names)),
                      "tags": ["constant" if const else "linear"] + (["redundant-parentheses"] if paren else []) + (["qualified-identifiers"] if qual else [])})
    for _ in range(n_b):
        nb = rng.choice([0, 1, 2, 3])
        na = rng.choice([0, 0, 1, 2])
        bn = ["p%d" % i for i in range(nb)]
        an = ["x%d" % i for i in range(na)]
        bvals = {n: rng.random() < 0.5 for n in bn}
        avals = {n: G.lit_value(G.frac_lit(rng)) for n in an}
        e = G.gen_bool(rng, rng.choice([1, 2, 3]), set(bn), set(an))
        try:
            want = G.eval_bool(e, bvals, avals)
            mag = G.bool_magnitude(e, avals)
        except (TypeError, KeyError):
            continue
        if mag is None or mag >= 2 ** 28:
            skipped[0] += 1
            continue
        tags = []
        if G.disj_forced(e, bvals, avals):
            tags.append("disjunction-false")
        if G.xor_risky(e, bvals, avals):
            tags.append("xor-repeated")
        paren = rng.random() < 0.35
        qual = set(n for n in an + bn if rng.random() < 0.5) if paren and rng.random() < 0.4 else set()
        if paren:
            tags.append("redundant-parentheses")
        if qual:
            tags.append("qualified-identifiers")
        pre = lambda n: "o." if n in qual else ""
        lines = []
        if qual:
            lines.append("class C_o { %s } C_o o = new C_o();" % " ".join(("real %s;" if n in an else "bool %s;") % n for n in an + bn if n in qual))
        for n in an:
            v = avals[n]
            lines.append(("" if n in qual else "real %s; " % n) + "%s%s == %d / %d;" % (pre(n), n, v.numerator, v.denominator))
        for n in bn:
            lines.append(("" if n in qual else "bool %s; " % n) + "%s%s%s;" % ("" if bvals[n] else "!", pre(n), n))
        env = ",".join(["%s%s:a:%d:%d/%d" % (pre(n), n, i + 1, avals[n].numerator, avals[n].denominator) for i, n in enumerate(an)] +
                       ["%s%s:b:%d:%d" % (pre(n), n, i + 1, 1 if bvals[n] else 0) for i, n in enumerate(bn)])
        progs.append({"decl": lines, "probe": "q", "kind": "b", "want": want, "expr": G.qualify_ids(e, qual), "paren": paren, "env": env, "tags": tags})
    return progs


def eval_tie(ctx, pend, oexe, eexe):
    cov = ctx.cov
    progs = eval_programs(ctx)
    for c in corpus("C16"):
        if c.get("kind") == "eval":
            progs.append({"text": c["program"], "probe": c["probe"], "kind": c["value_kind"], "want_text": c["expected"], "corpus": c.get("name"), "tags": c.get("tags", [])})
    # products / quotients over variables whose bounds already coincide (fixed by an earlier read() call or by the propagation that
    # precedes a rule / constructor body), with free variables and constants: the value is judged on the values the solver reports
    for p in G.fixed_var_programs(ctx.rng, 1500 if ctx.thorough else 200):
        progs.append(dict(p, kind="a", dynamic=True))
    # products with a constant that is exactly zero over unbounded variables, and cancelling sums: valid programs, value 0
    for k, t, want, probes in G.zero_programs():
        fam = k.split(":")[0]
        if want == "OK1":
            for nme, v in probes.items():
                progs.append({"text": t, "probe": nme, "kind": "a", "want_text": "r:%d/1" % v, "corpus": k, "tags": [fam]})
        else:
            progs.append({"text": t, "probe": "v", "kind": "a", "want_text": "unsolvable", "corpus": k, "tags": [fam]})
    # the program text is what the verified printer writes for the expression
    need = [p for p in progs if "text" not in p]
    shown = lang_lib.run_oracle(oexe, ["showe " + G.sx_expr(p["expr"]) for p in need])
    for p, line in zip(need, shown):
        txt = bytes.fromhex(line.split(" ", 1)[0]).decode("latin1")
        if p.get("paren"):
            txt = G.render_paren(ctx.rng, p["expr"])
        if p["kind"] == "a":
            p["text"] = " ".join(p["decl"]) + " real v; v == %s;" % txt
        else:
            p["text"] = " ".join(p["decl"]) + " bool q; q == (%s);" % txt
    impl = lang_lib.run_harness(eexe, [p["text"].encode("latin1") for p in progs], jobs=8, tmo=20, as_mb=4096)
    model = lang_lib.run_oracle(oexe, ["eval %s | %s" % (p["env"], G.sx_expr(p["expr"])) if "expr" in p else "eval | (bool 1)" for p in progs])
    dist = {"arith": 0, "bool": 0, "with-a-false-disjunction": 0, "xor-with-two-true-operands": 0, "redundant-parentheses": 0, "qualified-identifiers": 0,
            "fixed-bounds": 0, "zero-product": 0, "cancel": 0}
    bad = 0
    nontrivial = set()
    for p, a, m in zip(progs, impl, model):
        kind = p["kind"]
        if p.get("dynamic"):
            w = G.eval_text(p["expr_text"], G.reported_values(a)) if a.startswith("OK solved=1") else None
            want = ("r:%d/%d" % (w.numerator, w.denominator)) if w is not None else "a solution whose values satisfy v == " + p["expr_text"]
        elif "want" in p:
            w = p["want"]
            want = ("r:%d/%d" % (w.numerator, w.denominator)) if kind == "a" else ("T" if w else "F")
        else:
            want = p["want_text"]
        got = None
        if a.startswith("OK solved=1"):
            for kv in a.split(" ")[2:]:
                if kv.startswith(p["probe"] + "="):
                    got = kv.split("=", 1)[1]
        elif a.startswith("OK solved=0") or a.startswith("UNSAT"):
            got = "unsolvable"
        else:
            got = a[:80]
        if "disjunction-false" in p["tags"]:
            dist["with-a-false-disjunction"] += 1      # (once forced true by the planner: fixed in /repo 824ffe6)
        if "xor-repeated" in p["tags"]:
            dist["xor-with-two-true-operands"] += 1    # (once merged as equal literals: fixed in /repo 6b4d509)
        dist["arith" if kind == "a" else "bool"] += 1
        for t in ("redundant-parentheses", "qualified-identifiers", "fixed-bounds", "zero-product", "cancel"):
            if t in p["tags"]:
                dist[t] += 1
        nontrivial.add(p["text"])
        # the model's own two answers (evaluated expression / denotation) must agree with the independent judge
        if "expr" in p:
            mm = m.split(" ")
            mwant = ("r:" + mm[1]) if mm[0] == "A" else ("T" if mm[1] == "1" else "F") if mm[0] == "B" else m
            if mwant != want or (len(mm) > 2 and mm[1] != mm[2]):
                bad += 1
                pend.violation("corr:eval:model-differs-from-exact-arithmetic", {"kind": "model", "program": p["text"], "judge": want, "model": m}, no_input=True)
                continue
        if got != want:
            bad += 1
            top = p["expr"][0] if "expr" in p else "corpus"
            fam = next((t for t in ("fixed-bounds", "zero-product", "cancel") if t in p["tags"]), "arith" if kind == "a" else "bool")
            sig = "eval:%s:%s" % (fam, "abort" if lang_lib.outcome_class(a) in ("ABORT", "HANG") else "unsolvable" if got == "unsolvable" else "value")
            pend.violation(sig, {"kind": "evaluation", "program": p["text"], "expected": want, "implementation": got, "top_operator": top,
                                 "reads": p["text"].count(G.READ_SEP) + 1, "family": p.get("corpus") or ",".join(p["tags"]), "values_reported": a[:400],
                                 "replay_cmd": "echo %s | %s" % (p["text"].encode("latin1").hex(), eexe)})
    cov["evaluation"] = {"programs": len(progs), "by_kind": dist, "disagreements": bad}
    return len(progs), bad, nontrivial


# ------------------------------------------------------------------------------------------------
def run(ctx):
    cov = ctx.cov
    pend = lang_lib.Pending(ctx)
    state = {"bad": 0}

    oexe, olog = lang_lib.build_oracle()
    if not oexe:
        ctx.violation("build:oracle_lang", {"kind": "oracle-build-failed", "log": olog[-3000:]}, no_input=True)
        return
    lexe, l1 = lang_build.build_lex()
    pexe, l2 = lang_build.build_parse()
    eexe, l3 = lang_build.build_eval()
    sexe, l4 = lang_build.build_parse(san=True)
    for name, exe, lg in (("h_lex", lexe, l1), ("h_parse", pexe, l2), ("h_eval", eexe, l3), ("h_parse_san", sexe, l4)):
        if not exe:
            ctx.violation("build:" + name, {"kind": "harness-build-failed", "log": lg[-3000:]}, no_input=True)
            return
    ctx.log("built oracle + harnesses")
    pend.resolve({"lex": lexe, "parse": pexe, "eval": eexe})
    if pend.active:
        ctx.log("pending fixes still active on this tree:", ", ".join(sorted(pend.active)))

    n1, b1, nt1 = lexer_tie(ctx, pend, oexe, lexe)
    ctx.log("lexer tie: %d inputs, %d disagreements" % (n1, b1))
    n2, b2, nt2 = parser_tie(ctx, pend, oexe, pexe, sexe, eexe)
    ctx.log("parser tie: %d programs, %d disagreements" % (n2, b2))
    n3, b3, nt3 = eval_tie(ctx, pend, oexe, eexe)
    ctx.log("evaluation tie: %d programs, %d disagreements" % (n3, b3))
    state["bad"] = b1 + b2 + b3

    def search(res):
        # the failing-input search IS the three ties above (judged by the reference tokenizer, the printed trees and exact
        # arithmetic on the implementation alone): a reported violation there is the concrete failing input
        return bool(ctx.violations) or bool(pend.hit)
    vlib.proof_stage(ctx, search=search)

    cov["evaluations"] = n1 + n2 + n3
    cov["distinct_nontrivial"] = len(nt1) + len(nt2) + len(nt3)
    cov["traces_validated_against_impl"] = n1 + n2 + n3 - state["bad"]
    cov["pending_fixes_hit"] = pend.hit
    cov["rule"] = ("lexer: every state of the keyword automaton x every next byte, every first byte, all operator pairs, token soup, "
                   "examples and byte mutations, `show` of random well-formed token lists; parser: all example programs, `show (pp u)` of "
                   "random compilation units (incl. units built around disjunctions in which only some disjuncts carry a cost) and expression trees "
                   "(depth <= 8, all node kinds), texts with redundant parentheses around identifiers as operands of every operator (tree tier and value tier), "
                   "token mutations (a tree disagreement on an input both sides accept is searched end to end: bound identifiers, real planner vs model value), and a subset of all of these parsed AND destroyed under ASan/UBSan/LSan; evaluation: random LINEAR "
                   "arithmetic trees over literals and pinned variables, boolean formulas over pinned variables and relations; non-trivial = "
                   "more than 4 tokens / a distinct tree / a distinct program; products and quotients over variables whose bounds already coincide "
                   "(earlier read() call, rule / constructor / method bodies) in every operand position, products with a zero constant over "
                   "unbounded variables and cancelling sums, judged with exact arithmetic on the reported values")
    ctx.sample({"lexer_inputs": n1, "parser_programs": n2, "evaluation_programs": n3})
    cov["trusted_base"] += [
        "oracle/lang_io.ml, lang_main.ml (S-expression reader/printer, decimal printing) and harness/h_lex.cpp, h_parse.cpp, h_eval.cpp, lang_common.h",
        "tools/lang_gen.py: the reference tokenizer and the python Fraction / truth-table evaluator used as independent judges",
        "ExtrOcamlString (Coq ascii -> OCaml char) in addition to ExtrOcamlBasic",
        "LONG_MAX = 2^63 - 1 (smt::I = long on the build platform); riddle::parser::max_depth = 1000 mirrored as Parser.MAX_DEPTH (checked by the deep-nesting cases of C18)",
        "the clause encodings behind bool literals (C13) and the meaning of lra relation literals (C11) are taken from those properties",
    ]
    ctx.assumptions += ["generated evaluation programs keep every intermediate numerator and denominator below 2^28 (no machine overflow: the range clause of C15)",
                        "evaluation theorems are about well-typed LINEAR expressions (products with at most one non-constant factor, constant non-zero divisors), the precondition core::mult / core::div assert",
                        "function and constructor calls are parsed (theorems) but not evaluated by the model (outside the property's quantifier)",
                        "a boolean expression is identified with the formula its literal is defined to be equivalent to (C13)"]


def replay(path):
    r = json.load(open(path))
    oexe, _ = lang_lib.build_oracle()
    if r.get("kind", "").startswith("lexer"):
        exe, _ = lang_build.build_lex()
        x = bytes.fromhex(r["input_hex"])
        print("implementation:", lang_lib.run_harness(exe, [x])[0])
        print("model         :", lang_lib.run_oracle(oexe, ["lex " + x.hex()])[0])
        print("reference     :", G.ref_line(x))
    elif "program" in r:
        exe, _ = lang_build.build_eval()
        print("implementation:", lang_lib.run_harness(exe, [r["program"].encode("latin1")], tmo=20)[0])
        print("expected      :", r.get("expected"))
    elif "input_hex" in r:
        exe, _ = lang_build.build_parse()
        x = bytes.fromhex(r["input_hex"])
        print("implementation:", lang_lib.run_harness(exe, [x])[0][:2000])
        if r.get("kind") == "parser-sanitizer-run":
            sexe, _ = lang_build.build_parse(san=True)
            print("sanitizer build:", lang_lib.run_harness(sexe, [x], tmo=60, as_mb=0, env_extra={"ASAN_OPTIONS": "detect_leaks=1:abort_on_error=0"})[0][:2000])
            print(lang_lib.run_harness.last_stderr[-3000:])
        print("model         :", lang_lib.run_oracle(oexe, ["parse " + x.hex()])[0][:2000])
    return 0
