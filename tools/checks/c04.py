"""C04 -- atoms on the same state variable never overlap in time.

K1: coq/plan/Sweep.v models the pulse sweep of state_variable::get_current_incs, extract_timelines, the resolver set of
    sv_flaw and the to_check bookkeeping; props/Properties_C04.v proves (for every list of atoms / every event history)
    that the sweep reports a pair iff the half-open intervals intersect, that the timeline shows <= 1 atom per segment
    iff the atoms are disjoint, that every resolver removes the overlap and when the set is exhaustive, and that with
    the listener wiring of the current source every instance hosting an active atom is in to_check at every sweep.
Tie + K2: harness/h_timelines.cpp (real planner, /repo's current sources, every configuration of the tier) on seeded
    RIDDLE problems; every sweep the planner makes and every reported solution is compared with the extracted model
    and an independent python reference and judged by the property itself (see tools/tl_run.py, tools/tl_check.py).
"""
import tl_run

LEVEL = "proof"
KIND = "SV"


def prebuild():
    tl_run.prebuild()


def run(ctx):
    tl_run.run_check(ctx, KIND)


def replay(path):
    return tl_run.replay("C04", KIND, path)
