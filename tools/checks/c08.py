"""C08 -- undoing decisions restores the network exactly.

Pipeline (DESIGN.md 7-C08, notes/CONVENTIONS.md):
  1. proof stage: props/Properties_C08.v (theorems over the model stack; written by the owner of C07/C08);
  2. build harness/h_net.cpp (ONE real sat_core + lra_theory + idl_theory + rdl_theory + ov_theory of /repo's current
     sources) and the extracted RUP checker (oracle "sat", mode rup);
  3. IMPLEMENTATION-LEVEL history independence.  For corpus scripts and for seeded random (network, history) pairs
     (tools/net_gen.py, steered by the harness's own answers) the history is run on the network N and after every
     history command at which the propagation queue is empty ("comparison point") the complete observable state
     `obs` of N (all literal values, all LRA lb/ub and bounds of every atom's expression, the complete IDL and RDL
     distance matrices and bounds, all OV domains) is compared with `obs` of a FRESH network F obtained by
        (a) replaying the construction script (+ the clauses added at root later in the history),
        (b) adding as clauses every clause N recorded so far (hook kinds 0 learnt, 1 next() no-good, 2 theory lemma)
            and propagating,
        (c) assuming the standing decisions of N, in order.
     The two must be IDENTICAL.  F is "a network that never took the undone decisions"; (b) is the property's
     "modulo learnt clauses".
     Comparable / incomparable.  While F replays (b)+(c) it may itself run into a conflict (answer false, backjump:
     decision level != number of decisions, a kind 0/3 hook): the two are then not in the same situation, the point is
     counted as INCOMPARABLE (by reason) and skipped.  When F records new THEORY LEMMAS during the replay (hook kind 2:
     the row-bound propagation of the simplex only looks at the rows in which the variable is NON BASIC, and the basis
     legitimately depends on the pivots of the past: corpus/C08/hand_lra_row_propagation_depends_on_basis.txt) F knows
     more clauses than N: the point is compared ONE-SIDED (everything N has assigned / bounded must be there in F: N's
     literals have the same value in F, N's intervals contain F's, N's OV domains contain F's) -- anything a popped
     decision left behind in N still shows up.  If such a lemma already propagated in F a literal that N decided later,
     F has one level less: lvl / dec are then left out of the (one-sided) comparison; a decision of N that F REFUTES by
     propagation is reported (net:decision-refuted-by-fresh-network).
     THE KNOWN FINDING.  When a one-sided point agrees but F has literals assigned that N leaves Undefined, the
     difference is accepted as the known finding "theory propagation depends on the simplex basis" ONLY IF it is proved
     to be exactly that (explain_lra_basis): every extra literal of F is either (root) the relation literal of an LRA
     atom that F derived by a kind-2 lemma made of LRA atoms only, unit under F's assignment and valid (refuted by a
     pristine network), or a consequence of the roots: a copy of N (same script) in which the roots are assumed on top
     must end up with EXACTLY F's literal values, LRA bounds, IDL / RDL matrices and OV domains (alternating a few
     rounds when the copy itself derives new valid LRA lemmas).  Anything left over - in particular any IDL / RDL
     distance, OV domain, LRA bound or non-LRA literal not reproduced that way - is a violation with its own signature
     (net:history-dependence:rdl-distance, :idl-distance, :lra-bound, :ov-domain, :literal, :levels).  Whether the two
     tableaux have different bases is recorded in the evidence.
  4. direct forms, evaluated on N alone at every command:
        (i)  assume p ; ... ; pop   with no hook call in between  => obs after the pop == obs before the assume
             (nested: every level has its own saved obs), check(lits) / propagate with no hook call => obs unchanged;
        (ii) back at root obs(N) == obs(fresh(construction + recorded clauses))   (the comparison of 3 with no decision:
             always evaluated, never sampled).
  5. side condition "learnt clauses are entailed": every kind-0 clause must be RUP (extracted checker, proved sound
     in coq/smt/Rup.v) w.r.t. the clauses given to new_clause (kind 4, "F") and the no-goods / theory lemmas / theory
     conflicts recorded before it (kinds 1, 2, 3, "N": taken on trust here, validated by C07 / C09 / C10).
  6. explanations after pops: every theory lemma / theory conflict N records (kinds 2, 3) is validated on a PRISTINE
     network (construction script only): check(<negated literals>) must answer false (lemma_checks).  A stale
     predecessor / enforcing constraint / reason left behind by a pop shows up here (the recorded clause omits
     literals), and only here: the bogus clause is part of the "recorded clauses" both networks of 3 share.
  7. coverage of the first-write-wins undo layers: after every command the harness reports (command mu, exact) for every
     standing level and theory how many LRA bounds / IDL cells / RDL cells / OV domains were tightened two or more times
     within that level (and whether on top of an older finite value from a lower level, and whether through a path);
     the check attributes every undone level to pop / next() / backjump and FAILS (c08:coverage-hole:..) when, for some
     theory, no such level was undone in each of the three ways or never over an older finite value.  mu's replay also
     cross-checks the undo layers themselves (net:undo-layers-do-not-replay).
  Every disagreement is minimised (delta debugging over the history, then over the clauses of the construction,
  re-running both networks) before it is reported.  Every problem is reported through ctx.violation under its own
  signature; the only entry of known_findings.json that can match is the LRA-basis finding, and only after step 3's proof.
"""
import glob
import json
import os
import time
from fractions import Fraction

import vlib
import sat_lib
import net_gen

LEVEL = "proof"
CORPUS = os.path.join(vlib.VERIF, "corpus", "C08")
LRA_BASIS_SIG = "net:history-dependence:lit:theory-propagation-depends-on-simplex-basis"
SEP = "== history"


# ------------------------------------------------------------------------------------------------
# drivers
# ------------------------------------------------------------------------------------------------
class Harness:
    """A restartable h_net process (net_gen.Drv: no ASLR, reader thread, an answer that takes more than `limit` seconds
    kills it).  After a death the exit code / hung flag / commands sent are kept and a new process is started."""

    def __init__(self, exe, limit=15.0):
        self.exe, self.limit = exe, limit
        self.drv = None
        self.start()

    def start(self):
        if self.drv is not None:
            try:
                self.drv.p.kill()
                self.drv.p.wait(timeout=5)
            except Exception:
                pass
        self.drv = net_gen.Drv(self.exe, limit=self.limit)
        self.sent = []

    def _died(self):
        self.last_rc, self.last_hung, self.last_sent = self.drv.rc(), self.drv.hung, list(self.sent)
        self.start()

    def send(self, cmd):
        if cmd == "reset":
            self.sent = []
        self.sent.append(cmd)
        try:
            return self.drv.send(cmd)
        except EOFError:
            self._died()
            raise

    def batch(self, cmds):
        self.sent = list(cmds)
        try:
            return self.drv.batch(cmds)
        except EOFError:
            self._died()
            raise

    def close(self):
        try:
            self.drv.close()
        except Exception:
            pass


class Crash(Exception):
    def __init__(self, done, rc, hung):
        Exception.__init__(self, "harness died")
        self.done, self.rc, self.hung = done, rc, hung


# ------------------------------------------------------------------------------------------------
# obs parsing / comparison
# ------------------------------------------------------------------------------------------------
SECTION_OF = {"vals": "lit", "lra": "lra", "lat": "lra", "idl": "idl", "rdl": "rdl", "ov": "ov", "lvl": "lev", "dec": "lev"}
ORDER = ["rdl", "idl", "ov", "lra", "lit", "lev"]       # the most specific observable names the signature
SIG_NAME = {"rdl": "rdl-distance", "idl": "idl-distance", "ov": "ov-domain", "lra": "lra-bound", "lit": "literal", "lev": "levels"}


def what_differs(d):
    """every kind of observable that differs (a wrong distance usually drags literals and other theories along through the clauses)"""
    return "+".join(SIG_NAME[s] for s in ORDER if any(x[0] == s for x in d))


def obs_fields(line):
    d = {}
    for tok in line.split(" ")[1:]:
        k, _, v = tok.partition("=")
        d[k] = v
    return d


def p_rat(s):
    n, d = s.split("/")
    n, d = int(n), int(d)
    if d == 0:
        return (1 if n > 0 else -1, Fraction(0))
    return (0, Fraction(n, d))


def p_irat(s):
    """inf_rational for the ONE-SIDED (interval inclusion) comparison: an infinite value is infinite whatever its infinitesimal
    part (bounds(lin) of an expression with an unbounded variable and a strictly bounded one prints +inf - epsilon)"""
    a, b = s.split(",")
    ra = p_rat(a)
    return ra + ((0, Fraction(0)) if ra[0] else p_rat(b))


def p_int(s):
    if s == "inf":
        return (1, 0)
    if s == "-inf":
        return (-1, 0)
    return (0, int(s))


def items(sec, v):
    """name -> (lo, hi) raw strings of one obs section"""
    out = {}
    if sec in ("lra", "lat"):
        for it in v.split(";"):
            if it:
                n, lo, hi = it.split(":")
                out[n] = (lo, hi)
    elif sec in ("idl", "rdl"):
        for it in v.split(";")[1:]:
            n, _, r = it.partition("=")
            lo, hi = r.split(":")
            out[n] = (lo, hi)
    elif sec == "ov":
        for it in v.split(";"):
            if it:
                n, _, r = it.partition(":")
                out[n] = r
    return out


def diff_obs(on, of):
    """List of (section, item, fresh value, network value) where the two obs lines differ."""
    a, b = obs_fields(on), obs_fields(of)
    out = []
    for k in ("lvl", "dec"):
        if a.get(k) != b.get(k):
            out.append(("lev", k, b.get(k), a.get(k)))
    va, vb = a.get("vals", ""), b.get("vals", "")
    if va != vb:
        if len(va) != len(vb):
            out.append(("lit", "nvars", len(vb), len(va)))
        for i, (x, y) in enumerate(zip(va, vb)):
            if x != y:
                out.append(("lit", "b%d" % i, y, x))
    for k in ("lra", "lat", "idl", "rdl", "ov"):
        if a.get(k) != b.get(k):
            ia, ib = items(k, a.get(k, "")), items(k, b.get(k, ""))
            for n in sorted(set(ia) | set(ib)):
                if ia.get(n) != ib.get(n):
                    out.append((SECTION_OF[k], k + "." + n, ib.get(n), ia.get(n)))
    return out


def onesided_violations(on, of):
    """N <= F in the information order: what N has assigned / bounded must be in F (F may know more).
    Returns the list of (section, item, fresh, network) where N claims something F does not have."""
    out = []
    for sec, name, fv, nv in diff_obs(on, of):
        if sec in ("lit", "lev"):
            if name.startswith("b") and nv == "U":
                continue
            out.append((sec, name, fv, nv))
        elif sec == "ov":
            sn = set(nv.split(",")) if nv else set()
            sf = set(fv.split(",")) if fv else set()
            if not sf <= sn:
                out.append((sec, name, fv, nv))
        else:
            k = name.split(".")[0]
            conv = p_int if k == "idl" else p_irat
            try:
                nlo, nhi, flo, fhi = conv(nv[0]), conv(nv[1]), conv(fv[0]), conv(fv[1])
            except Exception:
                out.append((sec, name, fv, nv))
                continue
            if nlo > flo or nhi < fhi:       # N's interval must contain F's
                out.append((sec, name, fv, nv))
    return out


def strip_levels(line):
    t = line.split(" ")
    return " ".join(x for x in t if not (x.startswith("lvl=") or x.startswith("dec=")))


def numeric_part(line):
    f = obs_fields(line)
    return (f.get("lra"), f.get("idl"), f.get("rdl"))


# ------------------------------------------------------------------------------------------------
# running a case on N
# ------------------------------------------------------------------------------------------------
class Run:
    """cons, hist + what N answered: cons_ans, obs0 (after the construction), kinds (owner theory of every propositional variable),
    ans[i], obs[i], mus[i] (after hist[i]).  The line sequence N was fed is exactly script_lines(cons, hist)."""

    def __init__(self, cons, hist, cons_ans, obs0, kinds, ans, obs, mus, origin=""):
        self.cons, self.hist, self.cons_ans, self.obs0, self.ans, self.obs, self.mus, self.origin = cons, hist, cons_ans, obs0, ans, obs, mus, origin
        self.kinds = kinds.split(" ", 1)[1] if " " in kinds else ""


def script_lines(cons, hist):
    lines = list(cons) + ["obs", "kinds"]
    for c in hist:
        lines += [c, "obs", "mu"]
    return lines


def run_case(h, cons, hist, origin=""):
    """A NEW process per case: lra_theory keeps rows in unordered_set<row *>, the pivots depend on heap addresses; with ASLR
    off a process is a function of the lines it is fed, so that the same lines give the same network again (explain_lra_basis)."""
    lines = script_lines(cons, hist)
    h.start()
    try:
        out = h.batch(lines)
    except EOFError:
        rc, hung = h.last_rc, h.last_hung
        # how far did it get: replay line by line on the new process
        done = 0
        try:
            for ln in lines:
                h.send(ln)
                done += 1
        except EOFError:
            rc, hung = h.last_rc, hung or h.last_hung
        raise Crash(done, rc, hung)
    nc = len(cons)
    return Run(list(cons), list(hist), out[:nc], out[nc], out[nc + 1], out[nc + 2::3], out[nc + 3::3], out[nc + 4::3], origin)


def hooks_of(ans):
    i = ans.find(" hooks=")
    return sat_lib.parse_hooks(ans[i + 7:]) if i >= 0 else []


def norm_hooks(ans):
    i = ans.find(" hooks=")
    return ans if i < 0 else ans[:i + 7] + "|".join(sorted(ans[i + 7:].split("|")))


def fresh_script(run, upto, more=()):
    """The script of the fresh network for the comparison point after hist[upto] (upto = -1: after the construction).
    more: further clauses (literal lists) to be added with the recorded ones.
    Returns (lines, n_prefix, decisions, n_recorded_clauses); the last two lines are "obs" and "basis"."""
    learnt, extra = [], []
    for a in run.cons_ans:
        for k, ls in hooks_of(a):
            if k in (0, 1, 2):
                learnt.append(ls)
    for i in range(upto + 1):
        a = run.ans[i]
        if run.hist[i].startswith("c ") and not a.startswith("rc=skip"):
            extra.append(run.hist[i])
        for k, ls in hooks_of(a):
            if k in (0, 1, 2):
                learnt.append(ls)
    st = net_gen.parse(run.ans[upto]) if upto >= 0 else net_gen.parse(run.cons_ans[-1])
    dec = sat_lib.ints(st.get("dec", ""))
    learnt += [list(ls) for ls in more]
    pre = list(run.cons) + extra + ["c " + " ".join(map(str, ls)) for ls in learnt] + ["p"]
    return pre + ["a %d" % d for d in dec] + ["obs", "basis"], len(pre), dec, len(learnt)


class Stats:
    def __init__(self):
        self.points = 0            # comparison points evaluated (exact + one-sided)
        self.exact = 0
        self.onesided = 0
        self.agreed = 0
        self.incomparable = {}
        self.nontrivial = 0
        self.root_points = 0
        self.direct_pop = 0        # direct form (i) evaluations
        self.direct_nohook = 0     # check()/propagate with no hook call: obs unchanged
        self.skipped_sampling = 0
        self.ops = {}
        self.depth = {}
        self.hooks = {0: 0, 1: 0, 2: 0, 3: 0, 4: 0}
        self.pops = 0
        self.cases = 0
        self.dead_cases = 0
        self.skips = 0
        self.max_depth = 0
        self.learnt_at_points = 0
        self.basis = dict(explained=0, bases_differ=0, bases_equal=0, rounds={}, roots=0, downstream_literals=0, downstream_numeric=0,
                          unexplained=0)
        self.multi = {}            # theory -> {category: undone levels in which one bound / cell / domain had been updated >= 2 times}
        self.mu_void = 0
        self.ov_tie = 0
        self.levels_merged = 0
        self.fresh_knows_more = 0
        self.lemmas_checked = 0
        self.lemmas_pristine_dead = 0

    def inc(self, d, k, n=1):
        d[k] = d.get(k, 0) + n


def fresh_eval(run, upto, F, stats, more=(), count=True):
    """Runs the fresh network of the comparison point.  Returns (problem, None) / (None, None) when incomparable, else
    (None, dict(of, basis, out, lines, dec, nlearnt, nskip, fresh_learnt))."""
    lines, npre, dec, nlearnt = fresh_script(run, upto, more)
    out = F.batch(lines)
    nc = len(run.cons)

    def inc(k):
        if count:
            stats.inc(stats.incomparable, k)
    if out[:nc] != run.cons_ans:
        # ov_theory::new_eq walks an unordered_map keyed by var_value POINTERS: the order in which its clauses reach new_clause
        # (the order of the kind-4 hooks) differs from process to process; everything else must be identical
        bad = [i for i in range(nc) if out[i] != run.cons_ans[i] and norm_hooks(out[i]) != norm_hooks(run.cons_ans[i])]
        if bad:
            k = bad[0]
            return dict(sig="net:construction-not-deterministic", corr=True, at=upto,
                        diff=[("cons", run.cons[k], out[k], run.cons_ans[k])]), None
    fresh_learnt = False
    for j in range(nc, npre):
        a = out[j]
        if a.startswith("rc=0") or " dead=1" in a:
            inc("fresh-root-conflict")
            return None, None
        if j >= npre - 1 - nlearnt:     # the recorded clauses and the propagate: F finds something new at root
            for k, ls in hooks_of(a):
                if k in (0, 2, 3):
                    fresh_learnt = True
    nskip = 0
    for i, d in enumerate(dec):
        a = out[npre + i]
        st = net_gen.parse(a)
        rc = st.get("rc")
        if rc == "skip":
            # the decision is already assigned in F (F found a theory lemma N did not find and propagated it earlier)
            v = st["vals"][d >> 1]
            if v == "U" or not fresh_learnt:
                inc("decision-skipped-in-fresh")
                return None, None
            if (v == "T") != bool(d & 1):
                # F refutes by propagation a decision N took without a conflict: compare nothing, but never silently
                inc("decision-refuted-in-fresh")
                return dict(sig="net:decision-refuted-by-fresh-network", at=upto, mode="one-sided", diff=[("lit", "decision %d" % d, "F", "T")],
                            fresh_script=lines, fresh_obs=out[-2], net_obs=run.obs[upto] if upto >= 0 else run.obs0, decisions=dec), None
            nskip += 1          # same value: F simply has no level for it; one-sided comparison without lvl / dec
            continue
        if rc != "1":
            inc("decision-false-in-fresh")
            return None, None
        if int(st["lvl"]) != i + 1 - nskip:
            inc("fresh-backjump")
            return None, None
        for k, ls in hooks_of(a):
            if k in (0, 3):
                inc("fresh-conflict-same-level")
                return None, None
            if k == 2:
                fresh_learnt = True
    return None, dict(of=out[-2], basis=out[-1], out=out, lines=lines, dec=dec, nlearnt=nlearnt, nskip=nskip, fresh_learnt=fresh_learnt, npre=npre)


def compare_point(run, upto, F, stats, C=None):
    """Compares N after hist[upto] with the fresh network.  Returns None (agree / incomparable) or a problem dict."""
    prob, fr = fresh_eval(run, upto, F, stats)
    if fr is None:
        return prob
    on = run.obs[upto] if upto >= 0 else run.obs0
    of, lines, dec = fr["of"], fr["lines"], fr["dec"]
    stats.points += 1
    stats.learnt_at_points += fr["nlearnt"]
    if not dec:
        stats.root_points += 1
    if numeric_part(on) != numeric_part(run.obs0):
        stats.nontrivial += 1
    if fr["nskip"]:
        stats.levels_merged += 1
        on, of = strip_levels(on), strip_levels(of)
    if fr["fresh_learnt"]:
        stats.onesided += 1
        d = onesided_violations(on, of)
        mode = "one-sided"
    else:
        stats.exact += 1
        d = diff_obs(on, of) if on != of else []
        mode = "exact"
    if d:
        return dict(sig="net:history-dependence:" + what_differs(d), at=upto, mode=mode, diff=d, fresh_script=lines, fresh_obs=of, net_obs=on,
                    decisions=dec)
    if on == of:
        stats.agreed += 1
        return None
    # one-sided, nothing N claims is missing in F, but F knows more: accepted ONLY as the known finding, and only when proved
    stats.fresh_knows_more += 1
    why, left = explain_lra_basis(run, upto, F, C or F, fr, on, of, stats)
    if why is None:
        stats.agreed += 1
        return dict(sig=LRA_BASIS_SIG, at=upto, mode="one-sided (fresh network has more literals assigned; explained by valid LRA lemmas)",
                    diff=diff_obs(on, of), fresh_script=lines, fresh_obs=of, net_obs=on, decisions=dec)
    stats.basis["unexplained"] += 1
    return dict(sig="net:history-dependence:" + what_differs(left) + ":fresh-network-knows-more", at=upto,
                mode="one-sided; NOT explained by LRA lemmas of the fresh network: " + why,
                diff=left, fresh_script=lines, fresh_obs=of, net_obs=on, decisions=dec)


def lit_val(vals, l):
    v = vals[l >> 1]
    return "U" if v == "U" else ("T" if (v == "T") == bool(l & 1) else "F")


def valid_on_pristine(run, F, clauses):
    """clause -> True when a pristine network (construction only) refutes its negation"""
    res = {}
    todo = [ls for ls in clauses if tuple(ls) not in res]
    if not todo:
        return res
    lines, nc = [], len(run.cons)
    for ls in todo:
        lines += list(run.cons) + ["k " + " ".join(str(l ^ 1) for l in ls if l > 1)]
    out = F.batch(lines)
    for j, ls in enumerate(todo):
        res[tuple(ls)] = out[(nc + 1) * j + nc].startswith("rc=0") and 0 not in ls
    return res


def explain_lra_basis(run, upto, F, C, fr, on, of, stats, max_rounds=4):
    """Is `F knows more than N` exactly the known finding?  Returns (None, None) when it is, else (reason, differences left).

    roots     = literals Undefined in N, assigned in F, owned by an LRA atom, for which F recorded (kind 2) a lemma made of LRA
                relation literals only that contains the literal and whose other literals are all false in F, the lemma being
                valid (a pristine network refutes its negation);
    completion: a copy of N (the very lines N was fed, in a new process: same network) in which the roots are then assumed must
                show exactly F's observable state (literal values, LRA bounds, IDL / RDL matrices, OV domains; not the levels).
                If the copy derives LRA lemmas of its own (valid, LRA only) F gets them as clauses; if F still knows more, further
                roots are looked for; at most max_rounds rounds."""
    kinds = run.kinds
    nc = len(run.cons)
    base = script_lines(run.cons, run.hist[:upto + 1])
    roots, more = [], []
    b = stats.basis

    def is_lra(ls):
        return all(l > 1 and (l >> 1) < len(kinds) and kinds[l >> 1] == "l" for l in ls)

    def find_roots(on_c, of_c, out_f):
        va, vb = obs_fields(on_c)["vals"], obs_fields(of_c)["vals"]
        lemmas = [ls for a in out_f[nc:] for k, ls in hooks_of(a) if k == 2 and is_lra(ls)]
        cand = []
        for i in range(min(len(va), len(vb))):
            if va[i] == "U" and vb[i] != "U" and i < len(kinds) and kinds[i] == "l":
                t = 2 * i + (1 if vb[i] == "T" else 0)
                for ls in lemmas:
                    if t in ls and all(lit_val(vb, l) == "F" for l in ls if l != t):
                        cand.append((t, ls))
                        break
        ok = valid_on_pristine(run, F, [ls for _, ls in cand])
        return [(t, ls) for t, ls in cand if ok.get(tuple(ls))]

    cur_of, cur_out, cur_basis = of, fr["out"], fr["basis"]
    new = find_roots(on, of, cur_out)
    if not new:
        return "no literal the fresh network has in addition is justified by a valid lemma over LRA atoms", diff_obs(on, of)
    roots += new
    left = diff_obs(on, of)
    for rnd in range(1, max_rounds + 1):
        C.start()
        outc = C.batch(base + ["obs", "basis"] + ["a %d" % t for t, _ in roots] + ["obs"])
        nb = len(base)
        if outc[nb] != (run.obs[upto] if upto >= 0 else run.obs0):
            return "the network is not reproduced by the lines it was fed (not deterministic)", diff_obs(outc[nb], run.obs[upto] if upto >= 0 else run.obs0)
        n_basis = outc[nb + 1]
        own = []
        for j, (t, _) in enumerate(roots):
            a = outc[nb + 2 + j]
            st = net_gen.parse(a)
            if st.get("rc") == "skip":
                if lit_val(st.get("vals", ""), t) != "T":
                    return "a justified literal of the fresh network is false in the network with the undone decisions", left
                continue
            if st.get("rc") != "1" or any(k in (0, 3) for k, _ in hooks_of(a)):
                return "assuming the justified literals in the network with the undone decisions runs into a conflict", left
            own += [ls for k, ls in hooks_of(a) if k == 2]
        on_c, of_c = strip_levels(outc[-1]), strip_levels(cur_of)
        if on_c == of_c:
            b["explained"] += 1
            b["bases_differ" if n_basis != cur_basis else "bases_equal"] += 1
            stats.inc(b["rounds"], rnd)
            b["roots"] += len(roots)
            first = diff_obs(on, of)
            b["downstream_literals"] += sum(1 for x in first if x[0] == "lit") - len(roots)
            b["downstream_numeric"] += sum(1 for x in first if x[0] not in ("lit", "lev"))
            return None, None
        left = diff_obs(on_c, of_c)
        progress = False
        if onesided_violations(on_c, of_c):
            # the copy knows things F does not: only acceptable through valid LRA lemmas the copy derived itself
            own = [ls for ls in own if is_lra(ls)]
            ok = valid_on_pristine(run, F, own)
            own = [ls for ls in own if ok.get(tuple(ls)) and list(ls) not in more]
            if not own:
                return "after assuming the justified literals the network with the undone decisions claims what the fresh one does not", left
            more += [list(ls) for ls in own]
            prob, fr2 = fresh_eval(run, upto, F, stats, more=more, count=False)
            if fr2 is None:
                return "the fresh network given the lemmas of the completed network is not comparable", left
            cur_of, cur_out, cur_basis = fr2["of"], fr2["out"], fr2["basis"]
            of_c = strip_levels(cur_of)
            progress = True
        new = [r for r in find_roots(on_c, of_c, cur_out) if r[0] not in [t for t, _ in roots]]
        if new:
            roots += new
            progress = True
        if not progress:
            return "differences are left after assuming every justified LRA literal", left
    return "not settled within %d rounds" % max_rounds, left


def direct_checks(run, stats, count=True):
    """Direct forms on N alone.  Returns a list of problem dicts."""
    probs = []
    stack = []   # per standing level: [obs before the assume, clean]
    prev_obs = run.obs0
    prev = net_gen.parse(run.cons_ans[-1])
    for i, (cmd, a) in enumerate(zip(run.hist, run.ans)):
        st = net_gen.parse(a)
        op = cmd.split(" ")[0]
        hk = hooks_of(a)
        if st.get("rc") == "skip" or "lvl" not in st:
            if run.obs[i] != prev_obs:
                probs.append(dict(sig="net:skip-changed-state", at=i, diff=diff_obs(run.obs[i], prev_obs), corr=True))
            continue
        l0, l1 = int(prev["lvl"]), int(st["lvl"])
        if hk:
            for e in stack:
                e[1] = False
        if op == "a":
            if l1 == l0 + 1:
                del stack[l0:]
                stack.append([prev_obs, not hk and st.get("rc") == "1" and prev.get("q") == "0"])
            else:
                del stack[l1:]
        elif op == "o":
            del stack[l0:]
            if stack:
                saved, clean = stack.pop()
                if clean:
                    if count:
                        stats.direct_pop += 1
                    if run.obs[i] != saved:
                        d = diff_obs(run.obs[i], saved)
                        probs.append(dict(sig="net:pop-does-not-restore:" + what_differs(d), at=i, diff=d, net_obs=run.obs[i], expected_obs=saved))
            del stack[l1:]
        elif op in ("k", "p"):
            if not hk and prev.get("q") == "0":
                if count:
                    stats.direct_nohook += 1
                if run.obs[i] != prev_obs:
                    d = diff_obs(run.obs[i], prev_obs)
                    probs.append(dict(sig="net:%s-without-hook-changes-state:%s" % ("check" if op == "k" else "propagate", what_differs(d)), at=i, diff=d,
                                      net_obs=run.obs[i], expected_obs=prev_obs))
            del stack[l1:]
        else:
            del stack[l1:]
        prev, prev_obs = st, run.obs[i]
    return probs


def lemma_checks(run, F, stats, only_last=False, count=True):
    """Every theory lemma (hook kind 2) and theory conflict (kind 3) N records must be entailed by the network as it was
    constructed: a PRISTINE network (construction script only: it never took any decision) must answer false to
    check(<the negated literals>).  The theories decide conjunctions of their own atoms completely (simplex; negative
    cycle), so a lemma the pristine network does not refute is an explanation that cites the wrong literals - what a
    predecessor / reason / enforcing constraint left behind by a pop produces."""
    seen, todo = set(), []
    allans = list(enumerate(run.cons_ans, -len(run.cons_ans))) + list(enumerate(run.ans))
    if only_last:
        allans = allans[-1:]
    for at, a in allans:
        for k, ls in hooks_of(a):
            if k in (2, 3) and (k, tuple(sorted(ls))) not in seen:
                seen.add((k, tuple(sorted(ls))))
                if 0 in ls:
                    continue                      # contains TRUE_lit
                neg = [l ^ 1 for l in ls if l > 1]
                todo.append((at, k, ls, neg))
    if not todo:
        return []
    lines = []
    for at, k, ls, neg in todo:
        lines += list(run.cons) + ["k " + " ".join(map(str, neg))]
    out = F.batch(lines)
    nc = len(run.cons)
    probs = []
    for j, (at, k, ls, neg) in enumerate(todo):
        a = out[(nc + 1) * j + nc]
        if count:
            stats.lemmas_checked += 1
        if a.startswith("rc=0"):
            continue
        if a.startswith("rc=skip"):
            if count:
                stats.lemmas_pristine_dead += 1
            continue
        probs.append(dict(sig="net:theory-%s-not-entailed" % ("lemma" if k == 2 else "conflict"), at=max(at, -1), mode="pristine network check",
                          diff=[("lemma", "kind %d" % k, "check(%s) = false in a pristine network" % neg, "recorded clause %s" % ls)],
                          fresh_script=list(run.cons) + ["k " + " ".join(map(str, neg))], fresh_obs=a, net_obs=None))
    return probs


def eligible(run, i):
    a = run.ans[i]
    st = net_gen.parse(a)
    return "lvl" in st and st.get("q") == "0" and st.get("dead") == "0"


def mu_fields(line):
    d = obs_fields(line)
    out = dict(n=int(d.get("n", 0)), chk=d.get("chk", "1") == "1")
    for th in ("lra", "idl", "rdl", "ov"):
        out[th] = [tuple(int(x) for x in lv.split("/")) for lv in d.get(th, "").split(",") if lv]
    return out


def undone_levels(run):
    """For every history command: the decision levels it undid and how: [(i, level, 'pop' | 'next' | 'backjump', mu before)]"""
    out = []
    prev = mu_fields("mu n=0 chk=1")
    for i, (cmd, a) in enumerate(zip(run.hist, run.ans)):
        st = net_gen.parse(a)
        mu = mu_fields(run.mus[i]) if i < len(run.mus) else prev
        if st.get("rc") != "skip" and "lvl" in st:
            op, l0, l1 = cmd.split(" ")[0], prev["n"], int(st["lvl"])
            if op == "o":
                out += [(i, k, "pop", prev) for k in range(l1 + 1, l0 + 1)]
            elif op == "n":
                if l0 > 0:
                    out.append((i, l0, "next", prev))
                    out += [(i, k, "backjump", prev) for k in range(l1 + 1, l0)]
            else:
                out += [(i, k, "backjump", prev) for k in range(l1 + 1, l0 + 1)]
        prev = mu
    return out


def mu_checks(run):
    """chk=0: the cells saved in the undo layers of the difference logics are not the values the cells had at the beginning of
    the level (the replay of the level's constraint literals on the reconstructed matrix does not give the next matrix)."""
    probs = []
    for i, m in enumerate(run.mus):
        if " chk=0" in m:
            probs.append(dict(sig="net:undo-layers-do-not-replay", at=i, mode="replay of the level's constraints on the matrix rebuilt from the undo layers",
                              diff=[("mu", "chk", "1", "0")], net_obs=run.obs[i], corr=False))
            break
    # the object-variable theory as the instance of coq/smt/SatCoreOv.v (C08_pop_after_assume_restores_sat_ov): its layers follow the
    # decision level, nothing is ever stored in a layer, no conflict is pending, and it never reports a lemma / a conflict (a clause
    # recorded by LRA / IDL / RDL contains a relation literal of that theory)
    for i, m in enumerate(run.mus):
        f = obs_fields(m)
        if "ovl" in f and (f["ovl"] != f.get("n") or f.get("ovv") != "0" or f.get("ovc") != "0"):
            probs.append(dict(sig="net:ov-theory-state-is-not-the-number-of-levels", at=i, mode="ov_theory::layers / cnfl after the command",
                              diff=[("mu", "ovl/ovv/ovc", "%s/0/0" % f.get("n"), "%s/%s/%s" % (f.get("ovl"), f.get("ovv"), f.get("ovc")))], net_obs=run.obs[i]))
            break
    kinds = run.kinds
    for i, a in enumerate(run.ans):
        bad = [ls for k, ls in hooks_of(a) if k in (2, 3) and ls and all((l >> 1) < len(kinds) and kinds[l >> 1] in "ob" for l in ls if l > 1)]
        if bad:
            probs.append(dict(sig="net:theory-clause-without-a-numeric-atom", at=i, mode="hook kind 2 / 3 over object-variable and plain literals only",
                              diff=[("hook", "clause", "a relation literal of lra / idl / rdl", str(bad[0]))], net_obs=run.obs[i]))
            break
    return probs


def analyse(run, F, stats, rng=None, sample=1.0, only_last=False, count=True, C=None):
    """All the problems of one run (list of dicts, first occurrence of each signature)."""
    probs = direct_checks(run, stats, count)
    probs += mu_checks(run)
    probs += lemma_checks(run, F, stats, only_last, count)
    if only_last:
        idx = [len(run.hist) - 1] if run.hist else [-1]
    else:
        idx = list(range(len(run.hist)))
    seen, uniq = set(), []
    for p in probs:
        if p["sig"] not in seen:
            seen.add(p["sig"])
            uniq.append(p)
    probs = uniq
    for i in idx:
        if i >= 0 and not eligible(run, i):
            continue
        if i >= 0 and not only_last and sample < 1.0:
            st = net_gen.parse(run.ans[i])
            if st["lvl"] != "0" and rng.random() >= sample:     # root points are always compared
                stats.skipped_sampling += 1
                continue
        p = compare_point(run, i, F, stats, C)
        if p and p["sig"] not in seen:
            seen.add(p["sig"])
            probs.append(p)
    return probs


def account(run, stats):
    """Input distribution of one run."""
    stats.cases += 1
    depth = 0
    for cmd, a in zip(run.hist, run.ans):
        st = net_gen.parse(a)
        op = cmd.split(" ")[0]
        if st.get("rc") == "skip":
            stats.skips += 1
            continue
        stats.inc(stats.ops, op)
        if "lvl" in st:
            depth = max(depth, int(st["lvl"]))
        for k, ls in hooks_of(a):
            stats.hooks[k] = stats.hooks.get(k, 0) + 1
        if op in ("o", "n"):
            stats.pops += 1
    stats.ov_tie += sum(1 for m in run.mus if " ovl=" in m)
    for i, k, how, mu in undone_levels(run):
        if not mu["chk"]:
            stats.mu_void += 1
            continue
        for th in ("lra", "idl", "rdl", "ov"):
            if k - 1 < len(mu[th]):
                m, o, pth = mu[th][k - 1]
                d = stats.multi.setdefault(th, {})
                if m:
                    stats.inc(d, how)
                if o:
                    stats.inc(d, "over_an_older_finite_value:" + how)
                if pth:
                    stats.inc(d, "with_an_update_through_a_path:" + how)
    stats.inc(stats.depth, depth)
    stats.max_depth = max(stats.max_depth, depth)
    if run.ans and " dead=1" in run.ans[-1]:
        stats.dead_cases += 1


def rup_stream(run):
    lines, meta = ["reset", "F 0"], []
    for i, a in enumerate(run.cons_ans + run.ans):
        for k, ls in hooks_of(a):
            s = " ".join(map(str, ls))
            if k in (4, 5):
                lines.append("F " + s)
            elif k == 0:
                meta.append((len(lines), i - len(run.cons_ans), ls))
                lines.append("L " + s)
            else:
                lines.append("N " + s)
    return lines, meta


# ------------------------------------------------------------------------------------------------
# minimisation
# ------------------------------------------------------------------------------------------------
def minimise(cons, hist, sig, Nh, Fh, budget=400):
    """ddmin over the history (the failure must show at the LAST command), then greedy removal of construction
    clauses.  Returns (cons, hist, problem)."""
    st = Stats()
    calls = [0]

    def test(c, h):
        calls[0] += 1
        try:
            r = run_case(Nh, c, h)
        except Crash:
            return None
        for p in analyse(r, Fh, st, only_last=True, count=False):
            if p["sig"] == sig:
                p["run"] = r
                return p
        return None

    best = test(cons, hist)
    if best is None:
        return cons, hist, None
    n = 2
    while len(hist) >= 2 and calls[0] < budget:
        chunk = max(1, len(hist) // n)
        reduced = False
        for s in range(0, len(hist), chunk):
            cand = hist[:s] + hist[s + chunk:]
            if not cand:
                continue
            p = test(cons, cand)
            if p is not None:
                hist, best, reduced = cand, p, True
                n = max(n - 1, 2)
                break
        if not reduced:
            if chunk == 1:
                break
            n = min(len(hist), n * 2)
    i = len(cons) - 1
    while i >= 0 and calls[0] < budget * 2:
        if cons[i].startswith("c "):
            cand = cons[:i] + cons[i + 1:]
            p = test(cand, hist)
            if p is not None:
                cons, best = cand, p
        i -= 1
    return cons, hist, best


# ------------------------------------------------------------------------------------------------
# reporting
# ------------------------------------------------------------------------------------------------
def report(ctx, sig, payload, no_input=False, reported=None):
    """Every problem goes to ctx.violation under its own signature (ctx.violation consults known_findings.json)."""
    if reported is not None:
        if sig in reported:
            return
        reported.add(sig)
    ctx.violation(sig, payload, no_input=no_input)


def save_script(cons, hist, name):
    d = os.path.join(vlib.VERIF, "replays")
    os.makedirs(d, exist_ok=True)
    path = os.path.join(d, name)
    with open(path, "w") as f:
        f.write("\n".join(cons + [SEP] + hist) + "\n")
    return path


def load_script(path):
    cons, hist, cur = [], [], None
    for ln in open(path).read().split("\n"):
        ln = ln.strip()
        if not ln or ln.startswith("#"):
            continue
        if ln == SEP:
            cur = hist
            continue
        (cons if cur is None else cur).append(ln)
    return cons, hist


def report_problem(ctx, p, run, Nh, Fh, reported, minimise_it=True):
    sig = p["sig"]
    if sig in reported:
        return
    cons, hist = run.cons, run.hist[:p["at"] + 1]
    mp = None
    if minimise_it and not p.get("corr") and not ctx.known(sig):
        try:
            cons, hist, mp = minimise(cons, hist, sig, Nh, Fh)
        except Exception as e:   # minimisation is best effort
            ctx.log("minimisation failed:", repr(e))
    q = mp or p
    name = "C08-%s.txt" % vlib.sha("\n".join(cons + hist))
    path = save_script(cons, hist, name)
    payload = {
        "kind": "history-dependence" if "history-dependence" in sig else "undo-does-not-restore",
        "what": q.get("mode", "direct"),
        "origin": run.origin, "signature_detail": sig, "comparison": q.get("mode", "direct"),
        "construction": cons, "history": hist, "minimised": mp is not None, "original_history_length": p["at"] + 1,
        "differences (item, expected = fresh network / state before the assume, got = network after the history)":
            [dict(section=s, item=n, expected=f, got=g) for s, n, f, g in q.get("diff", [])[:40]],
        "standing_decisions": q.get("decisions"),
        "expected_obs": q.get("fresh_obs") or q.get("expected_obs"), "got_obs": q.get("net_obs"),
        "fresh_network_script": q.get("fresh_script"),
        "script_file": path,
        "replay_cmd": "python3 tools/verif.py C08 replay %s" % path,
    }
    report(ctx, sig, payload, no_input=bool(p.get("corr")), reported=reported)


# ------------------------------------------------------------------------------------------------
# the check
# ------------------------------------------------------------------------------------------------
def build():
    hexe, hlog = sat_lib.build_h_net()
    oexe, olog = sat_lib.build_oracle()
    return hexe, hlog, oexe, olog


def prebuild():
    build()


def check_rup(ctx, oexe, pend_runs, reported, stats_rup):
    if not pend_runs:
        return
    lines, metas = [], []
    for run in pend_runs:
        ls, meta = rup_stream(run)
        for idx, at, clause in meta:
            metas.append((len(lines) + idx, at, clause, run))
        lines += ls
    if not metas:
        return
    r, out = sat_lib.run_lines(oexe, lines, args=["rup"])
    for idx, at, clause, run in metas:
        stats_rup["checked"] += 1
        if idx >= len(out) or out[idx] != "ok":
            stats_rup["failed"] += 1
            cons, hist = run.cons, run.hist[:max(at, -1) + 1]
            path = save_script(cons, hist, "C08-rup-%s.txt" % vlib.sha("\n".join(cons + hist)))
            report(ctx, "net:learnt-not-rup", {
                "kind": "learnt-clause-not-entailed", "origin": run.origin, "clause": clause, "after_history_command": at,
                "construction": cons, "history": hist, "checker_answer": out[idx] if idx < len(out) else "(no answer)",
                "script_file": path, "replay_cmd": "python3 tools/verif.py C08 replay %s" % path}, reported=reported)


def run(ctx):
    cov = ctx.cov
    rng = ctx.rng
    # 1. proofs --------------------------------------------------------------------------------------------
    if os.path.exists(os.path.join(vlib.COQ, "props", "Properties_C08.v")):
        res = vlib.proof_stage(ctx)
        if ctx.thorough and res["ok"]:
            vlib.coqchk_stage(ctx)
    else:
        ctx.log("coq/props/Properties_C08.v is missing: proof stage skipped (implementation-level check only)")
        cov["proof_stage"] = "skipped: coq/props/Properties_C08.v missing"
    t_impl = time.time()
    # 2. builds --------------------------------------------------------------------------------------------
    hexe, hlog, oexe, olog = build()
    if not hexe:
        ctx.violation("build:h_net", {"kind": "harness-build-failed", "log": hlog[-3000:]}, no_input=True)
        return
    if not oexe:
        ctx.violation("build:oracle_sat", {"kind": "oracle-build-failed", "log": olog[-3000:]}, no_input=True)
    Nh, Fh, Ch = Harness(hexe), Harness(hexe), Harness(hexe)
    stats = Stats()
    reported = set()
    rup_stats = dict(checked=0, failed=0)
    pend_runs = []

    def crash(cons, hist, e, origin):
        script = script_lines(cons, hist)[:e.done + 1]
        path = save_script(cons, hist, "C08-crash-%s.txt" % vlib.sha("\n".join(cons + hist)))
        report(ctx, "net:hang" if e.hung else "net:crash", {
            "kind": "harness-hung" if e.hung else "harness-aborted", "origin": origin, "exit_code": e.rc,
            "last_command": script[-1] if script else None, "construction": cons, "history": hist,
            "script_file": path, "replay_cmd": "python3 tools/verif.py C08 replay %s" % path}, reported=reported)

    def process(run, sample):
        account(run, stats)
        probs = analyse(run, Fh, stats, rng=rng, sample=sample, C=Ch)
        for p in probs:
            report_problem(ctx, p, run, Nh, Fh, reported)
        pend_runs.append(run)
        if len(pend_runs) >= 40 and oexe:
            check_rup(ctx, oexe, pend_runs, reported, rup_stats)
            del pend_runs[:]

    # 3. corpus first --------------------------------------------------------------------------------------
    ncorpus = 0
    for path in sorted(glob.glob(os.path.join(CORPUS, "*.txt"))):
        cons, hist = load_script(path)
        ncorpus += 1
        try:
            r = run_case(Nh, cons, hist, origin="corpus:" + os.path.basename(path))
        except Crash as e:
            crash(cons, hist, e, "corpus:" + os.path.basename(path))
            continue
        process(r, 1.0)
    cov["corpus_cases"] = ncorpus
    # 4. generated -----------------------------------------------------------------------------------------
    # fixed number of cases (a run is then a function of the seed); the wall budget only guards a loaded machine
    budget = 600.0 if ctx.thorough else 80.0
    max_cases = int(os.environ.get("C08_CASES", "2000" if ctx.thorough else "330"))
    sample = 1.0
    profiles = {}
    t0 = time.time()
    ncase = 0
    # the first cases of every run are SCENARIO cases: a small network with a gadget of one theory, the history starts with the
    # scenario [d0] d [x] + one way of undoing d's level (see net_gen): 4 theories x 4 endings x n_scen
    n_scen = int(os.environ.get("C08_SCENARIOS", "6" if ctx.thorough else "3"))
    scen = [(th, e) for _ in range(n_scen) for th in ("lra", "idl", "rdl", "ov") for e in ("pop", "next", "conflict", "tconflict")]
    while time.time() - t0 < budget and ncase < max_cases:
        ncase += 1
        Nh.start()      # one process per case (and a new one for the fresh networks): a case is a function of its script
        Fh.start()
        small = rng.random() < 0.25
        unsteered = 0.0 if rng.random() < 0.5 else rng.choice([0.03, 0.06, 0.12])
        forced = scen[ncase - 1] if ncase <= len(scen) else None
        try:
            if forced:
                net = net_gen.build(rng, Nh, small=True, gadget_ths=[forced[0]])
            else:
                net = net_gen.build(rng, Nh, small=small)
            obs0 = Nh.send("obs")
            kinds = Nh.send("kinds")
            mus = []
            if net.dead:
                prof, hist, ans, obs = "dead-at-construction", [], [], []
            elif forced:
                prof, hist, ans, obs, mus = net_gen.history(rng, Nh, net, unsteered=0.0, target_ops=rng.randint(12, 40),
                                                            first=[(0, forced[1]), (0, rng.choice(net_gen.ENDINGS))])
                prof = "scenario:%s:%s" % forced
            else:
                prof, hist, ans, obs, mus = net_gen.history(rng, Nh, net, unsteered=unsteered)
        except EOFError:
            sent = [c for c in Nh.last_sent if c != "obs"]
            ctx.log("harness died during generation (case %d) on: %s" % (ncase, sent[-1] if sent else "?"))
            crash(sent, [], Crash(len(sent) - 1, Nh.last_rc, Nh.last_hung), "generated:%d" % ncase)
            continue
        profiles[prof] = profiles.get(prof, 0) + 1
        r = Run(net.cons, hist, net.answers, obs0, kinds, ans, obs, mus, origin="generated:%d:%s" % (ncase, prof))
        try:
            process(r, sample)
        except EOFError:
            sent = [c for c in Fh.last_sent if c != "obs"]
            crash(sent, [], Crash(len(sent) - 1, Fh.last_rc, Fh.last_hung), r.origin + " (fresh network replay)")
        if ncase <= 6:
            ctx.sample({"origin": r.origin, "construction_cmds": len(r.cons), "history": " ; ".join(r.hist[:40]),
                        "last_obs": (r.obs[-1] if r.obs else r.obs0)[:600]})
    if oexe:
        check_rup(ctx, oexe, pend_runs, reported, rup_stats)
    Nh.close()
    Fh.close()
    Ch.close()
    # the scenarios must have been exercised: for every theory, a level in which one bound / cell / domain was updated at least
    # twice has been undone by pop, by next() and by a backjump, and at least once the first update was on top of an older finite value
    for th in ("lra", "idl", "rdl", "ov"):
        d = stats.multi.get(th, {})
        missing = [k for k in ("pop", "next", "backjump") if not d.get(k)]
        if not any(d.get("over_an_older_finite_value:" + k) for k in ("pop", "next", "backjump")):
            missing.append("over_an_older_finite_value")
        if missing:
            ctx.violation("c08:coverage-hole:%s:%s" % (th, ",".join(missing)),
                          {"kind": "generator-did-not-exercise", "theory": th, "missing": missing, "counts": d}, no_input=True)
    if stats.mu_void:
        ctx.log("mu statistic void (chk=0) at %d undone levels" % stats.mu_void)
    # 5. evidence ------------------------------------------------------------------------------------------
    cov["evaluations"] = stats.points + stats.direct_pop + stats.direct_nohook + rup_stats["checked"] + stats.lemmas_checked
    cov["comparison_points"] = dict(evaluated=stats.points, exact=stats.exact, one_sided=stats.onesided, agreed=stats.agreed,
                                    at_root=stats.root_points, incomparable=stats.incomparable,
                                    incomparable_total=sum(stats.incomparable.values()), skipped_by_sampling=stats.skipped_sampling,
                                    mean_recorded_clauses_replayed=round(stats.learnt_at_points / max(1, stats.points), 2))
    cov["direct_forms"] = dict(assume_pop_restores=stats.direct_pop, check_or_propagate_without_hook_unchanged=stats.direct_nohook)
    cov["rup"] = rup_stats
    cov["theory_clauses_validated_on_pristine_network"] = dict(checked=stats.lemmas_checked, pristine_network_dead=stats.lemmas_pristine_dead)
    cov["comparison_points"]["one_sided_with_a_decision_already_propagated_in_fresh"] = stats.levels_merged
    cov["known_finding_lra_basis"] = dict(stats.basis, rule=(
        "points where the fresh network has literals the network leaves Undefined: accepted as the known finding only when every such "
        "difference is reproduced by assuming, in a copy of the network, the extra LRA relation literals that the fresh network derived "
        "by valid LRA-only lemmas (explained); everything else is a violation (unexplained)"))
    cov["levels_undone_after_2plus_updates_of_one_bound_cell_or_domain"] = dict(
        stats.multi, statistic_void=stats.mu_void,
        rule="per theory: standing levels in which ONE LRA bound / IDL cell / RDL cell / OV domain was tightened >= 2 times (harness command mu: "
             "exact replay of the level's theory literals), by how the level was then undone (explicit pop, next(), backjump after a "
             "conflict); over_an_older_finite_value = the first of these updates overwrote a finite value written at a lower level")
    cov["comparison_points"]["one_sided_where_fresh_has_more_literals_assigned"] = stats.fresh_knows_more
    cov["ov_instance_tie"] = dict(commands_checked=stats.ov_tie, rule="after every history command ov_theory::layers.size() == decision level, no variable "
                                  "stored in a layer, no pending conflict, and no hook kind 2 / 3 clause made of object-variable / plain literals only "
                                  "(the instance ov_thp / ov_thc / ov_thpush / ov_thpop of coq/smt/SatCoreOv.v); domains before / after pop and against the "
                                  "fresh network are part of obs")
    cov["distinct_nontrivial"] = stats.nontrivial
    cov["traces_validated_against_impl"] = stats.agreed
    cov["scenario_cases"] = dict(cases=min(len(scen), ncase), rule="small network + one gadget of the named theory; the history starts with [d0] d [x] "
                                 "and pop / next() / a propositional conflict / a theory conflict backjumping below d's level, then a probe "
                                 "that makes the theory explain through the restored bound / cell (tools/net_gen.py)")
    cov["rule"] = ("comparison point = history command after which the queue is empty and the network is not dead; evaluated = the fresh "
                   "network replayed construction + recorded clauses + standing decisions without conflict; non-trivial = at least one LRA "
                   "bound or IDL/RDL distance differs from its value after the construction; networks: 3-8 booleans, 2-5 LRA variables / "
                   "4-12 atoms on 2-4 shared expressions, 3-7 IDL and RDL time points / 5-15 distance constraints on 2-10 ordered pairs, "
                   "1-3 OV variables, 5-20 linking clauses + ladder chains, 1-2 multi-update gadgets (trigger d -> 2-3 literals tightening one "
                   "bound / cell / domain, older looser literal under d0, conflict makers, probe); histories of 25-110 commands, depth <= 12")
    cov["input_distribution"] = dict(cases=stats.cases, profiles=profiles, ops=stats.ops, skipped_ops=stats.skips,
                                     max_depth_per_case=dict(sorted(stats.depth.items())), deepest=stats.max_depth,
                                     conflicts_learnt_kind0=stats.hooks.get(0, 0), next_nogoods_kind1=stats.hooks.get(1, 0),
                                     theory_lemmas_kind2=stats.hooks.get(2, 0), theory_conflicts_kind3=stats.hooks.get(3, 0),
                                     clauses_kind4=stats.hooks.get(4, 0), explicit_pops_and_nexts=stats.pops,
                                     cases_ending_dead=stats.dead_cases)
    cov["impl_wall_s"] = round(time.time() - t_impl, 1)
    cov["trusted_base"] += [
        "harness/h_net.cpp (drives the real sat_core + 4 theories; prints obs through the public observers; the mu statistic replays the "
        "level's theory literals on the matrix rebuilt from the undo layers), tools/net_gen.py, "
        "tools/checks/c08.py (fresh-network replay, comparison, classification of the known finding by completion, minimisation)",
        "theory lemmas / theory conflicts / next() no-goods (hook kinds 2, 3, 1) enter the RUP stream as axioms: their validity is the "
        "business of C07 / C09 / C10",
        "the h_net harness is compiled without -DNDEBUG (the asserts of /repo are alive; an assert failure on a legal history is "
        "reported as net:crash)",
    ]
    ctx.assumptions += ["preconditions of the sat_core interface are respected by the histories (assume on an Undefined literal with an "
                        "empty queue, pop above root, new_clause / simplify_db at root); operations violating them are answered 'skip'",
                        "comparison with the fresh network is only made where the fresh network replays the recorded clauses and the "
                        "standing decisions without a conflict of its own (incomparable points are counted in the evidence)"]
    ctx.log("cases=%d points=%d (exact %d, one-sided %d, agreed %d, incomparable %d) direct=%d+%d rup=%d lemmas=%d nontrivial=%d" % (
        stats.cases, stats.points, stats.exact, stats.onesided, stats.agreed, sum(stats.incomparable.values()),
        stats.direct_pop, stats.direct_nohook, rup_stats["checked"], stats.lemmas_checked, stats.nontrivial))


def replay(path):
    """Re-runs one stored script (corpus format) or the script named by a replay JSON; prints both obs at the end."""
    if path.endswith(".json"):
        d = json.load(open(path))
        cons, hist = d.get("construction", []), d.get("history", [])
    else:
        cons, hist = load_script(path)
    hexe, hlog, oexe, olog = build()
    Nh, Fh, Ch = Harness(hexe), Harness(hexe), Harness(hexe)
    st = Stats()
    try:
        r = run_case(Nh, cons, hist, origin="replay")
    except Crash as e:
        print("VIOLATION property=C08 replay=%s harness %s (rc=%s) after %d lines" % (path, "hung" if e.hung else "died", e.rc, e.done))
        return 1
    probs = analyse(r, Fh, st, C=Ch)
    account(r, st)
    for c, a in zip(r.hist, r.ans):
        print("%-24s %s" % (c, a))
    bad = 0
    for p in probs:
        bad += 1
        print("PROBLEM %s at history command %d (%s)" % (p["sig"], p["at"], p.get("mode", "direct")))
        for s, n, f, g in p.get("diff", [])[:30]:
            print("   %-4s %-14s expected %s   got %s" % (s, n, f, g))
    lines, meta = rup_stream(r)
    if meta and oexe:
        _, out = sat_lib.run_lines(oexe, lines, args=["rup"])
        for idx, at, clause in meta:
            if idx >= len(out) or out[idx] != "ok":
                bad += 1
                print("PROBLEM net:learnt-not-rup clause %s after history command %d" % (clause, at))
    print("points=%d agreed=%d incomparable=%s direct=%d multi-updates undone=%s lra-basis=%s" % (
        st.points, st.agreed, st.incomparable, st.direct_pop + st.direct_nohook, st.multi, {k: v for k, v in st.basis.items() if v}))
    known = [p for p in probs if p["sig"] == LRA_BASIS_SIG]
    bad -= len(known)
    if known:
        print("(the %s problem is the known finding)" % LRA_BASIS_SIG)
    if bad:
        print("VIOLATION property=C08 replay=%s" % path)
    Nh.close()
    Fh.close()
    Ch.close()
    return 1 if bad else 0
