"""C08 -- undoing decisions restores the network exactly.

Pipeline (DESIGN.md 7-C08, notes/CONVENTIONS.md):
  1. proof stage: props/Properties_C08.v (theorems over the model stack; written by the owner of C07/C08);
  2. build harness/h_net.cpp (ONE real sat_core + lra_theory + idl_theory + rdl_theory + ov_theory of /repo's current
     sources) and the extracted RUP checker (oracle "sat", mode rup);
  3. IMPLEMENTATION-LEVEL history independence.  For corpus scripts and for seeded random (network, history) pairs
     (tools/net_gen.py, steered by the harness's own answers) the history is run on the network N and after every
     history command at which the propagation queue is empty ("comparison point") the complete observable state
     `obs` of N (all literal values, all LRA lb/ub and bounds of every atom's expression, the complete IDL and RDL
     distance matrices and bounds, all OV domains) is compared with `obs` of a FRESH network F obtained by
        (a) replaying the construction script (+ the clauses added at root later in the history),
        (b) adding as clauses every clause N recorded so far (hook kinds 0 learnt, 1 next() no-good, 2 theory lemma)
            and propagating,
        (c) assuming the standing decisions of N, in order.
     The two must be IDENTICAL.  F is "a network that never took the undone decisions"; (b) is the property's
     "modulo learnt clauses".
     Comparable / incomparable.  While F replays (b)+(c) it may itself run into a conflict (answer false, backjump:
     decision level != number of decisions, a kind 0/3 hook): the two are then not in the same situation, the point is
     counted as INCOMPARABLE (by reason) and skipped.  When F records new THEORY LEMMAS during the replay (hook kind 2:
     the row-bound propagation of the simplex only looks at the rows in which the variable is NON BASIC, and the basis
     legitimately depends on the pivots of the past: corpus/C08/hand_lra_row_propagation_depends_on_basis.txt) F knows
     more clauses than N: the point is compared ONE-SIDED (everything N has assigned / bounded must be there in F: N's
     literals have the same value in F, N's intervals contain F's, N's OV domains contain F's) -- anything a popped
     decision left behind in N still shows up.  If such a lemma already propagated in F a literal that N decided later,
     F has one level less: lvl / dec are then left out of the (one-sided) comparison; a decision of N that F REFUTES by
     propagation is reported (net:decision-refuted-by-fresh-network).
     All infinite RDL values are identified for this comparison (norm_inf: defect reported by C10, its raw effect is
     reported under its own signature, listed in notes/fixes/C08-pending.json).
  4. direct forms, evaluated on N alone at every command:
        (i)  assume p ; ... ; pop   with no hook call in between  => obs after the pop == obs before the assume
             (nested: every level has its own saved obs), check(lits) / propagate with no hook call => obs unchanged;
        (ii) back at root obs(N) == obs(fresh(construction + recorded clauses))   (the comparison of 3 with no decision:
             always evaluated, never sampled).
  5. side condition "learnt clauses are entailed": every kind-0 clause must be RUP (extracted checker, proved sound
     in coq/smt/Rup.v) w.r.t. the clauses given to new_clause (kind 4, "F") and the no-goods / theory lemmas / theory
     conflicts recorded before it (kinds 1, 2, 3, "N": taken on trust here, validated by C07 / C09 / C10).
  6. explanations after pops: every theory lemma / theory conflict N records (kinds 2, 3) is validated on a PRISTINE
     network (construction script only): check(<negated literals>) must answer false (lemma_checks).  A stale
     predecessor / enforcing constraint / reason left behind by a pop shows up here (the recorded clause omits
     literals), and only here: the bogus clause is part of the "recorded clauses" both networks of 3 share.
  Every disagreement is minimised (delta debugging over the history, then over the clauses of the construction,
  re-running both networks) before it is reported.
"""
import glob
import json
import os
import re
import time
from fractions import Fraction

import vlib
import sat_lib
import net_gen

LEVEL = "proof"
CORPUS = os.path.join(vlib.VERIF, "corpus", "C08")
LRA_BASIS_SIG = "net:history-dependence:lit:theory-propagation-depends-on-simplex-basis"
PENDING = os.path.join(vlib.VERIF, "notes", "fixes", "C08-pending.json")
SEP = "== history"


# ------------------------------------------------------------------------------------------------
# drivers
# ------------------------------------------------------------------------------------------------
class Harness:
    """A restartable h_net process (net_gen.Drv: no ASLR, reader thread, an answer that takes more than `limit` seconds
    kills it).  After a death the exit code / hung flag / commands sent are kept and a new process is started."""

    def __init__(self, exe, limit=15.0):
        self.exe, self.limit = exe, limit
        self.drv = None
        self.start()

    def start(self):
        if self.drv is not None:
            try:
                self.drv.p.kill()
                self.drv.p.wait(timeout=5)
            except Exception:
                pass
        self.drv = net_gen.Drv(self.exe, limit=self.limit)
        self.sent = []

    def _died(self):
        self.last_rc, self.last_hung, self.last_sent = self.drv.rc(), self.drv.hung, list(self.sent)
        self.start()

    def send(self, cmd):
        if cmd == "reset":
            self.sent = []
        self.sent.append(cmd)
        try:
            return self.drv.send(cmd)
        except EOFError:
            self._died()
            raise

    def batch(self, cmds):
        self.sent = list(cmds)
        try:
            return self.drv.batch(cmds)
        except EOFError:
            self._died()
            raise

    def close(self):
        try:
            self.drv.close()
        except Exception:
            pass


class Crash(Exception):
    def __init__(self, done, rc, hung):
        Exception.__init__(self, "harness died")
        self.done, self.rc, self.hung = done, rc, hung


# ------------------------------------------------------------------------------------------------
# obs parsing / comparison
# ------------------------------------------------------------------------------------------------
SECTION_OF = {"vals": "lit", "lra": "lra", "lat": "lra", "idl": "idl", "rdl": "rdl", "ov": "ov", "lvl": "lit", "dec": "lit"}
ORDER = ["lit", "lra", "idl", "rdl", "ov"]


def obs_fields(line):
    d = {}
    for tok in line.split(" ")[1:]:
        k, _, v = tok.partition("=")
        d[k] = v
    return d


def p_rat(s):
    n, d = s.split("/")
    n, d = int(n), int(d)
    if d == 0:
        return (1 if n > 0 else -1, Fraction(0))
    return (0, Fraction(n, d))


def p_irat(s):
    a, b = s.split(",")
    return p_rat(a) + p_rat(b)


def p_int(s):
    if s == "inf":
        return (1, 0)
    if s == "-inf":
        return (-1, 0)
    return (0, int(s))


def items(sec, v):
    """name -> (lo, hi) raw strings of one obs section"""
    out = {}
    if sec in ("lra", "lat"):
        for it in v.split(";"):
            if it:
                n, lo, hi = it.split(":")
                out[n] = (lo, hi)
    elif sec in ("idl", "rdl"):
        for it in v.split(";")[1:]:
            n, _, r = it.partition("=")
            lo, hi = r.split(":")
            out[n] = (lo, hi)
    elif sec == "ov":
        for it in v.split(";"):
            if it:
                n, _, r = it.partition(":")
                out[n] = r
    return out


def diff_obs(on, of):
    """List of (section, item, fresh value, network value) where the two obs lines differ."""
    a, b = obs_fields(on), obs_fields(of)
    out = []
    for k in ("lvl", "dec"):
        if a.get(k) != b.get(k):
            out.append(("lit", k, b.get(k), a.get(k)))
    va, vb = a.get("vals", ""), b.get("vals", "")
    if va != vb:
        if len(va) != len(vb):
            out.append(("lit", "nvars", len(vb), len(va)))
        for i, (x, y) in enumerate(zip(va, vb)):
            if x != y:
                out.append(("lit", "b%d" % i, y, x))
    for k in ("lra", "lat", "idl", "rdl", "ov"):
        if a.get(k) != b.get(k):
            ia, ib = items(k, a.get(k, "")), items(k, b.get(k, ""))
            for n in sorted(set(ia) | set(ib)):
                if ia.get(n) != ib.get(n):
                    out.append((SECTION_OF[k], k + "." + n, ib.get(n), ia.get(n)))
    return out


def onesided_violations(on, of):
    """N <= F in the information order: what N has assigned / bounded must be in F (F may know more).
    Returns the list of (section, item, fresh, network) where N claims something F does not have."""
    out = []
    for sec, name, fv, nv in diff_obs(on, of):
        if sec == "lit":
            if name.startswith("b") and nv == "U":
                continue
            out.append((sec, name, fv, nv))
        elif sec == "ov":
            sn = set(nv.split(",")) if nv else set()
            sf = set(fv.split(",")) if fv else set()
            if not sf <= sn:
                out.append((sec, name, fv, nv))
        else:
            k = name.split(".")[0]
            conv = p_int if k == "idl" else p_irat
            try:
                nlo, nhi, flo, fhi = conv(nv[0]), conv(nv[1]), conv(fv[0]), conv(fv[1])
            except Exception:
                out.append((sec, name, fv, nv))
                continue
            if nlo > flo or nhi < fhi:       # N's interval must contain F's
                out.append((sec, name, fv, nv))
    return out


INF_EPS = re.compile(r"(-?1/0),-?[0-9]+/[0-9]+")
RDL_INF_SIG = "net:history-dependence:rdl:infinite-distance-with-infinitesimal"


def norm_inf(line):
    """rdl_theory::propagate compares +inf with +inf - dist by the infinitesimal part (defect reported by C10, repair pending in
    notes/fixes/C10-rdl-infinite-plus-epsilon.patch): unrelated infinite cells become +inf -/+ k*epsilon in an order dependent
    way.  The main comparison identifies all the infinities of one sign; the raw difference is reported under its own
    signature (RDL_INF_SIG)."""
    return INF_EPS.sub(r"\1,0/1", line)


def strip_levels(line):
    t = line.split(" ")
    return " ".join(x for x in t if not (x.startswith("lvl=") or x.startswith("dec=")))


def numeric_part(line):
    f = obs_fields(line)
    return (f.get("lra"), f.get("idl"), f.get("rdl"))


# ------------------------------------------------------------------------------------------------
# running a case on N
# ------------------------------------------------------------------------------------------------
class Run:
    """cons, hist + what N answered: cons_ans, obs0 (after the construction), ans[i], obs[i] (after hist[i])."""

    def __init__(self, cons, hist, cons_ans, obs0, ans, obs, origin=""):
        self.cons, self.hist, self.cons_ans, self.obs0, self.ans, self.obs, self.origin = cons, hist, cons_ans, obs0, ans, obs, origin


def run_case(h, cons, hist, origin=""):
    lines = list(cons) + ["obs"]
    for c in hist:
        lines += [c, "obs"]
    try:
        out = h.batch(lines)
    except EOFError:
        rc, hung = h.last_rc, h.last_hung
        # how far did it get: replay line by line on the new process
        done = 0
        try:
            for ln in lines:
                h.send(ln)
                done += 1
        except EOFError:
            rc, hung = h.last_rc, hung or h.last_hung
        raise Crash(done, rc, hung)
    nc = len(cons)
    return Run(list(cons), list(hist), out[:nc], out[nc], out[nc + 1::2], out[nc + 2::2], origin)


def hooks_of(ans):
    i = ans.find(" hooks=")
    return sat_lib.parse_hooks(ans[i + 7:]) if i >= 0 else []


def norm_hooks(ans):
    i = ans.find(" hooks=")
    return ans if i < 0 else ans[:i + 7] + "|".join(sorted(ans[i + 7:].split("|")))


def fresh_script(run, upto):
    """The script of the fresh network for the comparison point after hist[upto] (upto = -1: after the construction).
    Returns (lines, n_prefix, decisions)."""
    learnt, extra = [], []
    for a in run.cons_ans:
        for k, ls in hooks_of(a):
            if k in (0, 1, 2):
                learnt.append(ls)
    for i in range(upto + 1):
        a = run.ans[i]
        if run.hist[i].startswith("c ") and not a.startswith("rc=skip"):
            extra.append(run.hist[i])
        for k, ls in hooks_of(a):
            if k in (0, 1, 2):
                learnt.append(ls)
    st = net_gen.parse(run.ans[upto]) if upto >= 0 else net_gen.parse(run.cons_ans[-1])
    dec = sat_lib.ints(st.get("dec", ""))
    pre = list(run.cons) + extra + ["c " + " ".join(map(str, ls)) for ls in learnt] + ["p"]
    return pre + ["a %d" % d for d in dec] + ["obs"], len(pre), dec, len(learnt)


class Stats:
    def __init__(self):
        self.points = 0            # comparison points evaluated (exact + one-sided)
        self.exact = 0
        self.onesided = 0
        self.agreed = 0
        self.incomparable = {}
        self.nontrivial = 0
        self.root_points = 0
        self.direct_pop = 0        # direct form (i) evaluations
        self.direct_nohook = 0     # check()/propagate with no hook call: obs unchanged
        self.skipped_sampling = 0
        self.ops = {}
        self.depth = {}
        self.hooks = {0: 0, 1: 0, 2: 0, 3: 0, 4: 0}
        self.multi_pops = [0, 0, 0]
        self.pops = 0
        self.cases = 0
        self.dead_cases = 0
        self.skips = 0
        self.max_depth = 0
        self.learnt_at_points = 0
        self.inf_eps = 0
        self.levels_merged = 0
        self.fresh_knows_more = 0
        self.lemmas_checked = 0
        self.lemmas_pristine_dead = 0

    def inc(self, d, k, n=1):
        d[k] = d.get(k, 0) + n


def compare_point(run, upto, F, stats):
    """Compares N after hist[upto] with the fresh network.  Returns None (agree / incomparable) or a problem dict."""
    lines, npre, dec, nlearnt = fresh_script(run, upto)
    out = F.batch(lines)
    on = run.obs[upto] if upto >= 0 else run.obs0
    of = out[-1]
    nc = len(run.cons)
    if out[:nc] != run.cons_ans:
        # ov_theory::new_eq walks an unordered_map keyed by var_value POINTERS: the order in which its clauses reach new_clause
        # (the order of the kind-4 hooks) differs from process to process; everything else must be identical
        bad = [i for i in range(nc) if out[i] != run.cons_ans[i] and norm_hooks(out[i]) != norm_hooks(run.cons_ans[i])]
        if bad:
            k = bad[0]
            return dict(sig="net:construction-not-deterministic", corr=True, at=upto,
                        diff=[("cons", run.cons[k], out[k], run.cons_ans[k])])
    fresh_learnt = False
    for j in range(nc, npre):
        a = out[j]
        if a.startswith("rc=0") or " dead=1" in a:
            stats.inc(stats.incomparable, "fresh-root-conflict")
            return None
        if j >= npre - 1 - nlearnt:     # the recorded clauses and the propagate: F finds something new at root
            for k, ls in hooks_of(a):
                if k in (0, 2, 3):
                    fresh_learnt = True
    nskip = 0
    for i, d in enumerate(dec):
        a = out[npre + i]
        st = net_gen.parse(a)
        rc = st.get("rc")
        if rc == "skip":
            # the decision is already assigned in F (F found a theory lemma N did not find and propagated it earlier)
            v = st["vals"][d >> 1]
            if v == "U" or not fresh_learnt:
                stats.inc(stats.incomparable, "decision-skipped-in-fresh")
                return None
            if (v == "T") != bool(d & 1):
                # F refutes by propagation a decision N took without a conflict: compare nothing, but never silently
                stats.inc(stats.incomparable, "decision-refuted-in-fresh")
                return dict(sig="net:decision-refuted-by-fresh-network", at=upto, mode="one-sided", diff=[("lit", "decision %d" % d, "F", "T")],
                            fresh_script=lines, fresh_obs=of, net_obs=on, decisions=dec)
            nskip += 1          # same value: F simply has no level for it; one-sided comparison without lvl / dec
            continue
        if rc != "1":
            stats.inc(stats.incomparable, "decision-false-in-fresh")
            return None
        if int(st["lvl"]) != i + 1 - nskip:
            stats.inc(stats.incomparable, "fresh-backjump")
            return None
        for k, ls in hooks_of(a):
            if k in (0, 3):
                stats.inc(stats.incomparable, "fresh-conflict-same-level")
                return None
            if k == 2:
                fresh_learnt = True
    stats.points += 1
    stats.learnt_at_points += nlearnt
    if not dec:
        stats.root_points += 1
    if numeric_part(on) != numeric_part(run.obs0):
        stats.nontrivial += 1
    raw_on, raw_of = on, of
    on, of = norm_inf(on), norm_inf(of)
    if nskip:
        stats.levels_merged += 1
        on, of = strip_levels(on), strip_levels(of)
    if fresh_learnt:
        stats.onesided += 1
        d = onesided_violations(on, of)
        mode = "one-sided"
        if obs_fields(on).get("vals") != obs_fields(of).get("vals"):
            stats.fresh_knows_more += 1
    else:
        stats.exact += 1
        d = diff_obs(on, of) if on != of else []
        mode = "exact"
    if not d:
        stats.agreed += 1
        if fresh_learnt and obs_fields(on).get("vals") != obs_fields(of).get("vals"):
            # the fresh network derived (through a theory lemma) a literal that the network with the undone decisions leaves
            # Undefined: which literals lra_theory propagates depends on the simplex basis, and pop does not undo pivots
            return dict(sig=LRA_BASIS_SIG, at=upto, mode="one-sided (fresh network has more literals assigned)",
                        diff=diff_obs(on, of), fresh_script=lines, fresh_obs=of, net_obs=on, decisions=dec)
        if raw_on != raw_of and not fresh_learnt:
            stats.inf_eps += 1
            return dict(sig=RDL_INF_SIG, at=upto, mode="exact (raw)", diff=diff_obs(raw_on, raw_of), fresh_script=lines, fresh_obs=raw_of,
                        net_obs=raw_on, decisions=dec)
        return None
    what = [s for s in ORDER if any(x[0] == s for x in d)][0]
    return dict(sig="net:history-dependence:" + what, at=upto, mode=mode, diff=d, fresh_script=lines, fresh_obs=of, net_obs=on, decisions=dec)


def direct_checks(run, stats, count=True):
    """Direct forms on N alone.  Returns a list of problem dicts."""
    probs = []
    stack = []   # per standing level: [obs before the assume, clean]
    prev_obs = run.obs0
    prev = net_gen.parse(run.cons_ans[-1])
    for i, (cmd, a) in enumerate(zip(run.hist, run.ans)):
        st = net_gen.parse(a)
        op = cmd.split(" ")[0]
        hk = hooks_of(a)
        if st.get("rc") == "skip" or "lvl" not in st:
            if run.obs[i] != prev_obs:
                probs.append(dict(sig="net:skip-changed-state", at=i, diff=diff_obs(run.obs[i], prev_obs), corr=True))
            continue
        l0, l1 = int(prev["lvl"]), int(st["lvl"])
        if hk:
            for e in stack:
                e[1] = False
        if op == "a":
            if l1 == l0 + 1:
                del stack[l0:]
                stack.append([prev_obs, not hk and st.get("rc") == "1" and prev.get("q") == "0"])
            else:
                del stack[l1:]
        elif op == "o":
            del stack[l0:]
            if stack:
                saved, clean = stack.pop()
                if clean:
                    if count:
                        stats.direct_pop += 1
                    if run.obs[i] != saved:
                        d = diff_obs(run.obs[i], saved)
                        what = [s for s in ORDER if any(x[0] == s for x in d)][0]
                        probs.append(dict(sig="net:pop-does-not-restore:" + what, at=i, diff=d, net_obs=run.obs[i], expected_obs=saved))
            del stack[l1:]
        elif op in ("k", "p"):
            if not hk and prev.get("q") == "0":
                if count:
                    stats.direct_nohook += 1
                if run.obs[i] != prev_obs:
                    d = diff_obs(run.obs[i], prev_obs)
                    what = [s for s in ORDER if any(x[0] == s for x in d)][0]
                    probs.append(dict(sig="net:%s-without-hook-changes-state:%s" % ("check" if op == "k" else "propagate", what), at=i, diff=d,
                                      net_obs=run.obs[i], expected_obs=prev_obs))
            del stack[l1:]
        else:
            del stack[l1:]
        prev, prev_obs = st, run.obs[i]
    return probs


def lemma_checks(run, F, stats, only_last=False, count=True):
    """Every theory lemma (hook kind 2) and theory conflict (kind 3) N records must be entailed by the network as it was
    constructed: a PRISTINE network (construction script only: it never took any decision) must answer false to
    check(<the negated literals>).  The theories decide conjunctions of their own atoms completely (simplex; negative
    cycle), so a lemma the pristine network does not refute is an explanation that cites the wrong literals - what a
    predecessor / reason / enforcing constraint left behind by a pop produces."""
    seen, todo = set(), []
    allans = list(enumerate(run.cons_ans, -len(run.cons_ans))) + list(enumerate(run.ans))
    if only_last:
        allans = allans[-1:]
    for at, a in allans:
        for k, ls in hooks_of(a):
            if k in (2, 3) and (k, tuple(sorted(ls))) not in seen:
                seen.add((k, tuple(sorted(ls))))
                if 0 in ls:
                    continue                      # contains TRUE_lit
                neg = [l ^ 1 for l in ls if l > 1]
                todo.append((at, k, ls, neg))
    if not todo:
        return []
    lines = []
    for at, k, ls, neg in todo:
        lines += list(run.cons) + ["k " + " ".join(map(str, neg))]
    out = F.batch(lines)
    nc = len(run.cons)
    probs = []
    for j, (at, k, ls, neg) in enumerate(todo):
        a = out[(nc + 1) * j + nc]
        if count:
            stats.lemmas_checked += 1
        if a.startswith("rc=0"):
            continue
        if a.startswith("rc=skip"):
            if count:
                stats.lemmas_pristine_dead += 1
            continue
        probs.append(dict(sig="net:theory-%s-not-entailed" % ("lemma" if k == 2 else "conflict"), at=max(at, -1), mode="pristine network check",
                          diff=[("lemma", "kind %d" % k, "check(%s) = false in a pristine network" % neg, "recorded clause %s" % ls)],
                          fresh_script=list(run.cons) + ["k " + " ".join(map(str, neg))], fresh_obs=a, net_obs=None))
    return probs


def eligible(run, i):
    a = run.ans[i]
    st = net_gen.parse(a)
    return "lvl" in st and st.get("q") == "0" and st.get("dead") == "0"


def analyse(run, F, stats, rng=None, sample=1.0, only_last=False, count=True):
    """All the problems of one run (list of dicts, first occurrence of each signature)."""
    probs = direct_checks(run, stats, count)
    probs += lemma_checks(run, F, stats, only_last, count)
    if only_last:
        idx = [len(run.hist) - 1] if run.hist else [-1]
    else:
        idx = list(range(len(run.hist)))
    seen, uniq = set(), []
    for p in probs:
        if p["sig"] not in seen:
            seen.add(p["sig"])
            uniq.append(p)
    probs = uniq
    for i in idx:
        if i >= 0 and not eligible(run, i):
            continue
        if i >= 0 and not only_last and sample < 1.0:
            st = net_gen.parse(run.ans[i])
            if st["lvl"] != "0" and rng.random() >= sample:     # root points are always compared
                stats.skipped_sampling += 1
                continue
        p = compare_point(run, i, F, stats)
        if p and p["sig"] not in seen:
            seen.add(p["sig"])
            probs.append(p)
    return probs


def account(run, stats):
    """Input distribution of one run."""
    stats.cases += 1
    depth = 0
    for cmd, a in zip(run.hist, run.ans):
        st = net_gen.parse(a)
        op = cmd.split(" ")[0]
        if st.get("rc") == "skip":
            stats.skips += 1
            continue
        stats.inc(stats.ops, op)
        if "lvl" in st:
            depth = max(depth, int(st["lvl"]))
        for k, ls in hooks_of(a):
            stats.hooks[k] = stats.hooks.get(k, 0) + 1
        if op in ("o", "n") and "multi" in st:
            stats.pops += 1
            m = sat_lib.ints(st["multi"])
            for j in range(3):
                stats.multi_pops[j] += 1 if m[j] > 0 else 0
    stats.inc(stats.depth, depth)
    stats.max_depth = max(stats.max_depth, depth)
    if run.ans and " dead=1" in run.ans[-1]:
        stats.dead_cases += 1


def rup_stream(run):
    lines, meta = ["reset", "F 0"], []
    for i, a in enumerate(run.cons_ans + run.ans):
        for k, ls in hooks_of(a):
            s = " ".join(map(str, ls))
            if k in (4, 5):
                lines.append("F " + s)
            elif k == 0:
                meta.append((len(lines), i - len(run.cons_ans), ls))
                lines.append("L " + s)
            else:
                lines.append("N " + s)
    return lines, meta


# ------------------------------------------------------------------------------------------------
# minimisation
# ------------------------------------------------------------------------------------------------
def minimise(cons, hist, sig, Nh, Fh, budget=400):
    """ddmin over the history (the failure must show at the LAST command), then greedy removal of construction
    clauses.  Returns (cons, hist, problem)."""
    st = Stats()
    calls = [0]

    def test(c, h):
        calls[0] += 1
        try:
            r = run_case(Nh, c, h)
        except Crash:
            return None
        for p in analyse(r, Fh, st, only_last=True, count=False):
            if p["sig"] == sig:
                p["run"] = r
                return p
        return None

    best = test(cons, hist)
    if best is None:
        return cons, hist, None
    n = 2
    while len(hist) >= 2 and calls[0] < budget:
        chunk = max(1, len(hist) // n)
        reduced = False
        for s in range(0, len(hist), chunk):
            cand = hist[:s] + hist[s + chunk:]
            if not cand:
                continue
            p = test(cons, cand)
            if p is not None:
                hist, best, reduced = cand, p, True
                n = max(n - 1, 2)
                break
        if not reduced:
            if chunk == 1:
                break
            n = min(len(hist), n * 2)
    i = len(cons) - 1
    while i >= 0 and calls[0] < budget * 2:
        if cons[i].startswith("c "):
            cand = cons[:i] + cons[i + 1:]
            p = test(cand, hist)
            if p is not None:
                cons, best = cand, p
        i -= 1
    return cons, hist, best


# ------------------------------------------------------------------------------------------------
# reporting
# ------------------------------------------------------------------------------------------------
def pending():
    if not os.path.exists(PENDING):
        return {}
    try:
        return {e["signature"]: e.get("what", "") for e in json.load(open(PENDING))}
    except Exception:
        return {}


def report(ctx, sig, payload, no_input=False, reported=None):
    if reported is not None:
        if sig in reported:
            return
        reported.add(sig)
    pend = pending()
    if sig in pend:
        print("KNOWN-FINDING: property=%s (repair pending in notes/fixes) %s: %s" % (ctx.prop, sig, pend[sig]), flush=True)
        ctx.cov.setdefault("pending_findings_hit", []).append(sig)
        return
    ctx.violation(sig, payload, no_input=no_input)


def save_script(cons, hist, name):
    d = os.path.join(vlib.VERIF, "replays")
    os.makedirs(d, exist_ok=True)
    path = os.path.join(d, name)
    with open(path, "w") as f:
        f.write("\n".join(cons + [SEP] + hist) + "\n")
    return path


def load_script(path):
    cons, hist, cur = [], [], None
    for ln in open(path).read().split("\n"):
        ln = ln.strip()
        if not ln or ln.startswith("#"):
            continue
        if ln == SEP:
            cur = hist
            continue
        (cons if cur is None else cur).append(ln)
    return cons, hist


def report_problem(ctx, p, run, Nh, Fh, reported, minimise_it=True):
    sig = p["sig"]
    if sig in reported:
        return
    cons, hist = run.cons, run.hist[:p["at"] + 1]
    mp = None
    if minimise_it and not p.get("corr") and sig not in pending():
        try:
            cons, hist, mp = minimise(cons, hist, sig, Nh, Fh)
        except Exception as e:   # minimisation is best effort
            ctx.log("minimisation failed:", repr(e))
    q = mp or p
    name = "C08-%s.txt" % vlib.sha("\n".join(cons + hist))
    path = save_script(cons, hist, name)
    payload = {
        "kind": "history-dependence" if "history-dependence" in sig else "undo-does-not-restore",
        "origin": run.origin, "signature_detail": sig, "comparison": q.get("mode", "direct"),
        "construction": cons, "history": hist, "minimised": mp is not None, "original_history_length": p["at"] + 1,
        "differences (item, expected = fresh network / state before the assume, got = network after the history)":
            [dict(section=s, item=n, expected=f, got=g) for s, n, f, g in q.get("diff", [])[:40]],
        "standing_decisions": q.get("decisions"),
        "expected_obs": q.get("fresh_obs") or q.get("expected_obs"), "got_obs": q.get("net_obs"),
        "fresh_network_script": q.get("fresh_script"),
        "script_file": path,
        "replay_cmd": "python3 tools/verif.py C08 replay %s" % path,
    }
    report(ctx, sig, payload, no_input=bool(p.get("corr")), reported=reported)


# ------------------------------------------------------------------------------------------------
# the check
# ------------------------------------------------------------------------------------------------
def build():
    hexe, hlog = sat_lib.build_h_net()
    oexe, olog = sat_lib.build_oracle()
    return hexe, hlog, oexe, olog


def prebuild():
    build()


def check_rup(ctx, oexe, pend_runs, reported, stats_rup):
    if not pend_runs:
        return
    lines, metas = [], []
    for run in pend_runs:
        ls, meta = rup_stream(run)
        for idx, at, clause in meta:
            metas.append((len(lines) + idx, at, clause, run))
        lines += ls
    if not metas:
        return
    r, out = sat_lib.run_lines(oexe, lines, args=["rup"])
    for idx, at, clause, run in metas:
        stats_rup["checked"] += 1
        if idx >= len(out) or out[idx] != "ok":
            stats_rup["failed"] += 1
            cons, hist = run.cons, run.hist[:max(at, -1) + 1]
            path = save_script(cons, hist, "C08-rup-%s.txt" % vlib.sha("\n".join(cons + hist)))
            report(ctx, "net:learnt-not-rup", {
                "kind": "learnt-clause-not-entailed", "origin": run.origin, "clause": clause, "after_history_command": at,
                "construction": cons, "history": hist, "checker_answer": out[idx] if idx < len(out) else "(no answer)",
                "script_file": path, "replay_cmd": "python3 tools/verif.py C08 replay %s" % path}, reported=reported)


def run(ctx):
    cov = ctx.cov
    rng = ctx.rng
    # 1. proofs --------------------------------------------------------------------------------------------
    if os.path.exists(os.path.join(vlib.COQ, "props", "Properties_C08.v")):
        res = vlib.proof_stage(ctx)
        if ctx.thorough and res["ok"]:
            vlib.coqchk_stage(ctx)
    else:
        ctx.log("coq/props/Properties_C08.v is missing: proof stage skipped (implementation-level check only)")
        cov["proof_stage"] = "skipped: coq/props/Properties_C08.v missing"
    t_impl = time.time()
    # 2. builds --------------------------------------------------------------------------------------------
    hexe, hlog, oexe, olog = build()
    if not hexe:
        ctx.violation("build:h_net", {"kind": "harness-build-failed", "log": hlog[-3000:]}, no_input=True)
        return
    if not oexe:
        ctx.violation("build:oracle_sat", {"kind": "oracle-build-failed", "log": olog[-3000:]}, no_input=True)
    Nh, Fh = Harness(hexe), Harness(hexe)
    stats = Stats()
    reported = set()
    rup_stats = dict(checked=0, failed=0)
    pend_runs = []

    def crash(cons, hist, e, origin):
        script = (cons + ["obs"] + [x for c in hist for x in (c, "obs")])[:e.done + 1]
        path = save_script(cons, hist, "C08-crash-%s.txt" % vlib.sha("\n".join(cons + hist)))
        report(ctx, "net:hang" if e.hung else "net:crash", {
            "kind": "harness-hung" if e.hung else "harness-aborted", "origin": origin, "exit_code": e.rc,
            "last_command": script[-1] if script else None, "construction": cons, "history": hist,
            "script_file": path, "replay_cmd": "python3 tools/verif.py C08 replay %s" % path}, reported=reported)

    def process(run, sample):
        account(run, stats)
        probs = analyse(run, Fh, stats, rng=rng, sample=sample)
        for p in probs:
            report_problem(ctx, p, run, Nh, Fh, reported)
        pend_runs.append(run)
        if len(pend_runs) >= 40 and oexe:
            check_rup(ctx, oexe, pend_runs, reported, rup_stats)
            del pend_runs[:]

    # 3. corpus first --------------------------------------------------------------------------------------
    ncorpus = 0
    for path in sorted(glob.glob(os.path.join(CORPUS, "*.txt"))):
        cons, hist = load_script(path)
        ncorpus += 1
        try:
            r = run_case(Nh, cons, hist, origin="corpus:" + os.path.basename(path))
        except Crash as e:
            crash(cons, hist, e, "corpus:" + os.path.basename(path))
            continue
        process(r, 1.0)
    cov["corpus_cases"] = ncorpus
    # 4. generated -----------------------------------------------------------------------------------------
    # fixed number of cases (a run is then a function of the seed); the wall budget only guards a loaded machine
    budget = 600.0 if ctx.thorough else 80.0
    max_cases = int(os.environ.get("C08_CASES", "3000" if ctx.thorough else "330"))
    sample = 1.0
    profiles = {}
    t0 = time.time()
    ncase = 0
    while time.time() - t0 < budget and ncase < max_cases:
        ncase += 1
        Nh.start()      # one process per case (and a new one for the fresh networks): a case is a function of its script
        Fh.start()
        small = rng.random() < 0.25
        unsteered = 0.0 if rng.random() < 0.5 else rng.choice([0.03, 0.06, 0.12])
        try:
            net = net_gen.build(rng, Nh, small=small)
            obs0 = Nh.send("obs")
            if net.dead:
                prof, hist, ans, obs = "dead-at-construction", [], [], []
            else:
                prof, hist, ans, obs = net_gen.history(rng, Nh, net, unsteered=unsteered)
        except EOFError:
            sent = [c for c in Nh.last_sent if c != "obs"]
            ctx.log("harness died during generation (case %d) on: %s" % (ncase, sent[-1] if sent else "?"))
            crash(sent, [], Crash(len(sent) - 1, Nh.last_rc, Nh.last_hung), "generated:%d" % ncase)
            continue
        profiles[prof] = profiles.get(prof, 0) + 1
        r = Run(net.cons, hist, net.answers, obs0, ans, obs, origin="generated:%d:%s" % (ncase, prof))
        try:
            process(r, sample)
        except EOFError:
            sent = [c for c in Fh.last_sent if c != "obs"]
            crash(sent, [], Crash(len(sent) - 1, Fh.last_rc, Fh.last_hung), r.origin + " (fresh network replay)")
        if ncase <= 6:
            ctx.sample({"origin": r.origin, "construction_cmds": len(r.cons), "history": " ; ".join(r.hist[:40]),
                        "last_obs": (r.obs[-1] if r.obs else r.obs0)[:600]})
    if oexe:
        check_rup(ctx, oexe, pend_runs, reported, rup_stats)
    Nh.close()
    Fh.close()
    # 5. evidence ------------------------------------------------------------------------------------------
    cov["evaluations"] = stats.points + stats.direct_pop + stats.direct_nohook + rup_stats["checked"] + stats.lemmas_checked
    cov["comparison_points"] = dict(evaluated=stats.points, exact=stats.exact, one_sided=stats.onesided, agreed=stats.agreed,
                                    at_root=stats.root_points, incomparable=stats.incomparable,
                                    incomparable_total=sum(stats.incomparable.values()), skipped_by_sampling=stats.skipped_sampling,
                                    mean_recorded_clauses_replayed=round(stats.learnt_at_points / max(1, stats.points), 2))
    cov["direct_forms"] = dict(assume_pop_restores=stats.direct_pop, check_or_propagate_without_hook_unchanged=stats.direct_nohook)
    cov["rup"] = rup_stats
    cov["theory_clauses_validated_on_pristine_network"] = dict(checked=stats.lemmas_checked, pristine_network_dead=stats.lemmas_pristine_dead)
    cov["comparison_points"]["one_sided_with_a_decision_already_propagated_in_fresh"] = stats.levels_merged
    cov["comparison_points"]["raw_rdl_infinity_differences"] = stats.inf_eps
    cov["comparison_points"]["one_sided_where_fresh_has_more_literals_assigned"] = stats.fresh_knows_more
    cov["distinct_nontrivial"] = stats.nontrivial
    cov["traces_validated_against_impl"] = stats.agreed
    cov["rule"] = ("comparison point = history command after which the queue is empty and the network is not dead; evaluated = the fresh "
                   "network replayed construction + recorded clauses + standing decisions without conflict; non-trivial = at least one LRA "
                   "bound or IDL/RDL distance differs from its value after the construction; networks: 3-8 booleans, 2-5 LRA variables / "
                   "4-12 atoms on 2-4 shared expressions, 3-7 IDL and RDL time points / 5-15 distance constraints on 2-10 ordered pairs, "
                   "1-3 OV variables, 5-20 linking clauses + ladder chains; histories of 25-110 commands, depth <= 12")
    cov["input_distribution"] = dict(cases=stats.cases, profiles=profiles, ops=stats.ops, skipped_ops=stats.skips,
                                     max_depth_per_case=dict(sorted(stats.depth.items())), deepest=stats.max_depth,
                                     conflicts_learnt_kind0=stats.hooks.get(0, 0), next_nogoods_kind1=stats.hooks.get(1, 0),
                                     theory_lemmas_kind2=stats.hooks.get(2, 0), theory_conflicts_kind3=stats.hooks.get(3, 0),
                                     clauses_kind4=stats.hooks.get(4, 0), explicit_pops_and_nexts=stats.pops,
                                     pops_undoing_2plus_updates_of_one_lra_bound=stats.multi_pops[0],
                                     pops_undoing_2plus_updates_of_one_idl_cell=stats.multi_pops[1],
                                     pops_undoing_2plus_updates_of_one_rdl_cell=stats.multi_pops[2],
                                     cases_ending_dead=stats.dead_cases)
    cov["impl_wall_s"] = round(time.time() - t_impl, 1)
    cov["trusted_base"] += [
        "harness/h_net.cpp (drives the real sat_core + 4 theories; prints obs through the public observers), tools/net_gen.py, "
        "tools/checks/c08.py (fresh-network replay, comparison, minimisation)",
        "theory lemmas / theory conflicts / next() no-goods (hook kinds 2, 3, 1) enter the RUP stream as axioms: their validity is the "
        "business of C07 / C09 / C10",
        "the h_net harness is compiled without -DNDEBUG (the asserts of /repo are alive; an assert failure on a legal history is "
        "reported as net:crash)",
    ]
    ctx.assumptions += ["preconditions of the sat_core interface are respected by the histories (assume on an Undefined literal with an "
                        "empty queue, pop above root, new_clause / simplify_db at root); operations violating them are answered 'skip'",
                        "comparison with the fresh network is only made where the fresh network replays the recorded clauses and the "
                        "standing decisions without a conflict of its own (incomparable points are counted in the evidence)"]
    ctx.log("cases=%d points=%d (exact %d, one-sided %d, agreed %d, incomparable %d) direct=%d+%d rup=%d lemmas=%d nontrivial=%d" % (
        stats.cases, stats.points, stats.exact, stats.onesided, stats.agreed, sum(stats.incomparable.values()),
        stats.direct_pop, stats.direct_nohook, rup_stats["checked"], stats.lemmas_checked, stats.nontrivial))


def replay(path):
    """Re-runs one stored script (corpus format) or the script named by a replay JSON; prints both obs at the end."""
    if path.endswith(".json"):
        d = json.load(open(path))
        cons, hist = d.get("construction", []), d.get("history", [])
    else:
        cons, hist = load_script(path)
    hexe, hlog, oexe, olog = build()
    Nh, Fh = Harness(hexe), Harness(hexe)
    st = Stats()
    try:
        r = run_case(Nh, cons, hist, origin="replay")
    except Crash as e:
        print("VIOLATION property=C08 replay=%s harness %s (rc=%s) after %d lines" % (path, "hung" if e.hung else "died", e.rc, e.done))
        return 1
    probs = analyse(r, Fh, st)
    for c, a in zip(r.hist, r.ans):
        print("%-24s %s" % (c, a))
    bad = 0
    for p in probs:
        bad += 1
        print("PROBLEM %s at history command %d (%s)" % (p["sig"], p["at"], p.get("mode", "direct")))
        for s, n, f, g in p.get("diff", [])[:30]:
            print("   %-4s %-14s expected %s   got %s" % (s, n, f, g))
    lines, meta = rup_stream(r)
    if meta and oexe:
        _, out = sat_lib.run_lines(oexe, lines, args=["rup"])
        for idx, at, clause in meta:
            if idx >= len(out) or out[idx] != "ok":
                bad += 1
                print("PROBLEM net:learnt-not-rup clause %s after history command %d" % (clause, at))
    print("points=%d agreed=%d incomparable=%s direct=%d" % (st.points, st.agreed, st.incomparable, st.direct_pop + st.direct_nohook))
    if bad:
        print("VIOLATION property=C08 replay=%s" % path)
    Nh.close()
    Fh.close()
    return 1 if bad else 0
