"""C12 -- Difference-logic relation literals and expression queries mean what they say.

  prove    coq/props/Properties_C12.v: for IDL and RDL, the literal returned by new_lt / new_leq / new_eq / new_geq / new_gt on
           well-formed `lin` expressions is TRUE / FALSE only when every model of the network decides the relation, otherwise
           it stands for exactly the difference constraint(s) equivalent to the relation (all branches of the case analysis,
           including which inputs throw); bounds / distance on expressions are the exact images of the variable-level
           intervals for both signs of the coefficient.
  tie      exact differential of every command (result literal, new_clause events of sat_core::new_conj, full state) between
           /repo's idl_theory / rdl_theory and the extracted model coq/smt/Dl.v.
  judge    tools/dl_judge.py recomputes, independently of the model, the expected difference constraint of every relation
           (symbolically and on sample points), the TRUE / FALSE shortcuts from the dumped distances, and the exact image
           intervals of every query.
"""
import dl_run

LEVEL = "proof"


def plan(ctx):
    k = 8 if ctx.thorough else 1
    return [("rel", "idl", 45 * k, 55), ("rel", "rdl", 45 * k, 55), ("hist", "idl", 10 * k, 30), ("hist", "rdl", 10 * k, 30),
            ("negrel", "idl", 30 * k, 0), ("negrel", "rdl", 30 * k, 0), ("negrel_realsat", "idl", 12 * k, 0), ("negrel_realsat", "rdl", 12 * k, 0)]


def prebuild():
    import dl_common
    dl_common.build_harness()
    dl_common.build_oracle()


def run(ctx):
    dl_run.run_check(ctx, "C12", plan(ctx), dl_run.owns_c12,
                     "all five relations x {0, 1, 2, 3 variables} x sign of the leading coefficient x variable order x "
                     "{same variable on both sides, both variables on both sides, mismatching coefficients} x integer / rational "
                     "constants and coefficients, on networks with asserted root constraints (so that the shortcuts fire); "
                     "bounds / distance / equates on the same shapes; relation literals (strict and non-strict, scaled forms such as -2x+2y > -10, "
                     "single-variable forms such as -2x < -7) assigned FALSE / TRUE while undecided (decision, unit clause, clause that "
                     "propagates later, several enqueues at one level) followed by probes at the boundary, one unit and one infinitesimal "
                     "beside it (queries, new relations, boundary constraints that must / must not conflict); non-trivial = distinct dumped states")


def replay(path):
    return dl_run.replay("C12", path)
