"""C20 -- parallel pivoting gives the sequential result and is race-free.

1. tie (regenerated): tools/lra_footprint.py extracts from the source text of lra_theory::pivot's PARALLELIZE lambda which
   shared object every access touches and which lock_guard is in scope, and the shape of thread_pool's critical
   sections -> coq/gen/Gen_pivot_footprint.v; props/Properties_C20.v proves table_ok of it.
2. proofs: all interleavings of well-locked tasks on distinct rows agree and equal the sequential row update of the C09
   model; no two tasks ever have a next step on the same object; join returns only when all tasks completed.
3. differential (always, and the failing-input search when 1/2 break): the PARALLELIZE build of the harness, pool sizes
   1, 2, 16, on C09 histories, compared event by event with the extracted sequential model (same comparison as C09) and
   judged by the K2 checkers; the sequential build's trace is compared too (informational: after an event whose outcome
   legitimately depends on unordered_set iteration order the two builds may take different but valid paths).
4. every tier: ThreadSanitizer build of harness/h_pivot.cpp -- stress of thread_pool's enqueue / join (pools of 1 and 2 workers,
   plain-int completion flags read after join()) and a pivot-heavy lra_theory run (3 rounds x 12 pivots over ~300 rows); a TSan
   report, an early-returning join or a row / watch mismatch is a violation. Thorough tier: larger runs + TSan on C09 histories.
"""
import json
import os

import vlib
import lra_tools as T
import lra_footprint
from checks import c09

LEVEL = "proof"


def regenerate():
    text, rep = lra_footprint.gen_v(vlib.REPO)
    with vlib.Lock("coq"):
        changed = vlib.write_if_changed(os.path.join(vlib.COQ, "gen/Gen_pivot_footprint.v"), text)
    return text, rep, changed


def regenerate_all():
    regenerate()


def prebuild():
    regenerate()
    T.build_all(vlib)
    T.build_all(vlib, parallel=True)
    tsan_build("h_pivot_tsan", "h_pivot.cpp")


def par_differential(ctx, n, pools=(1, 2, 16)):
    n = int(n * 1.6)
    """-> (found_violation, stats)"""
    rng = ctx.rng
    exe_s, oexe, log1 = T.build_all(vlib)
    exe_p, _, log2 = T.build_all(vlib, parallel=True)
    if not exe_s or not exe_p or not oexe:
        ctx.violation("build:lra_par", {"kind": "build-failed", "log": (log1 + log2)[-3000:]}, no_input=True)
        return True, {}
    scs = []
    for i in range(n):
        r = rng.random()
        scs.append(T.gen_pivot_heavy(rng) if r < 0.35 else T.gen_const_rows(rng) if r < 0.65 else T.gen_scenario(rng, "mixed") if r < 0.85 else T.gen_degenerate(rng))
    scripts = [s.text() for s in scs]
    seq = T.run_differential(vlib, exe_s, oexe, "".join(scripts), timeout=600 if ctx.thorough else 120)
    stats = {"scenarios": n, "events": sum(len([r for r in sc if r["E"]]) for sc in seq["impl"]), "pools": list(pools),
             "identical_to_sequential_build": {}, "pivoting_checks": 0, "rows_updated_in_parallel": 0}
    found = False
    # how much pivoting: tableau changes between consecutive dumps of check events
    for sc in seq["impl"]:
        prevT = None
        for r in sc:
            if r["S"]:
                t = r["S"].split(" | ")[3]
                if r["E"] and r["E"].startswith("E check") and prevT is not None and t != prevT:
                    stats["pivoting_checks"] += 1
                    stats["rows_updated_in_parallel"] += max(0, t.count("[") - 1)
                prevT = t
    for p in pools:
        out = T.run_differential(vlib, exe_p, oexe, "pool %d\n" % p + "".join(scripts), timeout=900 if ctx.thorough else 120)
        if out["crashed"] or len(out["impl"]) < len(scripts):
            k = max(0, len(out["impl"]) - 1)
            ctx.violation("par:crash", {"kind": "parallel-build-aborted-or-hung", "pool": p, "script": scripts[min(k, len(scripts) - 1)],
                                        "rc": out["rc"], "stderr": out["stderr"]})
            found = True
            continue
        same = 0
        for si, (a, b, s) in enumerate(zip(out["impl"], out["model"], seq["impl"])):
            d = T.compare_scenario(a, b)
            if d and not found:
                # classify: does the parallel build's own output violate C09's predicate (K2) or differ from the sequential build?
                ctx.violation("par:differs-from-sequential", {"kind": "parallel-build-differs-from-sequential-semantics", "pool": p, "script": scripts[si],
                                                              "first_difference": d,
                                                              "sequential_build_agrees_with_model": T.compare_scenario(s, b) is None})
                found = True
            if [(r["E"], r["R"], r["S"]) for r in a] == [(r["E"], r["R"], r["S"]) for r in s]:
                same += 1
        seen_sigs = set()

        def rep_once(c, sig, rep, no_input=False, seen_sigs=seen_sigs, p=p):
            if sig not in seen_sigs:
                seen_sigs.add(sig)
                c.violation("par:" + sig, dict(rep, pool=p))
        ne, be = T.check_expectations(ctx, rep_once, scs, out["impl_text"], "pool%d" % p)
        stats["verdicts_against_exact_feasibility"] = stats.get("verdicts_against_exact_feasibility", 0) + ne
        if be:
            found = True
        jf = [l for l in out["judge"] if " FAIL " in l]
        if jf and not found:
            ctx.violation("par:k2", {"kind": "parallel-build-output-rejected-by-verified-checker", "pool": p, "lines": jf[:5]})
            found = True
        stats["identical_to_sequential_build"][str(p)] = same
    return found, stats


def tsan_build(name, harness):
    inc = os.path.join(vlib.BUILD, "c20_inc")
    os.makedirs(inc, exist_ok=True)
    vlib.write_if_changed(os.path.join(inc, "concurrent_export.h"), "#pragma once\n#define CONCURRENT_EXPORT\n")
    return vlib.cxx_build(name, harness, vlib.SMT_SRC + vlib.CONC_SRC, vlib.SMT_INC, defines=("PARALLELIZE",), extra_inc=[inc],
                          flags=("-O1", "-g", "-fsanitize=thread", "-pthread"))


def tsan_quick(ctx):
    """Runtime support, every tier (~10-40 s): ThreadSanitizer build of harness/h_pivot.cpp -- (1) stress of thread_pool's
    enqueue / join with pools of 1 and 2 workers (tasks write plain ints, the producer reads them after join()), (2) a
    pivot-heavy lra_theory run on the PARALLELIZE build (3 rounds x 12 pivots over ~300 rows, pools 2 and 4). A TSan report,
    a join() that returned before its tasks finished, or a row / watch-set mismatch is a violation with the run as input."""
    exe, log = tsan_build("h_pivot_tsan", "h_pivot.cpp")
    if not exe:
        ctx.violation("build:h_pivot_tsan", {"kind": "build-failed", "log": log[-2000:]}, no_input=True)
        return True
    runs = [["stress", "6", "5000"], ["stress", "3", "12000"], ["stress", "12", "2500"], ["lra", "3", "300", "12", "2"], ["lra", "3", "300", "12", "4"], ["lra", "3", "400", "12", "16"]]
    if ctx.thorough:
        runs += [["stress", "8", "6000"], ["lra", "6", "500", "12", "16"], ["lra", "6", "400", "12", "1"]]
    found = False
    summary = []
    for cmd in runs:
        r = vlib.run([exe] + cmd, timeout=240 if ctx.thorough else 60, env={"TSAN_OPTIONS": "halt_on_error=0 report_signal_unsafe=0"})
        reports = (r.err or "").count("WARNING: ThreadSanitizer")
        out = r.out or ""
        early = "EARLY-JOIN" in out
        mism = ("ROW-MISMATCH" in out) or ("WATCH-MISMATCH" in out)
        finished = "DONE" in out
        summary.append({"cmd": " ".join(cmd), "tsan_reports": reports, "early_join": early, "mismatch": mism, "finished": finished,
                        "rc": r.rc, "secs": round(r.secs, 1), "last": out.strip().split("\n")[-1][:160] if out.strip() else ""})
        if reports or early or mism or not finished:
            sig = "par:tsan" if reports else "par:join-returned-early" if early else "par:row-mismatch" if mism else "par:hang-or-crash"
            if not found:
                ctx.violation(sig, {"kind": "runtime-support-stage-failed", "failing_input": "build/h_pivot_tsan (harness/h_pivot.cpp, -fsanitize=thread -DPARALLELIZE) " + " ".join(cmd),
                                    "tsan_reports": reports, "early_join": early, "mismatch": mism, "finished": finished, "rc": r.rc,
                                    "stdout_tail": out[-800:], "first_tsan_report": (r.err or "")[:3500]})
            found = True
            break           # one concrete failing run is enough; the remaining runs would only burn their timeouts
    ctx.cov["tsan_quick"] = summary
    return found


def tsan(ctx, n=40):
    exe, log = tsan_build("h_lra_tsan", "h_lra.cpp")
    if not exe:
        ctx.cov["tsan"] = "build failed: " + log[-300:]
        return False
    rng = ctx.rng
    script = "pool 4\n" + "".join(T.gen_pivot_heavy(rng).text() for _ in range(n))
    r = vlib.run([exe], stdin=script, timeout=600, env={"TSAN_OPTIONS": "halt_on_error=0"})
    races = (r.err or "").count("WARNING: ThreadSanitizer")
    ctx.cov["tsan"] = {"scenarios": n, "reports": races, "rc": r.rc}
    if races:
        ctx.violation("par:tsan", {"kind": "thread-sanitizer-report", "reports": races, "first": (r.err or "")[:3000], "script": script[:4000]})
        return True
    return False


def run(ctx):
    cov = ctx.cov
    try:
        text, rep, changed = regenerate()
        cov["footprint"] = {"entries": rep["entries"], "notes": rep["notes"], "pool": rep["pool"], "pool_accesses": rep["pool_accesses"], "join_after_enqueue": rep["join_after_enqueue"],
                            "regenerated_changed": changed}
        ref = os.path.join(vlib.COQ, "gen_ref/Gen_pivot_footprint.v.ref")
        cov["footprint"]["same_as_reference"] = os.path.exists(ref) and open(ref).read() == text
        translated = True
    except (lra_footprint.Unsupported, OSError) as e:
        cov["footprint"] = {"error": str(e)}
        translated = False
    found = [False]

    def search(res):
        f1 = tsan_quick(ctx)
        if f1:              # concrete failing input found by the runtime stage
            found[0] = True
            return True
        f, st = par_differential(ctx, 150 if not ctx.thorough else 1500)
        cov["search_after_broken_obligation"] = st
        found[0] = f
        return f
    if translated:
        res = vlib.proof_stage(ctx, search=search)
    else:
        f1 = tsan_quick(ctx)
        f, st = par_differential(ctx, 150)
        if not (f or f1):
            ctx.violation("translator:pivot-footprint", {"kind": "translator-failed", "error": cov["footprint"]["error"],
                                                         "theorem": "tie: tools/lra_footprint.py on lra_theory::pivot"}, no_input=True)
        return
    if not found[0] and res.get("ok"):
        found[0] = tsan_quick(ctx)
    if not found[0]:
        f, st = par_differential(ctx, 150 if not ctx.thorough else 2500)
        cov["parallel_vs_sequential"] = st
        cov["evaluations"] = st.get("events", 0) * len(st.get("pools", []))
        cov["distinct_nontrivial"] = st.get("pivoting_checks", 0)
        cov["traces_validated_against_impl"] = sum(st.get("identical_to_sequential_build", {}).values())
        if ctx.thorough and not f:
            tsan(ctx)
    cov["rule"] = ("C09 histories biased towards pivoting (several rows sharing the entering variable, terms appearing and cancelling), run on the PARALLELIZE "
                   "build with pool sizes 1, 2, 16 and compared event by event with the sequential model; non-trivial = check() calls that changed the tableau")
    cov["trusted_base"] += [
        "the C++ memory model, std::mutex / std::lock_guard / std::condition_variable, std::thread (not modelled)",
        "set semantics of std::unordered_set<row*>: a watch set is modelled by its membership function",
        "tools/lra_footprint.py (regular expressions over the source text of the lambda and of thread_pool.cpp): it sees `r->l`, `t_watches[..]`, "
        "`t_mtxs[..]`, lock_guard scopes, the capture list and the member names of lra_theory; accesses hidden behind other names would be missed",
        "smt/Pivot.v task_actions is a hand-written reading of the lambda; its row effect is proved equal to the sequential row update of the C09 model",
    ]
    ctx.assumptions += ["one pivot at a time: join() follows the enqueue loop (checked by the extractor) and returns only when all tasks completed (theorem + extractor's shape check)",
                        "pool sizes >= 1 (with 0 workers join never returns: liveness is not claimed)"]


def replay(path):
    r = json.load(open(path))
    exe_p, oexe, _ = T.build_all(vlib, parallel=True)
    out = T.run_differential(vlib, exe_p, oexe, "pool %d\n" % r.get("pool", 2) + r["script"])
    print(out["impl_text"][-2000:])
    for a, b in zip(out["impl"], out["model"]):
        print("difference:", T.compare_scenario(a, b))
    return 0
