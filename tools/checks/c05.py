"""C05 -- reusable-resource usage never exceeds capacity.

K1: coq/plan/RRSweep.v (on top of plan/Sweep.v) models the pulse sweep of reusable_resource::get_current_incs with the
    usage sums, the `>` test, the sliding-window extraction of minimal conflict sets and the per-segment usage of
    extract_timelines; props/Properties_C05.v proves that a peak is reported iff at some instant the amounts of the
    covering atoms exceed the capacity, that every emitted MCS is live together, exceeds the capacity and is minimal,
    that the extraction terminates and emits at least one MCS per peak, that the usage of a timeline segment is the sum
    over the covering atoms, and that at least one pair of an MCS must be separated or moved.
Tie + K2: as C04 (tools/tl_run.py), on problems with Use atoms: capacities, amounts equal / zero / equal to the capacity,
    several resources, variable tau.
"""
import tl_run

LEVEL = "proof"
KIND = "RR"


def prebuild():
    tl_run.prebuild()


def run(ctx):
    tl_run.run_check(ctx, KIND)


def replay(path):
    return tl_run.replay("C05", KIND, path)
