"""C14 -- object variables take exactly one allowed value; equality means same value.

Pipeline: prove props/Properties_C14.v (model coq/smt/Ov.v on top of coq/smt/SatEnc.v) -> build the extracted model and
the harness from /repo's current smt sources -> run both on the same histories of new_var / new_var(lits, vals) / new_eq /
unit clauses / assume / pop, compare after every operation (returned id / literal, propagate() result, decision level,
nvars, the current assignment of every propositional variable, the clause set simplified by the root assignment, the
reported domain value(v) and the literal allows(v, k) of every value) -> judge the implementation directly by truth table
(exactly one value per enforced variable, equality literal <-> same value, taken value inside the reported domain), and after EVERY
operation, at every decision level, value(v) must be exactly { x : sat.value(allows(v, x)) != False } on the implementation's own
literal values (ov:value-set).
"""
import json
import os

import vlib
import satenc_ov_gen

LEVEL = "proof"
JUDGE_VARS = 22
EXTRACT = ("From Coq Require Import Extraction ExtrOcamlBasic.\nFrom ORatio Require Import smt.SatEnc smt.Ov smt.SatKeys.\n"
           "Extraction Language OCaml.\nSet Extraction Optimize.\n"
           "Extraction \"satenc_model.ml\" x_step init_state x_new_clause ov_init x_ov_new_var x_ov_new_eq x_ov_value x_ov_allows "
           "x_ov_assume x_ov_pop x_ov_propagate x_ov_new_var_lits value str_key str_ov_key.\n")
OPNAME = {"N": "new_var", "L": "new_var_lits", "Q": "new_eq", "C": "new_clause", "A": "assume", "O": "pop"}


def build():
    hexe, hlog = vlib.cxx_build("h_ov", "h_ov.cpp", vlib.SMT_SRC, vlib.SMT_INC, defines=("NDEBUG",))
    oexe, olog = vlib.ocaml_build("ov", ["smt/SatEnc.vo", "smt/Ov.vo", "smt/SatKeys.vo"], EXTRACT, [("satenc_io.ml", None), ("ov_main.ml", None)])
    return hexe, hlog, oexe, olog


def prebuild():
    build()


def render(h, judge=True):
    """Protocol lines of a history. The judge is asked after every root-level prefix that ends with new_var / new_eq / C."""
    lines = ["R"]
    level = 0
    for ln in h.lines:
        lines.append(ln)
        op = ln.split()[0]
        if op == "A":
            level += 1
        elif op == "O":
            level = max(0, level - 1)
    if judge:
        out = []
        level = 0
        for ln in lines:
            out.append(ln)
            op = ln.split()[0]
            if op == "A":
                level += 1
            elif op == "O":
                level = max(0, level - 1)
            elif level == 0 and op in ("Q",):
                out.append("JQ")                      # the equality literal just returned, judged at any size
                out.append("J %d" % JUDGE_VARS)
        if level == 0 and not out[-1].startswith("J"):
            out.append("J %d" % JUDGE_VARS)
        return out
    return lines


def run_exe(exe, lines, timeout=900):
    r = vlib.run([exe], stdin="\n".join(lines) + "\n", timeout=timeout)
    return r, (r.out.split("\n") if r.out else [])


def compare(lines, il, ml):
    """Index of the first disagreeing line (None if none). Comparison stops where the model says DEAD (conflict at
    root / failed assertion / conflicting assume: the implementation then learns clauses or is inconsistent)."""
    for k, ln in enumerate(lines):
        if ln.startswith("J"):
            continue
        a, b = il[k] if k < len(il) else "<missing>", ml[k] if k < len(ml) else "<missing>"
        dead = b.endswith(" DEAD")
        if dead:
            # the returned value (and, unless an assertion of ov_theory failed, the result of propagate()) is still compared
            ntok = 1 if (" ASSERT" in b or ln.startswith("A ")) else 2
            if a.split(" ")[:ntok] != b.split(" ")[:ntok]:
                return k
            return None
        if a != b:
            return k
    return None


class Campaign:
    def __init__(self, ctx):
        self.ctx = ctx
        self.done = False
        self.spec_hits = []
        self.corr_hits = []

    def judge_failure(self, hexe, h):
        _, out = run_exe(hexe, render(h))
        for ln in out:
            if ln.startswith("J FAIL"):
                return ln
            if " vs=FAIL" in ln:
                return "J FAIL value-set " + ln[ln.index(" vs=FAIL") + 9:].split(" ")[0]
        return None

    def shrink(self, h, still, budget=50):
        changed = True
        while changed and budget > 0:
            changed = False
            for i in range(len(h.lines) - 1, -1, -1):
                if budget <= 0:
                    break
                if h.lines[i].split()[0] in ("N", "L"):
                    continue  # removing a variable renumbers the others
                c = satenc_ov_gen.Hist()
                c.lines = h.lines[:i] + h.lines[i + 1:]
                budget -= 1
                if still(c):
                    h, changed = c, True
                    break
        return h

    def report_spec(self, hexe, h, fail, origin):
        kind = fail.split()[2]
        sig = "ov:%s" % kind
        if sig in self.spec_hits:
            return
        self.spec_hits.append(sig)

        def still(c):
            f = self.judge_failure(hexe, c)
            return f is not None and f.split()[2] == kind
        hs = self.shrink(h, still)
        f2 = self.judge_failure(hexe, hs) or fail
        _, out = run_exe(hexe, render(hs))
        self.ctx.violation(sig, {"kind": "implementation-violates-property-statement", "origin": origin, "history": render(hs),
                                 "implementation_output": out[:len(render(hs))], "judge": f2,
                                 "statement": {"exactly-one": "an enforced object variable has exactly one true value literal in every model",
                                               "equality": "the literal of new_eq is true exactly when both variables take the same value",
                                               "domain": "the value taken lies in the reported domain value(v)",
                                               "value-set": "value(v) is exactly the set of values whose literal is not False (checked after every operation, "
                                                            "at every decision level, on the implementation's own literal values)"}.get(kind, kind)})

    def run(self):
        if self.done:
            return
        self.done = True
        ctx = self.ctx
        cov = ctx.cov
        hexe, hlog, oexe, olog = build()
        if not hexe:
            ctx.violation("build:h_ov", {"kind": "harness-build-failed", "log": hlog[-3000:]}, no_input=True)
            return
        if not oexe:
            ctx.violation("build:oracle_ov", {"kind": "oracle-build-failed", "log": olog[-3000:]}, no_input=True)
            return
        rng = ctx.rng
        hists = []
        cdir = os.path.join(vlib.VERIF, "corpus", "C14")
        ncorpus = 0
        if os.path.isdir(cdir):
            for f in sorted(os.listdir(cdir)):
                if f.endswith(".txt"):
                    h = satenc_ov_gen.Hist()
                    h.lines = [ln for ln in open(os.path.join(cdir, f)).read().split("\n") if ln.strip()]
                    h.tags.add("corpus")
                    hists.append(h)
                    ncorpus += 1
        hists += satenc_ov_gen.corner_histories()
        n_small = 2500 if not ctx.thorough else 40000
        n_big = 300 if not ctx.thorough else 4000
        for _ in range(n_small):
            hists.append(satenc_ov_gen.gen_history(rng, small=True))
        for _ in range(n_big):
            hists.append(satenc_ov_gen.gen_history(rng, small=False))
        for _ in range(80 if not ctx.thorough else 500):
            hists.append(satenc_ov_gen.gen_wide_history(rng))
        for _ in range(400 if not ctx.thorough else 5000):
            hists.append(satenc_ov_gen.gen_multi_true_history(rng))
        for _ in range(6 if not ctx.thorough else 60):
            hists.append(satenc_ov_gen.gen_very_wide_history(rng))
        lines, spans = [], []
        for h in hists:
            ls = render(h)
            spans.append((len(lines), len(ls)))
            lines += ls
        r1, impl = run_exe(hexe, lines, timeout=1500)
        r2, model = run_exe(oexe, lines, timeout=1500)
        if len(impl) < len(lines):
            k = min(len(impl), len(lines) - 1)
            hi = max(i for i, (p, n) in enumerate(spans) if p <= k)
            ctx.violation("ov:crash", {"kind": "implementation-aborted", "history": render(hists[hi]), "rc": r1.rc, "stderr": r1.err[-800:]})
            self.spec_hits.append("crash")
            return
        if len(model) < len(lines):
            ctx.violation("corr:ov:oracle-aborted", {"kind": "oracle-aborted", "rc": r2.rc, "stderr": r2.err[-800:]}, no_input=True)
            return
        dist = {}
        ops = judged = skipped = weak = dead = req_judged = value_checked = 0
        ok_hist = 0
        nontrivial = set()
        mism, jfail = [], []
        for hi, (h, (p, n)) in enumerate(zip(hists, spans)):
            hl, il, ml = lines[p:p + n], impl[p:p + n], model[p:p + n]
            for t in h.tags:
                dist[t] = dist.get(t, 0) + 1
            bad = compare(hl, il, ml)
            cut = n
            for k in range(n):
                if ml[k].endswith(" DEAD"):
                    cut = k + 1
                    dead += 1
                    break
            ops += sum(1 for ln in hl[:cut] if not ln.startswith("J"))
            vfail = next((k for k in range(n) if " vs=FAIL" in il[k]), None)
            if vfail is not None:
                jfail.insert(0, (hi, "J FAIL value-set " + il[vfail][il[vfail].index(" vs=FAIL") + 9:].split(" ")[0]))
            value_checked += sum(1 for k in range(n) if " vs=ok" in il[k])
            for k in range(cut):
                if hl[k] == "JQ" and il[k].startswith("J ok"):
                    req_judged += 1
                elif hl[k].startswith("J"):
                    if il[k].startswith("J FAIL"):
                        jfail.append((hi, il[k]))
                        break
                    if "skipped" in il[k]:
                        skipped += 1
                    else:
                        judged += 1
                        if " WEAK " in il[k]:
                            weak += 1
                            cov.setdefault("conservativity_notes", [])
                            if len(cov["conservativity_notes"]) < 3:
                                cov["conservativity_notes"].append({"history": hl, "judge": il[k]})
            if bad is None:
                ok_hist += 1
                nontrivial.add(tuple(hl))
            else:
                mism.append((hi, bad, hl, il, ml))
        for hi, jl in jfail[:10]:
            self.report_spec(hexe, hists[hi], jl, "judge")
        for hi, bad, hl, il, ml in mism[:10]:
            if self.spec_hits:
                break
            f = self.judge_failure(hexe, hists[hi])
            if f:
                self.report_spec(hexe, hists[hi], f, "differential")
                continue
            opn = OPNAME.get(hl[bad].split()[0], hl[bad].split()[0])
            sig = "corr:ov:" + opn
            if sig in self.corr_hits:
                continue
            self.corr_hits.append(sig)

            def still(c, oexe=oexe, hexe=hexe):
                ls = render(c, judge=False)
                _, a = run_exe(hexe, ls)
                _, b = run_exe(oexe, ls)
                return compare(ls, a, b) is not None
            hs = self.shrink(hists[hi], still)
            ls = render(hs, judge=False)
            _, a = run_exe(hexe, ls)
            _, b = run_exe(oexe, ls)
            ctx.violation(sig, {"kind": "model-differs-from-implementation", "correspondence": "corr:ov (coq/smt/Ov.v vs smt/ov/ov_theory.cpp)",
                                "history": ls, "implementation": a[:len(ls)], "model": b[:len(ls)],
                                "note": "the truth-table judge found no violation of the property on this history"}, no_input=True)
        cov["evaluations"] = ops
        cov["histories"] = len(hists)
        cov["corpus_histories"] = ncorpus
        cov["traces_validated_against_impl"] = ok_hist
        cov["model_vs_impl_mismatching_histories"] = len(mism)
        cov["histories_cut_at_conflict_or_failed_assert"] = dead
        cov["judged_by_truth_table"] = judged
        cov["equalities_judged_right_after_the_request"] = req_judged
        cov["operations_with_value_sets_judged"] = value_checked
        cov["judge_skipped_more_than_%d_vars" % JUDGE_VARS] = skipped
        cov["judge_failures"] = len(jfail)
        cov["conservativity_notes_count"] = weak
        cov["distinct_nontrivial"] = len(nontrivial)
        cov["input_distribution"] = dict(sorted(dist.items()))
        cov["rule"] = ("corpus + hand-written corners + seeded random histories: 2-6 object variables over a pool of 8-14 values with singleton, nested, "
                       "overlapping, equal and disjoint domains, repeated items, enforce_exct_one on/off, new_var(lits, vals) over existing value literals, "
                       "new_eq in both argument orders / repeated / x = x, values excluded or fixed at root by unit clauses, assume / pop over value "
                       "literals; every history is non-trivial (at least two variables and two further operations), counted as distinct protocol texts")
        for hi in range(0, len(hists), max(1, len(hists) // 6)):
            ctx.sample({"history": hists[hi].lines})
        cov["trusted_base"] += [
            "harness/h_ov.cpp + harness/satenc_common.h (reads sat_core / ov_theory private members; truth-table judge), oracle/ov_main.ml, "
            "oracle/satenc_io.ml, tools/satenc_ov_gen.py",
            "Section hypotheses: the iteration order of the unordered_map / unordered_set inside ov_theory::new_eq is an arbitrary permutation "
            "(theorems hold for every order; the extracted model uses insertion order and the tie compares clause sets simplified by the propagated "
            "root assignment, which does not depend on the order); std::sort and ceil(sqrt) as in C13",
            "the harness is compiled with -DNDEBUG like the pinned build: the assert(nc) / assert(exct_one) of ov_theory are the model's assert flag",
        ]
        ctx.assumptions += [
            "histories call new_var / new_eq / new_clause at root level only (sat_core asserts it); comparison of a history stops at the first "
            "conflict (assume that conflicts, propagate() false at root, failed assertion), where the implementation starts learning clauses (C07's subject)",
            "C13's tie bound on std::sort stability applies to the exactly-one clause of new_var (domains of at most 14 values here)",
        ]


def run(ctx):
    camp = Campaign(ctx)

    def search(res):
        camp.run()
        return bool(camp.spec_hits)
    res = vlib.proof_stage(ctx, search=search)
    camp.run()
    if ctx.thorough and res.get("ok") and hasattr(vlib, "coqchk_stage"):
        vlib.coqchk_stage(ctx)


def replay(path):
    d = json.load(open(path))
    hexe, hlog, oexe, olog = build()
    lines = d.get("history")
    if not lines:
        print("replay has no history (broken proof / build): re-run `verif.py C14 quick`")
        return 1
    _, a = run_exe(hexe, lines)
    _, b = run_exe(oexe, lines)
    rc = 0
    bad = compare(lines, a, b)
    for k, ln in enumerate(lines):
        print("%-28s impl: %s" % (ln, a[k] if k < len(a) else ""))
        if bad is not None and k == bad:
            print("%-28s model: %s" % ("", b[k] if k < len(b) else ""))
            rc = 1
        if k < len(a) and a[k].startswith("J FAIL"):
            rc = 1
    print("VIOLATION reproduced" if rc else "not reproduced")
    return rc
