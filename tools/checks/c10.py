"""C10 -- Difference logic: distances are exact and conflicts mean a negative cycle (and the DL part of C08).

Pipeline (DESIGN.md 2.2 / 7-C10, decisions in notes of tools/dl_run.py):
  prove    coq/props/Properties_C10.v: for IDL and RDL, over ANY history of the theory's operations (wf_run), the distance
           matrix is the shortest-path closure of exactly the processed literals (both directions), conflict <-> negative
           cycle, every conflict clause / lemma is DL-valid with assigned literals, explanation walks terminate, a pop gives
           back exactly the state of the push; satisfiability direction (proofs/DlModel_Proofs.v): without a pending
           conflict the asserted constraints have a model over Z resp. Q x Q, every finite distance is attained by a model,
           every infinite one is exceeded by models, and with a drained queue the model satisfies every assigned constraint
           literal. Theorems about the hand-written executable model coq/smt/Dl.v.
  tie      exact differential: harness/h_dl.cpp (idl_theory / rdl_theory compiled from /repo's current sources) and the
           extracted model run the same generated histories; after EVERY command the result, the hook events (lemmas,
           conflicts, clauses) and the full private state (matrices, predecessors, dist_constr, undo layers, assignments,
           queue, trail) are compared literally.
  guard    the decidable test idl_gp of the guarded-network theorems (C08_pop_after_assume_restores_sat_idl_guarded,
           C07_idl_network_soundness_guarded; smt/DlGuard.v) is evaluated by the extracted oracle before EVERY theory
           propagation of every differential IDL history; a failure is reported as `dl:guard-failed` (faithfulness of the
           guarded theory is a run-time obligation; evidence: campaign.guard_evaluations / guard_failures).
  judge    tools/dl_judge.py, independent of the model: Floyd-Warshall over the assigned constraints, predecessor
           consistency, validity of every lemma / conflict (negative cycle among the negated literals), propagation
           completeness; it also judges histories driven through the REAL sat_core (conflict analysis, backjumping, learnt
           clauses), which the model does not mirror. It is the failing-input search when a proof or the tie breaks.
"""
import dl_run

LEVEL = "proof"


def plan(ctx):
    k = 8 if ctx.thorough else 1
    return [("hist", "idl", 45 * k, 45), ("hist", "rdl", 45 * k, 45), ("tighten", "idl", 12 * k, 0), ("tighten", "rdl", 12 * k, 0),
            ("retighten", "idl", 10 * k, 0), ("retighten", "rdl", 10 * k, 0), ("prepend", "idl", 8 * k, 0), ("prepend", "rdl", 8 * k, 0),
            ("prepend_realsat", "idl", 4 * k, 0), ("prepend_realsat", "rdl", 4 * k, 0),
            ("growth", "idl", 2 * k, 0), ("growth", "rdl", 2 * k, 0), ("realsat", "idl", 20 * k, 40), ("realsat", "rdl", 20 * k, 40)]


def prebuild():
    import dl_common
    dl_common.build_harness()
    dl_common.build_oracle()


def run(ctx):
    dl_run.run_check(ctx, "C10", plan(ctx), dl_run.owns_c10,
                     "histories over 3..12 time points (growth: 27..41 from a constructor size of 16, capacities 16->25->38->58), "
                     "bounds in -6..12 (+ halves / thirds and infinitesimals -1,0,1,2 for RDL), several constraints per pair, one "
                     "pair tightened across levels, the same cell tightened 2-3 times within one level (directly and through a third point) then popped "
                     "and re-used, chains built by prepending an edge to 2-3 asserted edges with explanations / conflicts through the new "
                     "cell and partial re-assertion after the pops (also through the real sat_core), both polarities, several enqueues before a drain, creation of constraints and "
                     "variables in between, pops; non-trivial = distinct dumped states")


def replay(path):
    return dl_run.replay("C10", path)
