"""C13 -- reified boolean constructs are equivalent to the formula they stand for.

Pipeline (DESIGN.md 7-C13, notes/CONVENTIONS.md):
  1. prove props/Properties_C13.v (theorems about the Gallina model coq/smt/SatEnc.v of sat_core's encodings);
  2. build the extracted model (oracle) and the harness from /repo's CURRENT sources;
  3. run both on the same construction histories (corpus, hand-written corners, seeded random) and compare, after every
     operation, the returned literal, nvars, the root value of every variable, the clause database as a sorted set of
     sorted literal lists and the whole expression cache (printed key -> literal);
  4. judge the IMPLEMENTATION directly: for histories with at most JUDGE_VARS variables the harness enumerates every
     total assignment of its own clause set and evaluates the two statements of the property (this is the
     failing-input search); moreover EVERY request is judged right after it, whatever the number of variables, by a small DPLL
     solver on the implementation's clause set (no model may give the returned literal a value its formula forbids);
     a disagreement with the model that the judge cannot turn into a failing input is a broken
     correspondence (no-failing-input-found).
"""
import json
import os
import sys

import vlib
import satenc_gen

LEVEL = "proof"
JUDGE_VARS = 21
OPNAME = {"E": "new_eq", "A": "new_conj", "O": "new_disj", "M": "new_at_most_one", "X": "new_exct_one",
          "C": "new_clause", "V": "new_var", "P": "propagate"}
EXTRACT = ("From Coq Require Import Extraction ExtrOcamlBasic.\nFrom ORatio Require Import smt.SatEnc smt.Ov smt.SatKeys.\n"
           "Extraction Language OCaml.\nSet Extraction Optimize.\nExtraction \"satenc_model.ml\" x_step init_state str_key str_ov_key.\n")


def build():
    hexe, hlog = vlib.cxx_build("h_satenc", "h_satenc.cpp", vlib.SMT_SRC, vlib.SMT_INC)
    oexe, olog = vlib.ocaml_build("satenc", ["smt/SatEnc.vo", "smt/Ov.vo", "smt/SatKeys.vo"], EXTRACT, [("satenc_io.ml", None), ("satenc_main.ml", None)])
    return hexe, hlog, oexe, olog


def prebuild():
    build()


def render(h, judge=True):
    """Protocol lines; with judge=True every request is followed by JQ (semantic judge of that request on the clause set as it is
    then, any number of variables) and the history ends with the truth-table judge J (small histories only)."""
    lines = ["R"]
    for op, toks in h.lines:
        lines.append(" ".join([op] + [str(t) for t in toks]))
        if judge and op in satenc_gen.KINDS:
            lines.append("JQ")
    if judge:
        lines.append("J %d" % JUDGE_VARS)
    return lines


def run_exe(exe, lines, timeout=600):
    r = vlib.run([exe], stdin="\n".join(lines) + "\n", timeout=timeout)
    return r, (r.out.split("\n") if r.out else [])


def hist_from_lines(lines):
    h = satenc_gen.Hist()
    for ln in lines:
        tk = ln.split()
        if not tk or tk[0] in ("R", "J"):
            continue
        h.add(tk[0], [int(t) if t.lstrip("-").isdigit() else t for t in tk[1:]])
        if tk[0] in satenc_gen.KINDS:
            h.nreq += 1
    return h


def drop_line(h, i):
    """History without line i (None when a later line refers to its result)."""
    op, _ = h.lines[i]
    k = None
    if op in satenc_gen.KINDS:
        k = sum(1 for o, _ in h.lines[:i] if o in satenc_gen.KINDS)
    out = satenc_gen.Hist()
    for j, (o, toks) in enumerate(h.lines):
        if j == i:
            continue
        nt = []
        for t in toks:
            if isinstance(t, str) and k is not None:
                neg = t.startswith("~")
                idx = int(t[2:] if neg else t[1:])
                if idx == k:
                    return None
                if idx > k:
                    idx -= 1
                t = ("~$%d" if neg else "$%d") % idx
            nt.append(t)
        out.add(o, nt)
    return out


def shrink(h, still_fails, budget=60):
    changed = True
    while changed and budget > 0:
        changed = False
        for i in range(len(h.lines) - 1, -1, -1):
            if budget <= 0:
                break
            if h.lines[i][0] == "V":
                continue
            c = drop_line(h, i)
            if c is None:
                continue
            budget -= 1
            if still_fails(c):
                h, changed = c, True
                break
    # shorten argument lists
    for i in range(len(h.lines)):
        op, toks = h.lines[i]
        if op in ("A", "O", "M", "X", "C"):
            j = 0
            while j < len(h.lines[i][1]) and budget > 0:
                c = satenc_gen.Hist()
                c.lines = [(o, list(t)) for o, t in h.lines]
                del c.lines[i][1][j]
                budget -= 1
                if still_fails(c):
                    h = c
                else:
                    j += 1
    return h


def first_diff(lines, il, ml):
    """Index of the first line where the implementation and the model disagree (None if none). J lines are not compared;
    after a propagate() that finds a conflict at root level only its result is compared and the rest of the history is
    skipped (the partially propagated assignment depends on the propagation order)."""
    for k, ln in enumerate(lines):
        if ln.startswith("J"):
            continue
        a = il[k] if k < len(il) else "<missing>"
        b = ml[k] if k < len(ml) else "<missing>"
        if ln == "P" and (a.startswith("r=0") or b.startswith("r=0")):
            return None if a.split(" ")[0] == b.split(" ")[0] else k
        if a != b:
            return k
    return None


class Campaign:
    def __init__(self, ctx):
        self.ctx = ctx
        self.done = False
        self.spec_hits = []
        self.corr_hits = []
        self.built = None

    def judge_failure(self, hexe, h):
        """Run the truth-table judge of the harness on one history; returns the failure text or None."""
        _, out = run_exe(hexe, render(h))
        for ln in out:
            if ln.startswith("J FAIL"):
                return ln
        return None

    def report_spec(self, hexe, h, fail_line, origin):
        ctx = self.ctx
        tk = fail_line.split()
        kind = tk[2]
        opi = None
        for t in tk:
            if t.startswith("op="):
                opi = int(t[3:])
        reqs = [(o, a) for o, a in h.lines if o in satenc_gen.KINDS]
        opn = OPNAME.get(reqs[opi][0], "?") if opi is not None and opi < len(reqs) else "definition"
        sig = "sat:%s:%s" % (opn, kind)
        if sig in self.spec_hits:
            return
        self.spec_hits.append(sig)

        def still(c):
            f = self.judge_failure(hexe, c)
            return f is not None and f.split()[2] == kind
        hs = shrink(h, still)
        f2 = self.judge_failure(hexe, hs) or fail_line
        _, out = run_exe(hexe, render(hs))
        ctx.violation(sig, {"kind": "implementation-violates-property-statement", "origin": origin,
                            "history": render(hs), "implementation_output": out[:len(render(hs))],
                            "judge": f2,
                            "statement": ("meaning: in every total assignment satisfying the implementation's clauses and root values the returned literal "
                                          "equals (eq/conj/disj) or implies (at-most-one/exactly-one over the distinct arguments) its formula"
                                          if kind == "meaning" else
                                          "exclusion: an assignment of the user's variables that satisfies the user's clauses and the cardinality "
                                          "constraint has no model in which the returned literal is true (or no model at all)"),
                            "replay_cmd": "printf '%s\\n' | %s" % ("\\n".join(render(hs)), hexe)})

    def run(self):
        if self.done:
            return
        self.done = True
        ctx = self.ctx
        cov = ctx.cov
        hexe, hlog, oexe, olog = build()
        self.built = (hexe, oexe)
        if not hexe:
            ctx.violation("build:h_satenc", {"kind": "harness-build-failed", "log": hlog[-3000:]}, no_input=True)
            return
        if not oexe:
            ctx.violation("build:oracle_satenc", {"kind": "oracle-build-failed", "log": olog[-3000:]}, no_input=True)
            return
        rng = ctx.rng
        hists = []
        cdir = os.path.join(vlib.VERIF, "corpus", "C13")
        ncorpus = 0
        if os.path.isdir(cdir):
            for f in sorted(os.listdir(cdir)):
                if f.endswith(".txt"):
                    hists.append(hist_from_lines(open(os.path.join(cdir, f)).read().split("\n")))
                    hists[-1].tags.add("corpus")
                    ncorpus += 1
        hists += satenc_gen.corner_histories()
        n_small = 2500 if not ctx.thorough else 24000
        n_big = 250 if not ctx.thorough else 2500
        for _ in range(n_small):
            hists.append(satenc_gen.gen_history(rng))
        for _ in range(n_big):
            hists.append(satenc_gen.gen_history(rng, big=True))
        for _ in range(n_big):
            hists.append(satenc_gen.gen_grid_history(rng))
        for _ in range(60 if not ctx.thorough else 500):
            hists.append(satenc_gen.gen_wide_history(rng))
        lines, owner = [], []
        for hi, h in enumerate(hists):
            for ln in render(h):
                lines.append(ln)
                owner.append(hi)
        r1, impl = run_exe(hexe, lines, timeout=1200)
        r2, model = run_exe(oexe, lines, timeout=1200)
        if len(impl) < len(lines):
            k = min(len(impl), len(lines) - 1)
            ctx.violation("sat:crash", {"kind": "implementation-aborted", "history": render(hists[owner[k]]), "rc": r1.rc, "stderr": r1.err[-800:]})
            self.spec_hits.append("crash")
            return
        if len(model) < len(lines):
            ctx.violation("corr:satenc:oracle-aborted", {"kind": "oracle-aborted", "rc": r2.rc, "stderr": r2.err[-800:]}, no_input=True)
            return
        dist = {}
        ops = judged = judged_skipped = weak = 0
        nontrivial = set()
        ok_hist = 0
        mism_hist = []
        judge_fail = []
        pos = 0
        req_judged = 0
        for hi, h in enumerate(hists):
            n = len(render(h))
            il, ml = impl[pos:pos + n], model[pos:pos + n]
            hl = lines[pos:pos + n]
            pos += n
            for t in h.tags:
                dist[t] = dist.get(t, 0) + 1
            bad = first_diff(hl, il, ml)
            ops += sum(1 for ln in hl if not ln.startswith("J"))
            failed = None
            for k in range(n):
                if hl[k] == "JQ":
                    if il[k].startswith("J FAIL") and failed is None:
                        failed = il[k]
                    elif il[k].startswith("J ok"):
                        req_judged += 1
            jl = il[n - 1]
            if failed is None and jl.startswith("J FAIL"):
                failed = jl
            if failed is not None:
                judge_fail.append((hi, failed))
            elif jl.startswith("J ok"):
                if "skipped" in jl:
                    judged_skipped += 1
                else:
                    judged += 1
                    if " WEAK " in jl:
                        weak += 1
                        cov.setdefault("strong_conservativity_notes", [])
                        if len(cov["strong_conservativity_notes"]) < 3:
                            cov["strong_conservativity_notes"].append({"history": hl, "judge": jl})
            if bad is None:
                ok_hist += 1
                if len(h.lines) > h.nuser:
                    nontrivial.add(tuple(hl))
            else:
                mism_hist.append((hi, bad, hl, il, ml))
        # classification ----------------------------------------------------------------------------------
        for hi, jl in judge_fail[:20]:
            self.report_spec(hexe, hists[hi], jl, "judge")
        for hi, bad, hl, il, ml in mism_hist[:20]:
            if self.spec_hits:
                break
            h = hists[hi]
            # the model and the implementation differ: does the implementation violate the property on this history?
            f = self.judge_failure(hexe, h)
            if f:
                self.report_spec(hexe, h, f, "differential")
                continue
            opn = OPNAME.get(hl[bad].split()[0], hl[bad].split()[0])
            sig = "corr:satenc:" + opn
            if sig not in self.corr_hits:
                self.corr_hits.append(sig)

                def still(c, oexe=oexe, hexe=hexe):
                    ls = render(c, judge=False)
                    _, a = run_exe(hexe, ls)
                    _, b = run_exe(oexe, ls)
                    return first_diff(ls, a, b) is not None
                hs = shrink(h, still)
                ls = render(hs, judge=False)
                _, a = run_exe(hexe, ls)
                _, b = run_exe(oexe, ls)
                ctx.violation(sig, {"kind": "model-differs-from-implementation", "correspondence": "corr:satenc (coq/smt/SatEnc.v vs smt/sat_core.cpp)",
                                    "history": ls, "implementation": a[:len(ls)], "model": b[:len(ls)],
                                    "note": "the truth-table judge found no violation of the property on this history"}, no_input=True)
        cov["evaluations"] = ops
        cov["histories"] = len(hists)
        cov["corpus_histories"] = ncorpus
        cov["traces_validated_against_impl"] = ok_hist
        cov["model_vs_impl_mismatching_histories"] = len(mism_hist)
        cov["judged_by_truth_table"] = judged
        cov["requests_judged_right_after_the_request"] = req_judged
        cov["judge_skipped_more_than_%d_vars" % JUDGE_VARS] = judged_skipped
        cov["judge_failures"] = len(judge_fail)
        cov["strong_conservativity_notes_count"] = weak
        cov["distinct_nontrivial"] = len(nontrivial)
        cov["input_distribution"] = dict(sorted(dist.items()))
        cov["rule"] = ("corpus + hand-written corners + seeded random construction histories over 2-6 (small) / 8-24 (big) user variables: unit/user clauses, "
                       "propagate, new_eq/new_conj/new_disj/new_at_most_one/new_exct_one with 0..20 arguments incl. 3,4,5,9,10,16,17, duplicates, "
                       "complementary pairs, a/!a/a interleaving, constants, nested results, permuted repeats; wide histories with 60-150 variables (1-, 2- and "
                       "3-digit indices), new_var interleaved with runs of distinct requests incl. digit-wise re-splittings of one digit string in both polarities; non-trivial = history with at least one "
                       "operation beyond new_var, counted as distinct protocol texts")
        for hi in range(0, len(hists), max(1, len(hists) // 6)):
            ctx.sample({"history": render(hists[hi], judge=False)[1:]})
        cov["trusted_base"] += [
            "harness/h_satenc.cpp + harness/satenc_common.h (reads sat_core::assigns/constrs/exprs via #define private public; truth-table judge), "
            "oracle/satenc_*.ml, tools/satenc_gen.py",
            "Section hypotheses of proofs/SatEnc_Proofs.v: std::sort returns a permutation of its input (sortv) / a permutation sorted by lit::operator< (sortl); "
            "ceil(sqrt((double)n)) lies in [2, n) for n >= 4 (proved for the integer ceiling root used by the extracted model)",
            "expression-cache keys: the model keys the cache structurally; the printers of the C++ key strings are modelled (smt/SatKeys.v) and PROVED injective "
            "(C13_key_injective, C13_lookup_by_printed_key), and the differential compares the C++ key strings with the extracted printer's output",
        ]
        ctx.assumptions += [
            "tie bound: argument lists handed to new_conj/new_disj/new_clause have fewer than 16 elements or pairwise distinct variables "
            "(the extracted model sorts with a stable insertion sort, libstdc++'s std::sort is one below 16 elements); the theorems hold for every sort",
            "no theory is attached to the sat_core of the harness; histories stay at root level",
        ]


def run(ctx):
    camp = Campaign(ctx)

    def search(res):
        camp.run()
        return bool(camp.spec_hits)
    res = vlib.proof_stage(ctx, search=search)
    camp.run()
    if ctx.thorough and res.get("ok") and hasattr(vlib, "coqchk_stage"):
        vlib.coqchk_stage(ctx)


def replay(path):
    d = json.load(open(path))
    hexe, hlog, oexe, olog = build()
    lines = d.get("history")
    if not lines:
        print("replay has no history (broken proof / build): re-run `verif.py C13 quick`")
        return 1
    if not lines[-1].startswith("J"):
        lines = lines + ["J %d" % JUDGE_VARS]
    _, a = run_exe(hexe, lines)
    _, b = run_exe(oexe, lines)
    rc = 0
    bad = first_diff(lines, a, b)
    for k, (ln, x, y) in enumerate(zip(lines, a, b)):
        print("%-30s impl: %s" % (ln, x))
        if bad is not None and k == bad:
            print("%-30s model: %s" % ("", y))
            rc = 1
        if x.startswith("J FAIL"):
            rc = 1
    print("VIOLATION reproduced" if rc else "not reproduced")
    return rc
