"""C19 -- the executor dispatches the plan in time order and keeps it valid.

Pipeline (DESIGN.md 7-C19, notes/CONVENTIONS.md):
  1. build harness/h_exec.cpp against /repo's current planner + executor sources; generate small temporal problems
     (Interval / Impulse goals, precedence constraints, state variables, sub-goals, disjunctions) and client scripts
     (delays 1, 2, 5, fractional, zero / negative, bursts on one atom, delayed ends, failures, stale requests);
     corpus/C19 first.  Every run prints the event trace and the plan after every (re-)solve.
  2. K2: judge the PROPERTY on the implementation's trace (tools/exec_lib.judge: time, at most once, start before end,
     not before the planned time, not in the tick of a delay, nothing due left pending, started atoms not moved,
     every adapted plan re-checked against the problem).  A violating trace is a VIOLATION with (problem, script).
  3. prove props/Properties_C19.v (model coq/plan/Exec.v).
  4. K1 tie: run the extracted model on the same script AND the same sequence of re-solved plans (the Section oracle
     `resolve` is instantiated with the plans observed on the implementation); the event traces must be equal and the
     model's contract check (verified: c19_contract_checker_sound) must accept every observed re-solve.  The models of
     the code before the proposed fixes (cfg cut_by_time / clamp_delay) are tried when the repaired model disagrees.
"""
import glob
import json
import os
import re
from concurrent.futures import ThreadPoolExecutor
from fractions import Fraction as F

import vlib
import exec_lib as X

LEVEL = "proof"
PENDING = os.path.join(vlib.VERIF, "notes/fixes/C19-pending.json")
CORPUS = os.path.join(vlib.VERIF, "corpus/C19")


def load_pending():
    if not os.path.exists(PENDING) or os.environ.get("C19_NO_PENDING"):
        return {}
    return {e["signature"]: e for e in json.load(open(PENDING))}


def report(ctx, pending, sig, replay, no_input=False):
    """ctx.violation, except that signatures listed in notes/fixes/C19-pending.json (defects with a proposed patch that
    the coordinator has not committed yet) are printed as KNOWN-FINDING."""
    if sig in pending:
        if sig not in ctx.known_hits:
            ctx.known_hits.append(sig)
            print("KNOWN-FINDING: property=C19 %s [%s; pending fix %s]" % (pending[sig].get("what", sig), sig, pending[sig].get("patch", "?")), flush=True)
        return
    ctx.violation(sig, replay, no_input=no_input)


def prebuild():
    X.build_harness()
    X.build_oracle()
    vlib.coq_build(["props/Properties_C19.vo"])


def corpus_cases():
    out = []
    for f in sorted(glob.glob(os.path.join(CORPUS, "*.json"))):
        d = json.load(open(f))
        out.append({"name": "corpus:" + os.path.basename(f)[:-5], "expect_no_exception": d.get("expect_no_exception", False),
                    "stdin": d["stdin"], "units": F(d["units"]),
                    "problem": d["problem"], "script": [l for l in d["stdin"].split("\nrddl\n")[0].split("\n")], "profile": "corpus",
                    "stats": {}})
    return out


def gen_cases(ctx, n):
    rng = ctx.rng
    out = []
    for i in range(n):
        pr, prof = X.gen_problem(rng)
        odd = (i % 2 == 1)
        sc, units, st = X.gen_script(rng, pr, prof, odd=odd)
        out.append({"name": "g%d" % i, "stdin": X.harness_input(sc + ["limit 20"], pr.text()), "units": units,
                    "problem": pr.to_json(), "script": sc, "profile": prof + ("+odd" if odd else ""), "stats": st})
    return out


def run_harness(exe, case):
    r = vlib.run([exe], stdin=case["stdin"], timeout=60)
    return r


def judge_case(case, r):
    items = X.parse_trace(r.out)
    if not any(it[0] == "solved" and it[1] == 1 for it in items):
        return items, None, None
    V, info = X.judge(case["problem"], items, case["units"], crashed=(r.err or "")[-400:] if r.rc != 0 else None)
    return items, V, info


def shrink(exe, case, sig, budget=80):
    """Drop script lines while the violation with the same signature persists (cheap: one harness run is a few ms)."""
    head, rddl = case["stdin"].split("\nrddl\n", 1)
    lines = head.split("\n")
    keep = [l for l in lines]
    i = 0
    runs = 0
    while i < len(keep) and runs < budget:
        w = keep[i].split()
        if not w or w[0] not in ("s", "e", "ps", "pe", "f"):
            i += 1
            continue
        trial = keep[:i] + keep[i + 1:]
        c2 = dict(case, stdin="\n".join(trial) + "\nrddl\n" + rddl)
        r = run_harness(exe, c2)
        runs += 1
        _, V, _ = judge_case(c2, r)
        if V and any(s == sig for s, _ in V):
            keep = trial
        else:
            i += 1
    return dict(case, stdin="\n".join(keep) + "\nrddl\n" + rddl, script=keep)


def run(ctx):
    cov = ctx.cov
    pending = load_pending()
    cov["pending_fixes"] = sorted(pending)
    # 1. build + run the implementation ------------------------------------------------------------------------
    exe, log = X.build_harness()
    if not exe:
        ctx.violation("build:h_exec", {"kind": "harness-build-failed", "log": log[-3000:]}, no_input=True)
        return
    n = 400 if not ctx.thorough else 30000
    cases = corpus_cases() + gen_cases(ctx, n)
    with ThreadPoolExecutor(8) as ex:
        results = list(ex.map(lambda c: run_harness(exe, c), cases))
    ctx.log("ran %d sessions on the implementation" % len(cases))

    # 2. K2 judge ----------------------------------------------------------------------------------------------
    k2_hits = {}
    judged = []
    stat = {"sessions": 0, "unsolved_or_rejected": 0, "ticks": 0, "starts": 0, "ends": 0, "resolves": 0, "raised": 0,
            "abnormal": 0, "delays_requested": 0, "failures": 0}
    dist = {}
    for case, r in zip(cases, results):
        items, V, info = judge_case(case, r)
        if V is None:
            stat["unsolved_or_rejected"] += 1
            continue
        stat["sessions"] += 1
        stat["ticks"] += info["ticks"]
        stat["eps_dispatched"] = stat.get("eps_dispatched", 0) + info["eps_dispatched"]
        stat["eps_boundary"] = stat.get("eps_boundary", 0) + info["eps_boundary"]
        stat["sessions_with_eps_boundary"] = stat.get("sessions_with_eps_boundary", 0) + (1 if info["eps_boundary"] else 0)
        stat["starts"] += info["started"]
        stat["ends"] += info["ended"]
        stat["raised"] += 1 if any(it[0] == "exception" for it in items) else 0
        stat["abnormal"] += 1 if info["status"] == "crashed" else 0
        stat["delays_requested"] += sum(1 for it in items if it[0] in ("dsy", "dey", "pre-dsy", "pre-dey"))
        stat["failures"] += sum(1 for it in items if it[0] == "failure")
        dist[case["profile"]] = dist.get(case["profile"], 0) + 1
        if case.get("expect_no_exception") and (any(it[0] == "exception" for it in items) or info["status"] == "crashed"):
            # corpus scenarios in which an adapted plan is known to exist (established by hand, see the entry's text)
            V.append(("exec:refused-feasible-adaptation", "%s: the executor raised although an adapted plan exists" % case["name"]))
        judged.append((case, r, items, V, info))
        seen_sig = set()
        for sig, detail in V:
            if sig not in seen_sig:
                seen_sig.add(sig)
                k2_hits.setdefault(sig, []).append((case, detail))
    # referee for refused adaptations: on problems without sub-goals, when the executor raises after a delay, a fresh
    # planner is asked whether a plan with the frozen values and the requested lower bounds exists
    ref_jobs = []
    for (case, r, items, V, info) in judged:
        if [sg for sg, _ in V if not sg.startswith("exec:terminate")]:
            continue    # the trace already violates the property: the refusal may be a consequence
        if any(it[0] == "exception" for it in items) or info["status"] == "crashed":
            ri = X.referee_input(case["problem"], [it if it[0] != "hang" else ("exception", "hang") for it in items] +
                                 ([("exception", "crash")] if info["status"] == "crashed" else []), case["units"])
            if ri:
                ref_jobs.append((case, ri))
    stat["refusals_refereed"] = len(ref_jobs)
    stat["refusals_confirmed_infeasible"] = 0
    if ref_jobs:
        with ThreadPoolExecutor(8) as ex:
            ref_res = list(ex.map(lambda j: vlib.run([exe], stdin=j[1][0], timeout=60), ref_jobs))
        for (case, (rin, cons)), rr in zip(ref_jobs, ref_res):
            feasible, plan = X.referee_verdict(case["problem"], rr.out, cons)
            if feasible:
                # not a violation: the executor gives up as soon as xi is refuted under the decisions taken before it (for
                # instance the planner's choice to equate two durations); a fresh search may still find a plan
                stat["refusals_feasible_for_a_fresh_planner"] = stat.get("refusals_feasible_for_a_fresh_planner", 0) + 1
            else:
                stat["refusals_confirmed_infeasible"] += 1
    # coverage floor: the successful adaptation paths must have been exercised, otherwise "no violation" means nothing
    adapt = {"start_delay_adapted": 0, "end_delay_adapted": 0, "failure_adapted": 0}
    for (case, r, items, V, info) in judged:
        last = None
        for it in items:
            if it[0] in ("dsy", "dey"):
                last = it[0]
            elif it[0] == "failure":
                last = "failure"
            elif it[0] in ("exception", "call", "return", "tick", "start", "end"):
                last = None
            elif it[0] == "plan" and it[1] != "final" and last:
                adapt[{"dsy": "start_delay_adapted", "dey": "end_delay_adapted", "failure": "failure_adapted"}[last]] += 1
                last = None
    stat.update(adapt)
    floor = 100 if not ctx.thorough else 3000
    for k in ("start_delay_adapted", "end_delay_adapted"):
        if adapt[k] < floor and stat["sessions"] > 100:
            report(ctx, pending, "corr:exec:coverage:" + k,
                   {"kind": "adaptation-path-not-exercised", "correspondence": "corr:exec (coverage floor of the generated sessions)",
                    "what": "%s = %d < %d: the executor (almost) never adapts the plan successfully after this kind of request" % (k, adapt[k], floor),
                    "sessions": stat["sessions"], "raised": stat["raised"]}, no_input=True)
    for sig, lst in sorted(k2_hits.items()):
        case, detail = lst[0]
        if sig in pending:
            report(ctx, pending, sig, {})
            continue
        small = shrink(exe, case, sig) if not case["name"].startswith("corpus:") and sig != "exec:refused-feasible-adaptation" and not sig.startswith("exec:hang") else case
        r = run_harness(exe, small)
        report(ctx, pending, sig,
               {"kind": "implementation-trace-violates-the-property", "what": detail, "cases_with_this_signature": len(lst),
                "session": small["name"], "stdin": small["stdin"], "units": str(small["units"]), "problem": small["problem"],
                "trace": r.out[-6000:], "stderr": (r.err or "")[-500:],
                "replay_cmd": "python3 tools/verif.py C19 replay <this file>   (or: %s < stdin-field)" % exe})

    # 3. proofs ------------------------------------------------------------------------------------------------
    res = vlib.proof_stage(ctx, search=lambda res_: bool([s for s in k2_hits if s not in pending]))
    if ctx.thorough and res.get("ok"):
        vlib.coqchk_stage(ctx)

    # 4. the extracted model on the observed sessions -------------------------------------------------------------
    oexe, olog = X.build_oracle()
    if not oexe:
        ctx.violation("build:oracle_exec", {"kind": "oracle-build-failed", "log": olog[-3000:]}, no_input=True)
        return
    sess = {}
    for k, (case, r, items, V, info) in enumerate(judged):
        s = X.session_of(items, case["units"], case["script"])
        if s:
            sess[k] = s
    ro = vlib.run([oexe], stdin=X.oracle_input([("c%d" % k, "fixed", s) for k, s in sess.items()]), timeout=600)
    mods = X.parse_oracle(ro.out)
    disagree = [k for k, s in sess.items() if not X.agree(s, mods.get("c%d" % k))[0]]
    explained = {}
    unexplained = []
    if disagree:
        for cfg in ("pinned", "cut-fixed-only", "clamp-fixed-only"):
            todo = [k for k in disagree if k not in explained]
            if not todo:
                break
            r2 = vlib.run([oexe], stdin=X.oracle_input([("c%d" % k, cfg, sess[k]) for k in todo]), timeout=600)
            m2 = X.parse_oracle(r2.out)
            for k in todo:
                if X.agree(sess[k], m2.get("c%d" % k))[0]:
                    explained[k] = cfg
        unexplained = [k for k in disagree if k not in explained]
    events = sum(len(s["expected"]) for s in sess.values())
    stat["resolves"] = sum(sum(1 for e in s["expected"] if e == "replan") for s in sess.values())
    cov["traces_validated_against_impl"] = len(sess) - len(disagree)
    cov["model_vs_impl"] = {"sessions_compared": len(sess), "events_compared": events, "agree_with_repaired_model": len(sess) - len(disagree),
                            "agree_only_with_model_of_unrepaired_code": {c: sum(1 for v in explained.values() if v == c) for c in set(explained.values())},
                            "no_model_agrees": len(unexplained)}
    # a concrete failing input found by the judge is reported in preference to a correspondence break: the break is
    # then only recorded in the evidence (it is the same change seen from the model's side)
    concrete = sorted(sg for sg in k2_hits if sg not in pending)
    cov["model_vs_impl"]["correspondence_breaks_not_reported_because_of_concrete_violations"] = bool(concrete and disagree)
    for cfg in sorted(set(explained.values())) if not concrete else []:
        k = next(k for k, v in explained.items() if v == cfg)
        case = judged[k][0]
        ok, why = X.agree(sess[k], mods.get("c%d" % k))
        report(ctx, pending, "corr:exec:unrepaired:" + cfg,
               {"kind": "implementation-follows-the-model-of-the-unrepaired-code", "correspondence": "corr:exec (coq/plan/Exec.v, cfg %s)" % cfg,
                "theorem": "ORatio.props.Properties_C19.c19_pinned_refuted_end_without_start / c19_unclamped_refuted_start_in_delayed_tick",
                "difference_with_repaired_model": why, "sessions": sum(1 for v in explained.values() if v == cfg),
                "session": case["name"], "stdin": case["stdin"], "units": str(case["units"])}, no_input=True)
    for k in [k for k in unexplained if not judged[k][3]][:1] if not concrete else []:
        case, r, items, V, info = judged[k]
        ok, why = X.agree(sess[k], mods.get("c%d" % k))
        m = mods.get("c%d" % k) or {}
        sigs = [s for s, _ in V]
        if sigs:
            continue   # the implementation's trace violates the property itself: reported above with its own signature
        report(ctx, pending, "corr:exec:" + (m.get("status") or "?").split()[0],
               {"kind": "model-differs-from-implementation", "correspondence": "corr:exec (coq/plan/Exec.v vs executor/executor.cpp)",
                "difference": why, "model_status": m.get("status"), "session": case["name"], "stdin": case["stdin"],
                "units": str(case["units"]), "model_events": m.get("events", [])[-40:], "implementation_events": sess[k]["expected"][-40:],
                "sessions_without_agreement": len(unexplained)}, no_input=True)
    n_unexpl_with_k2 = sum(1 for k in unexplained if judged[k][3])
    cov["model_vs_impl"]["no_model_agrees_but_trace_violates_property"] = n_unexpl_with_k2

    # 5. evidence ----------------------------------------------------------------------------------------------
    cov["evaluations"] = events
    cov["distinct_nontrivial"] = len({judged[k][0]["stdin"] for k, s in sess.items() if "replan" in s["expected"]})
    cov["rule"] = ("generated temporal problems (2-4 Interval + 0-2 Impulse predicates, optional StateVariable with 1-2 instances, sub-goals and "
                   "disjunctions in rules, 2-6 goals, precedence / equal-start / within / bound constraints with integer or fractional constants, "
                   "some strict; one problem in four is of the class 'eps': integer constants, STRICT constraints `a.start > b.end + c`, `a.start < b.start`, `x.at > c`, `a.start < c`, so that planned times are t + k*epsilon with t the time of a tick - tick unit 1 or 1/2, delays multiples of it - and \"planned at t + eps\" differs from \"dispatched in the tick of time t\"; all comparisons of the judge are on (rational, infinitesimal) pairs) x scripts (tick unit 1, 1/2, 3/2, 2; delays of starts and ends by 1, 2, 5, 1/2, 1/3, 3/2, 7/4, 1/4; every second "
                   "script also 0, -1, -1/2; bursts of 2-3 delays on one atom; failure() of atoms of disjunctive sub-goals; requests made outside "
                   "the callbacks); non-trivial = at least one re-solve during execution")
    cov["input_distribution"] = dist
    cov["sessions"] = stat
    cov["k2_violation_signatures_sessions"] = {s: len(l) for s, l in k2_hits.items()}
    for (case, r, items, V, info) in judged[:: max(1, len(judged) // 6)]:
        ctx.sample({"session": case["name"], "profile": case["profile"], "ticks": info["ticks"], "starts": info["started"], "ends": info["ended"],
                    "resolves": sum(1 for it in items if it[0] == "plan") - 2, "status": info["status"]})
    cov["trusted_base"] += [
        "the planner's re-solve (solver::solve, backtracking, sat_core::propagate, executor::propagate re-imposing the adaptations) is the Section "
        "variable `resolve` of coq/plan/Exec.v; its contract -- (a) the answer is a valid solution (distinct atoms, start <= end), (b) it respects every "
        "bound imposed under the executor's xi literal (frozen starts / ends, delayed atoms beyond current_time), (c) atom identities are stable -- is "
        "C01 + C09 at the planner level; it is not assumed but CHECKED on every re-solve observed in this run by the extracted contract_okb "
        "(c19_contract_checker_sound), and by tools/exec_lib.check_plan against the generated problem",
        "units_per_tick > 0 and the executor is attached before the problem is read (constructor preconditions of ratio::executor)",
        "harness/h_exec.cpp (scripted executor_listener, plan printing through #define private public), tools/exec_lib.py (generator, trace parser, "
        "python judge with exact Fractions), oracle/exec_main.ml",
        "freezing a value at its current value never conflicts (executor.cpp's conflict branches after set(val, val) are not modelled)",
    ]
    ctx.assumptions += ["times and delays are exact rationals below 2^31 (no machine overflow in smt::rational)",
                        "the client calls dont_start_yet / dont_end_yet / failure from the starting / ending callbacks or between ticks (not from start / end / tick callbacks)"]


def replay(path):
    d = json.load(open(path))
    exe, log = X.build_harness()
    if not exe:
        print("harness build failed")
        return 1
    case = {"stdin": d["stdin"], "units": F(d["units"]), "problem": d.get("problem", {"preds": {}, "goals": [], "cons": []})}
    r = run_harness(exe, case)
    print(r.out[-8000:])
    items, V, info = judge_case(case, r)
    for s, det in (V or []):
        print("K2:", s, det)
    hit = any(s == d.get("signature") for s, _ in (V or []))
    print("signature %s %s" % (d.get("signature"), "reproduced" if hit else "NOT reproduced"))
    return 1 if hit else 0
