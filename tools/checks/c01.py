"""C01 -- see tools/plan_check.py (common pipeline of the plan checks) and DESIGN.md section 7 (C01).
K2: verified checker (coq/plan/Check.v, soundness in coq/proofs, property file coq/props/Properties_C01.v) run on every solution the
real planner reports for generated problems; K1 lemmas on the regenerated INIT_STRING / hand models of the anchored code."""
import plan_check
import plan_run

LEVEL = "proof"
PROP = "C01"


def regenerate_all():
    plan_run.regenerate()


def prebuild():
    plan_run.regenerate()
    plan_run.build_oracle()
    plan_run.build_harness("default")


def run(ctx):
    plan_check.run(ctx, PROP)


def replay(path):
    return plan_check.replay(PROP, path)
