"""C15 -- rational, infinitesimal and linear-expression arithmetic is exact.

Pipeline (DESIGN.md 2.2 / 7-C15):
  1. regenerate coq/gen/Gen_arith.v from /repo's rational.cpp + inf_rational.h (tools/cxx2gallina.py)
  2. prove props/Properties_C15.v about the regenerated definitions (and the hand model of lin)
  3. extract the regenerated model, build the C++ harness from /repo's current sources, run both on the same
     generated operations, compare exactly (validates the translator) and judge the implementation's outputs
     with an independent exact specification (python Fractions) -- that is also the failing-input search.
"""
import json
import os
import sys
from fractions import Fraction

import vlib
import cxx2gallina
import arith_tables

LEVEL = "proof"
CLASSES = {"rational": ("rat", [("num", "int"), ("den", "int")]),
           "inf_rational": ("irat", [("rat", "rat"), ("inf", "rat")])}
EXPECT = ["rat_normalize", "rat_ctor_int_int", "rat_add_rat", "rat_sub_rat", "rat_mul_rat", "rat_div_rat",
          "rat_add_int", "rat_sub_int", "rat_mul_int", "rat_div_int", "rat_addeq_rat", "rat_subeq_rat", "rat_muleq_rat",
          "rat_diveq_rat", "rat_addeq_int", "rat_subeq_int", "rat_muleq_int", "rat_diveq_int", "int_add_rat", "int_sub_rat",
          "int_mul_rat", "int_div_rat", "rat_neg", "rat_lt_rat", "rat_le_rat", "rat_eq_rat", "rat_ne_rat", "rat_ge_rat",
          "rat_gt_rat", "rat_lt_int", "rat_le_int", "rat_eq_int", "rat_ne_int", "rat_ge_int", "rat_gt_int",
          "irat_add_irat", "irat_sub_irat", "irat_mul_rat", "irat_div_rat", "irat_lt_irat", "irat_le_irat", "irat_eq_irat",
          "irat_neg", "irat_addeq_irat", "irat_muleq_rat", "rat_sub_irat", "int_sub_irat"]


# ------------------------------------------------------------------------------------------------
# 1. regeneration
# ------------------------------------------------------------------------------------------------
def regenerate():
    incs = [os.path.join(vlib.VERIF, "harness/include"), os.path.join(vlib.REPO, "smt"), os.path.join(vlib.REPO, "smt/arith")]
    srcs = [os.path.join(vlib.REPO, "smt/arith/rational.cpp"), os.path.join(vlib.REPO, "smt/arith/inf_rational.h")]
    text, rep = cxx2gallina.translate(srcs, CLASSES, incs, expect=EXPECT)
    with vlib.Lock("coq"):
        changed = vlib.write_if_changed(os.path.join(vlib.COQ, "gen/Gen_arith.v"), text)
    return text, rep, changed


def diff_against_reference(text):
    """Names of generated definitions that differ from the committed reference copy (diagnostics for replays)."""
    ref = os.path.join(vlib.COQ, "gen_ref/Gen_arith.v.ref")
    if not os.path.exists(ref):
        return None

    def split(t):
        out = {}
        for blk in t.split("\n\n"):
            if blk.startswith("Definition "):
                out[blk.split()[1]] = blk
        return out
    a, b = split(open(ref).read()), split(text)
    return sorted(n for n in set(a) | set(b) if a.get(n) != b.get(n))


# ------------------------------------------------------------------------------------------------
# exact specification (independent of the Coq model): extended rationals with python Fractions
# ------------------------------------------------------------------------------------------------
PINF, NINF = "+inf", "-inf"


def ev(n, d):
    if d == 0:
        return PINF if n > 0 else NINF
    return Fraction(n, d)


def isinf(x):
    return x is PINF or x is NINF or x in (PINF, NINF)


def sgn(x):
    if x == PINF:
        return 1
    if x == NINF:
        return -1
    return (x > 0) - (x < 0)


def e_neg(x):
    return NINF if x == PINF else PINF if x == NINF else -x


def e_add(x, y):
    if isinf(x) and isinf(y):
        return x if x == y else None
    if isinf(x):
        return x
    if isinf(y):
        return y
    return x + y


def e_mul(x, y):
    if isinf(x) or isinf(y):
        s = sgn(x) * sgn(y)
        return None if s == 0 else (PINF if s > 0 else NINF)
    return x * y


def e_inv(x):
    if isinf(x):
        return Fraction(0)
    if x == 0:
        return None
    return 1 / x


def e_div(x, y):
    i = e_inv(y)
    return None if i is None else e_mul(x, i)


def e_lt(x, y):
    if x == y:
        return False
    if x == NINF or y == PINF:
        return True
    if x == PINF or y == NINF:
        return False
    return x < y


def canon(x):
    if x == PINF:
        return "1/0"
    if x == NINF:
        return "-1/0"
    return "%d/%d" % (x.numerator, x.denominator)


def p_rat(s):
    n, d = s.split("/")
    return ev(int(n), int(d))


def p_irat(s):
    a, b = s.split(",")
    return (p_rat(a), p_rat(b))


def p_arg(tag, s):
    return {"int": lambda t: Fraction(int(t)), "rat": p_rat, "irat": p_irat}[tag](s)


def c_irat(p):
    if p is None or p[0] is None or p[1] is None:
        return None
    return canon(p[0]) + "," + canon(p[1])


def lift(x):
    return x if isinstance(x, tuple) else (x, Fraction(0))


def spec(sig, args):
    """Expected canonical output for `sig` applied to textual args, or None when the operation is undefined
    (inf - inf, 0 * inf, division by zero, quotient by an infinitesimal-extended number, rational(0, 0))."""
    name = sig["name"]
    tags = list(sig["params"])
    if sig["kind"] == "CXXMethodDecl":
        tags = [CLASSES[sig["cls"]][0]] + tags
    if sig["kind"] == "CXXConstructorDecl":
        ints = [int(a) for a in args if "/" not in a]
        if name == "rat_ctor":
            return "0/1"
        if name == "rat_ctor_int":
            return "%d/1" % ints[0]
        if name == "rat_ctor_int_int":
            n, d = ints
            if n == 0 and d == 0:
                return None
            return canon(ev(n, d))
        if name == "irat_ctor_int":
            return "%d/1,0/1" % ints[0]
        if name == "irat_ctor_int_int":
            n, d = ints
            if n == 0 and d == 0:
                return None
            return canon(ev(n, d)) + ",0/1"
        if name == "irat_ctor_rat":
            return args[0] + ",0/1"
        if name == "irat_ctor_rat_int":
            return args[0] + ",%d/1" % int(args[1])
        if name == "irat_ctor_rat_rat":
            return args[0] + "," + args[1]
        return "?nospec"
    vals = [p_arg(t, a) for t, a in zip(tags, args)]
    parts = name.split("_")
    # unary / predicates / getters
    if name in ("rat_neg",):
        return canon(e_neg(vals[0]))
    if name == "irat_neg":
        return c_irat((e_neg(vals[0][0]), e_neg(vals[0][1])))
    if name == "rat_normalize":
        return args[0]  # canonical inputs are fixed points
    if name == "rat_numerator":
        return args[0].split("/")[0]
    if name == "rat_denominator":
        return args[0].split("/")[1]
    if name == "irat_get_rational":
        return args[0].split(",")[0]
    if name == "irat_get_infinitesimal":
        return args[0].split(",")[1]
    if name.startswith("is_"):
        x = vals[0]
        pred = "_".join(parts[1:-1])
        if isinstance(x, tuple):
            r, i = x
            zero = (r == 0 and i == 0)
            pos = sgn(r) > 0 or (sgn(r) == 0 and sgn(i) > 0)
            neg = sgn(r) < 0 or (sgn(r) == 0 and sgn(i) < 0)
            inf = isinf(r)
        else:
            zero, pos, neg, inf = (x == 0), sgn(x) > 0, sgn(x) < 0, isinf(x)
        table = {"zero": zero, "positive": pos, "negative": neg, "positive_or_zero": pos or zero, "negative_or_zero": neg or zero,
                 "infinite": inf, "positive_infinite": inf and pos, "negative_infinite": inf and neg,
                 "integer": (not inf) and (not isinstance(x, tuple)) and x.denominator == 1}
        if pred not in table:
            return "?nospec"
        return "true" if table[pred] else "false"
    if len(parts) != 3:
        return "?nospec"
    lt, op, rt = parts
    a, b = vals
    irat = isinstance(a, tuple) or isinstance(b, tuple)
    base = op[:-2] if op.endswith("eq") and op not in ("eq",) else op
    if base in ("lt", "le", "eq", "ne", "ge", "gt"):
        if irat:
            a, b = lift(a), lift(b)
            lt_ = e_lt(a[0], b[0]) or (a[0] == b[0] and e_lt(a[1], b[1]))
            eq_ = a[0] == b[0] and a[1] == b[1]
        else:
            lt_, eq_ = e_lt(a, b), a == b
        r = {"lt": lt_, "le": lt_ or eq_, "eq": eq_, "ne": not eq_, "ge": not lt_, "gt": not lt_ and not eq_}[base]
        return "true" if r else "false"
    if not irat:
        if base == "sub":
            b = e_neg(b)
            base = "add"
        r = {"add": e_add, "mul": e_mul, "div": e_div}[base](a, b)
        return None if r is None else canon(r)
    # infinitesimal-extended: a vector space over Q
    if base in ("add", "sub"):
        a, b = lift(a), lift(b)
        if base == "sub":
            b = (e_neg(b[0]), e_neg(b[1]))
        return c_irat((e_add(a[0], b[0]), e_add(a[1], b[1])))
    if base in ("mul", "div"):
        f = e_mul if base == "mul" else e_div
        if isinstance(a, tuple) and not isinstance(b, tuple):
            return c_irat((f(a[0], b), f(a[1], b)))
        if isinstance(b, tuple) and not isinstance(a, tuple):
            if base == "mul":
                return c_irat((f(a, b[0]), f(a, b[1])))
            # scalar / (r + i eps) = k/r - (k i / r^2) eps  (first order in eps; r <> 0)
            if isinf(b[1]) or b[0] == 0:
                return None
            q = e_div(a, b[0])
            r2 = e_mul(b[0], b[0])
            ki = e_mul(a, b[1])
            if q is None or r2 is None or ki is None:
                return None
            return c_irat((q, e_div(e_neg(ki), r2)))
    return "?nospec"


# ------------------------------------------------------------------------------------------------
# generation
# ------------------------------------------------------------------------------------------------
def pools(rng, big):
    ints = [0, 1, -1, 2, -2, 3, -3, 4, 6, -6, 5, -7, 12, 100, -100]
    ints += [rng.randint(-big, big) for _ in range(10)]
    rats = set()
    for n in ints + [rng.randint(-40, 40) for _ in range(20)]:
        for d in (1, 2, 3, 4, 6, 7, 12, 35, rng.randint(1, 60), rng.randint(1, big)):
            f = Fraction(n, d)
            rats.add("%d/%d" % (f.numerator, f.denominator))
    rats = sorted(rats)
    rng.shuffle(rats)
    rats = ["0/1", "1/1", "-1/1", "1/0", "-1/0", "1/2", "-1/2", "2/3", "-3/2", "5/6", "7/6", "-7/12"] + rats[:40]
    fin = [r for r in rats if not r.endswith("/0")]
    irats = ["%s,%s" % (a, b) for a in fin[:14] for b in ("0/1", "1/1", "-1/1", "1/2", "-5/3")] + ["1/0,0/1", "-1/0,0/1"]
    return [str(i) for i in ints], rats, irats


def gen_cases(ctx, sigs, consts):
    rng = ctx.rng
    big = (1 << 20) if not ctx.thorough else (1 << 24)
    ints, rats, irats = pools(rng, big)
    per = 260 if not ctx.thorough else 1500
    cases = []
    undefined = [0]
    for s in sigs:
        tags = list(s["params"])
        if s["kind"] == "CXXMethodDecl":
            tags = [CLASSES[s["cls"]][0]] + tags
        pool = {"int": ints, "rat": rats, "irat": irats}
        if not tags:
            cases.append((s, []))
            continue
        seen = set()
        # boundary grid first, then random
        grid = []
        if len(tags) == 1:
            grid = [[x] for x in pool[tags[0]]]
        elif len(tags) == 2:
            grid = [[x, y] for x in pool[tags[0]][:14] for y in pool[tags[1]][:14]]
        for g in grid[:per]:
            seen.add(tuple(g))
        tries = 0
        while len(seen) < per and tries < per * 4:
            tries += 1
            seen.add(tuple(rng.choice(pool[t]) for t in tags))
        for a in sorted(seen):
            if s["name"] in ("rat_ctor_int_int", "irat_ctor_int_int") and int(a[0]) == 0 and int(a[1]) == 0:
                continue  # rational(0, 0): integer division by zero (UB) in C++, outside the property's domain
            if spec(s, list(a)) is None:
                undefined[0] += 1  # inf - inf, 0 * inf, x / 0, scalar / (r + i eps): outside the property's domain (the C++ asserts on them)
                continue
            cases.append((s, list(a)))
    ctx.cov["undefined_operations_skipped"] = undefined[0]
    for c in consts:
        cases.append(({"name": c, "kind": "const", "params": [], "cls": None}, []))
    return cases


def classify(args):
    k = []
    for a in args:
        for piece in a.split(","):
            if piece.endswith("/0"):
                k.append("inf")
            elif piece.startswith("0/") or piece == "0":
                k.append("zero")
            elif piece in ("1/1", "-1/1", "1", "-1"):
                k.append("unit")
            elif "/" in piece and not piece.endswith("/1"):
                k.append("frac")
            else:
                k.append("int")
    return "+".join(sorted(set(k)))


def regenerate_all():
    regenerate()


def prebuild():
    text, rep, _ = regenerate()
    sigs, consts = rep["sigs"], rep["consts"]
    inc = os.path.join(vlib.BUILD, "c15_inc")
    os.makedirs(inc, exist_ok=True)
    vlib.write_if_changed(os.path.join(inc, "arith_dispatch.inc"), arith_tables.cxx_dispatch(sigs, consts))
    vlib.cxx_build("h_arith", "h_arith.cpp", ["smt/arith/rational.cpp"], ["smt", "smt/arith"], extra_inc=[inc])
    vlib.ocaml_build("arith", ["gen/Gen_arith.vo"], arith_tables.extract_v(sigs, consts),
                     [("arith_io.ml", None), ("arith_dispatch.ml", arith_tables.ocaml_dispatch(sigs, consts)), ("arith_main.ml", None)])


# ------------------------------------------------------------------------------------------------
def run_lines(exe, lines, timeout=300):
    r = vlib.run([exe], stdin="\n".join(lines) + "\n", timeout=timeout)
    return r, r.out.split("\n")[:len(lines)] if r.out else []


def run(ctx):
    cov = ctx.cov
    spec_hits = []
    # 1. regenerate --------------------------------------------------------------------------
    try:
        text, rep, changed = regenerate()
        sigs, consts = rep["sigs"], rep["consts"]
        cov["translator"] = {"functions": len(sigs), "constants": len(consts), "regenerated_changed": changed,
                             "changed_vs_reference": diff_against_reference(text)}
        translated = True
    except cxx2gallina.Unsupported as e:
        ctx.log("translator failed:", e)
        translated = False
        sigs, consts = json.load(open(os.path.join(vlib.VERIF, "coq/gen_ref/arith_sigs.json"))), []
        cov["translator"] = {"error": str(e)}

    # 3a. harness on the implementation, judged by the exact specification (always) ---------------
    cases = gen_cases(ctx, sigs, consts)
    inc = os.path.join(vlib.BUILD, "c15_inc")
    os.makedirs(inc, exist_ok=True)
    vlib.write_if_changed(os.path.join(inc, "arith_dispatch.inc"), arith_tables.cxx_dispatch(sigs, consts))
    exe, log = vlib.cxx_build("h_arith", "h_arith.cpp", ["smt/arith/rational.cpp"], ["smt", "smt/arith"], extra_inc=[inc])
    if not exe:
        ctx.violation("build:h_arith", {"kind": "harness-build-failed", "log": log[-3000:]}, no_input=True)
        return
    lines = [" ".join([s["name"]] + a) for s, a in cases]
    r, impl = run_lines(exe, lines)
    dist = {}
    nontrivial = set()
    n_spec = 0
    if len(impl) < len(lines):
        k = len(impl)
        ctx.violation("arith:crash:" + cases[min(k, len(cases) - 1)][0]["name"],
                      {"kind": "implementation-aborted", "input": lines[min(k, len(lines) - 1)], "rc": r.rc, "stderr": r.err[-500:]})
        spec_hits.append("crash")
    for (s, a), got in zip(cases, impl):
        c = classify(a)
        dist[c] = dist.get(c, 0) + 1
        if s["kind"] == "const":
            continue
        exp = spec(s, a)
        if exp is None:
            dist["undefined"] = dist.get("undefined", 0) + 1
            continue
        if exp == "?nospec":
            dist["nospec"] = dist.get("nospec", 0) + 1
            continue
        n_spec += 1
        if c not in ("zero", "unit", "int"):
            nontrivial.add((s["name"],) + tuple(a))
        if got != exp:
            sig = "arith:" + s["name"]
            if sig not in spec_hits:
                spec_hits.append(sig)
                ctx.violation(sig, {"kind": "implementation-differs-from-exact-arithmetic", "function": s["name"], "cxx": s.get("cxx"),
                                    "input": " ".join([s["name"]] + a), "expected": exp, "implementation": got,
                                    "replay_cmd": "echo '%s' | %s" % (" ".join([s["name"]] + a), exe)})
    cov["evaluations"] = len(cases)
    cov["judged_by_exact_spec"] = n_spec
    cov["distinct_nontrivial"] = len(nontrivial)
    cov["rule"] = ("every translated function x boundary grid (0, +-1, non-reduced ctor args, +-inf, equal/coprime/nested denominators) "
                   "+ random operands |n|,|d| < 2^20 (2^24 thorough); non-trivial = some operand is a proper fraction or infinite")
    cov["input_distribution"] = dist
    for (s, a), got in list(zip(cases, impl))[:: max(1, len(cases) // 6)]:
        ctx.sample({"op": " ".join([s["name"]] + a), "implementation": got})

    # 2. proofs ---------------------------------------------------------------------------------
    def search(res):
        return bool(spec_hits)
    if translated:
        vlib.proof_stage(ctx, search=search)
    else:
        if not spec_hits:
            ctx.violation("translator:arith", {"kind": "translator-failed", "error": cov["translator"]["error"],
                                               "theorem": "tie: tools/cxx2gallina.py on smt/arith/rational.cpp, inf_rational.h"}, no_input=True)
        return

    # 3b. model vs implementation (validates the translator) ------------------------------------------
    oexe, olog = vlib.ocaml_build("arith", ["gen/Gen_arith.vo"], arith_tables.extract_v(sigs, consts),
                                  [("arith_io.ml", None), ("arith_dispatch.ml", arith_tables.ocaml_dispatch(sigs, consts)), ("arith_main.ml", None)])
    if not oexe:
        ctx.violation("build:oracle_arith", {"kind": "oracle-build-failed", "log": olog[-3000:]}, no_input=True)
        return
    r2, model = run_lines(oexe, lines)
    mism = 0
    for (s, a), gi, gm in zip(cases, impl, model):
        if gi != gm:
            if s["kind"] != "const" and spec(s, a) is None:
                continue  # undefined operation: C++ UB / Coq totalisation may differ
            mism += 1
            if mism == 1 and not spec_hits:
                ctx.violation("corr:arith:" + s["name"], {"kind": "model-differs-from-implementation", "correspondence": "corr:arith (generated model vs C++)",
                                                          "input": " ".join([s["name"]] + a), "model": gm, "implementation": gi}, no_input=True)
    cov["traces_validated_against_impl"] = len(model) - mism
    cov["model_vs_impl_mismatches"] = mism
    cov["trusted_base"] += ["tools/cxx2gallina.py (clang 14 JSON AST -> Gallina) and tools/arith_tables.py",
                            "python Fractions as the independent exact specification used to judge the implementation's outputs",
                            "C++ UB on integer division by zero is modelled by Coq's total Z.quot (x / 0 = 0); the affected operations "
                            "(rational(0,0), x / 0) are 'undefined' in the theorems and skipped in the comparison"]
    ctx.assumptions += ["operands stay below 2^20 (2^24 thorough) so that no machine overflow occurs (the property's own range clause)"]
