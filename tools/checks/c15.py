"""C15 -- rational, infinitesimal and linear-expression arithmetic is exact.

Pipeline (DESIGN.md 2.2 / 7-C15):
  1. regenerate coq/gen/Gen_arith.v from /repo's rational.cpp + inf_rational.h (tools/cxx2gallina.py)
  2. prove props/Properties_C15.v about the regenerated definitions (and the hand model of lin)
  3. extract the regenerated model, build the C++ harness from /repo's current sources, run both on the same
     generated operations, compare exactly (validates the translator) and judge the implementation's outputs
     with an independent exact specification (python Fractions) -- that is also the failing-input search.
  4. smt::lin (hand model coq/base/Lin.v): harness/h_lin.cpp drives the real class on operation sequences (corpus,
     boundary grid, random programs), tools/lin_gen.py judges every intermediate state coefficient-wise with exact
     Fractions (a failure = VIOLATION with the shrunk sequence), and the extracted model (oracle/lin_main.ml) must
     print exactly the same states (a difference with a correct implementation = the model no longer describes lin.cpp).
  5. printed keys: to_string(rational) / to_string(inf_rational) of the C++ on every value of the run and to_string(lin) on
     every lin state are compared as strings with the extracted printers of coq/base/ArithStr.v (proved injective on
     canonical values); two different canonical values printed alike = VIOLATION arith:to_string:collision.
Regression inputs of the already repaired defects live in corpus/C15/ and are always run first.
"""
import json
import os
import sys
from fractions import Fraction

import vlib
import cxx2gallina
import arith_tables
import lin_gen

LEVEL = "proof"
CLASSES = {"rational": ("rat", [("num", "int"), ("den", "int")]),
           "inf_rational": ("irat", [("rat", "rat"), ("inf", "rat")])}
EXPECT = ["rat_normalize", "rat_ctor_int_int", "rat_add_rat", "rat_sub_rat", "rat_mul_rat", "rat_div_rat",
          "rat_add_int", "rat_sub_int", "rat_mul_int", "rat_div_int", "rat_addeq_rat", "rat_subeq_rat", "rat_muleq_rat",
          "rat_diveq_rat", "rat_addeq_int", "rat_subeq_int", "rat_muleq_int", "rat_diveq_int", "int_add_rat", "int_sub_rat",
          "int_mul_rat", "int_div_rat", "rat_neg", "rat_lt_rat", "rat_le_rat", "rat_eq_rat", "rat_ne_rat", "rat_ge_rat",
          "rat_gt_rat", "rat_lt_int", "rat_le_int", "rat_eq_int", "rat_ne_int", "rat_ge_int", "rat_gt_int",
          "irat_add_irat", "irat_sub_irat", "irat_mul_rat", "irat_div_rat", "irat_lt_irat", "irat_le_irat", "irat_eq_irat",
          "irat_neg", "irat_addeq_irat", "irat_muleq_rat", "rat_sub_irat", "int_sub_irat"]


# ------------------------------------------------------------------------------------------------
# 1. regeneration
# ------------------------------------------------------------------------------------------------
def regenerate():
    incs = [os.path.join(vlib.VERIF, "harness/include"), os.path.join(vlib.REPO, "smt"), os.path.join(vlib.REPO, "smt/arith")]
    srcs = [os.path.join(vlib.REPO, "smt/arith/rational.cpp"), os.path.join(vlib.REPO, "smt/arith/inf_rational.h")]
    text, rep = cxx2gallina.translate(srcs, CLASSES, incs, expect=EXPECT)
    with vlib.Lock("coq"):
        changed = vlib.write_if_changed(os.path.join(vlib.COQ, "gen/Gen_arith.v"), text)
    return text, rep, changed


def diff_against_reference(text):
    """Names of generated definitions that differ from the committed reference copy (diagnostics for replays)."""
    ref = os.path.join(vlib.COQ, "gen_ref/Gen_arith.v.ref")
    if not os.path.exists(ref):
        return None

    def split(t):
        out = {}
        for blk in t.split("\n\n"):
            if blk.startswith("Definition "):
                out[blk.split()[1]] = blk
        return out
    a, b = split(open(ref).read()), split(text)
    return sorted(n for n in set(a) | set(b) if a.get(n) != b.get(n))


# ------------------------------------------------------------------------------------------------
# exact specification (independent of the Coq model): extended rationals with python Fractions
# ------------------------------------------------------------------------------------------------
PINF, NINF = "+inf", "-inf"


def ev(n, d):
    if d == 0:
        return PINF if n > 0 else NINF
    return Fraction(n, d)


def isinf(x):
    return x is PINF or x is NINF or x in (PINF, NINF)


def sgn(x):
    if x == PINF:
        return 1
    if x == NINF:
        return -1
    return (x > 0) - (x < 0)


def e_neg(x):
    return NINF if x == PINF else PINF if x == NINF else -x


def e_add(x, y):
    if isinf(x) and isinf(y):
        return x if x == y else None
    if isinf(x):
        return x
    if isinf(y):
        return y
    return x + y


def e_mul(x, y):
    if isinf(x) or isinf(y):
        s = sgn(x) * sgn(y)
        return None if s == 0 else (PINF if s > 0 else NINF)
    return x * y


def e_inv(x):
    if isinf(x):
        return Fraction(0)
    if x == 0:
        return None
    return 1 / x


def e_div(x, y):
    i = e_inv(y)
    return None if i is None else e_mul(x, i)


def e_lt(x, y):
    if x == y:
        return False
    if x == NINF or y == PINF:
        return True
    if x == PINF or y == NINF:
        return False
    return x < y


def canon(x):
    if x == PINF:
        return "1/0"
    if x == NINF:
        return "-1/0"
    return "%d/%d" % (x.numerator, x.denominator)


def p_rat(s):
    n, d = s.split("/")
    return ev(int(n), int(d))


def p_irat(s):
    a, b = s.split(",")
    return (p_rat(a), p_rat(b))


def p_arg(tag, s):
    return {"int": lambda t: Fraction(int(t)), "rat": p_rat, "irat": p_irat}[tag](s)


def c_irat(p):
    if p is None or p[0] is None or p[1] is None:
        return None
    return canon(p[0]) + "," + canon(p[1])


def mag(x):
    return max(abs(x.numerator), x.denominator)


def lift(x):
    return x if isinstance(x, tuple) else (x, Fraction(0))


def spec(sig, args):
    """Expected canonical output for `sig` applied to textual args, or None when the operation is undefined
    (inf - inf, 0 * inf, division by zero, quotient by an infinitesimal-extended number, rational(0, 0))."""
    name = sig["name"]
    tags = list(sig["params"])
    if sig["kind"] == "CXXMethodDecl":
        tags = [CLASSES[sig["cls"]][0]] + tags
    if sig["kind"] == "CXXConstructorDecl":
        ints = [int(a) for a in args if "/" not in a]
        if name == "rat_ctor":
            return "0/1"
        if name == "rat_ctor_int":
            return "%d/1" % ints[0]
        if name == "rat_ctor_int_int":
            n, d = ints
            if n == 0 and d == 0:
                return None
            return canon(ev(n, d))
        if name == "irat_ctor_int":
            return "%d/1,0/1" % ints[0]
        if name == "irat_ctor_int_int":
            n, d = ints
            if n == 0 and d == 0:
                return None
            return canon(ev(n, d)) + ",0/1"
        if name == "irat_ctor_rat":
            return args[0] + ",0/1"
        if name == "irat_ctor_rat_int":
            return args[0] + ",%d/1" % int(args[1])
        if name == "irat_ctor_rat_rat":
            return args[0] + "," + args[1]
        return "?nospec"
    vals = [p_arg(t, a) for t, a in zip(tags, args)]
    parts = name.split("_")
    # unary / predicates / getters
    if name in ("rat_neg",):
        return canon(e_neg(vals[0]))
    if name == "irat_neg":
        return c_irat((e_neg(vals[0][0]), e_neg(vals[0][1])))
    if name == "rat_normalize":
        return args[0]  # canonical inputs are fixed points
    if name == "rat_numerator":
        return args[0].split("/")[0]
    if name == "rat_denominator":
        return args[0].split("/")[1]
    if name == "irat_get_rational":
        return args[0].split(",")[0]
    if name == "irat_get_infinitesimal":
        return args[0].split(",")[1]
    if name.startswith("is_"):
        x = vals[0]
        pred = "_".join(parts[1:-1])
        if isinstance(x, tuple):
            r, i = x
            zero = (r == 0 and i == 0)
            pos = sgn(r) > 0 or (sgn(r) == 0 and sgn(i) > 0)
            neg = sgn(r) < 0 or (sgn(r) == 0 and sgn(i) < 0)
            inf = isinf(r)
        else:
            zero, pos, neg, inf = (x == 0), sgn(x) > 0, sgn(x) < 0, isinf(x)
        table = {"zero": zero, "positive": pos, "negative": neg, "positive_or_zero": pos or zero, "negative_or_zero": neg or zero,
                 "infinite": inf, "positive_infinite": inf and pos, "negative_infinite": inf and neg,
                 "integer": (not inf) and (not isinstance(x, tuple)) and x.denominator == 1}
        if pred not in table:
            return "?nospec"
        return "true" if table[pred] else "false"
    if len(parts) != 3:
        return "?nospec"
    lt, op, rt = parts
    a, b = vals
    irat = isinstance(a, tuple) or isinstance(b, tuple)
    base = op[:-2] if op.endswith("eq") and op not in ("eq",) else op
    if base in ("lt", "le", "eq", "ne", "ge", "gt"):
        if irat:
            a, b = lift(a), lift(b)
            lt_ = e_lt(a[0], b[0]) or (a[0] == b[0] and e_lt(a[1], b[1]))
            eq_ = a[0] == b[0] and a[1] == b[1]
        else:
            lt_, eq_ = e_lt(a, b), a == b
        r = {"lt": lt_, "le": lt_ or eq_, "eq": eq_, "ne": not eq_, "ge": not lt_, "gt": not lt_ and not eq_}[base]
        return "true" if r else "false"
    if not irat:
        if base == "sub":
            b = e_neg(b)
            base = "add"
        r = {"add": e_add, "mul": e_mul, "div": e_div}[base](a, b)
        return None if r is None else canon(r)
    # infinitesimal-extended: a vector space over Q
    if base in ("add", "sub"):
        a, b = lift(a), lift(b)
        if base == "sub":
            b = (e_neg(b[0]), e_neg(b[1]))
        return c_irat((e_add(a[0], b[0]), e_add(a[1], b[1])))
    if base in ("mul", "div"):
        f = e_mul if base == "mul" else e_div
        if isinstance(a, tuple) and not isinstance(b, tuple):
            return c_irat((f(a[0], b), f(a[1], b)))
        if isinstance(b, tuple) and not isinstance(a, tuple):
            if base == "mul":
                return c_irat((f(a, b[0]), f(a, b[1])))
            # scalar / (r + i eps) = k/r - (k i / r^2) eps  (first order in eps; r <> 0)
            if isinf(b[1]) or b[0] == 0:
                return None
            q = e_div(a, b[0])
            r2 = e_mul(b[0], b[0])
            ki = e_mul(a, b[1])
            if q is None or r2 is None or ki is None:
                return None
            # the range clause of the property ("no machine overflow"): -(k*i) / (r*r) multiplies three operands; beyond
            # 2^62 in an intermediate product of the C++ the case is outside the property's domain
            if not isinf(ki) and not isinf(r2) and mag(ki) * mag(r2) >= (1 << 62):
                return None
            return c_irat((q, e_div(e_neg(ki), r2)))
    return "?nospec"


# ------------------------------------------------------------------------------------------------
# generation
# ------------------------------------------------------------------------------------------------
def pools(rng, big):
    ints = [0, 1, -1, 2, -2, 3, -3, 4, 6, -6, 5, -7, 12, 100, -100]
    ints += [rng.randint(-big, big) for _ in range(10)]
    rats = set()
    for n in ints + [rng.randint(-40, 40) for _ in range(20)]:
        for d in (1, 2, 3, 4, 6, 7, 12, 35, rng.randint(1, 60), rng.randint(1, big)):
            f = Fraction(n, d)
            rats.add("%d/%d" % (f.numerator, f.denominator))
    rats = sorted(rats)
    rng.shuffle(rats)
    rats = ["0/1", "1/1", "-1/1", "1/0", "-1/0", "1/2", "-1/2", "2/3", "-3/2", "5/6", "7/6", "-7/12"] + rats[:40]
    fin = [r for r in rats if not r.endswith("/0")]
    irats = ["%s,%s" % (a, b) for a in fin[:14] for b in ("0/1", "1/1", "-1/1", "1/2", "-5/3")] + ["1/0,0/1", "-1/0,0/1"]
    return [str(i) for i in ints], rats, irats


def corpus_lines(name):
    path = os.path.join(vlib.VERIF, "corpus", "C15", name)
    if not os.path.exists(path):
        return []
    return [l.strip() for l in open(path) if l.strip() and not l.startswith("#")]


def gen_cases(ctx, sigs, consts):
    rng = ctx.rng
    big = (1 << 20) if not ctx.thorough else (1 << 24)
    ints, rats, irats = pools(rng, big)
    per = 260 if not ctx.thorough else 1500
    cases = []
    undefined = [0]
    by_name = {s["name"]: s for s in sigs}
    n_corpus = 0
    for line in corpus_lines("arith.txt"):
        w = line.split()
        if w[0] in by_name and spec(by_name[w[0]], w[1:]) is not None:
            cases.append((by_name[w[0]], w[1:]))
            n_corpus += 1
    ctx.cov["corpus_arith"] = n_corpus
    for s in sigs:
        tags = list(s["params"])
        if s["kind"] == "CXXMethodDecl":
            tags = [CLASSES[s["cls"]][0]] + tags
        pool = {"int": ints, "rat": rats, "irat": irats}
        if not tags:
            cases.append((s, []))
            continue
        seen = set()
        # boundary grid first, then random
        grid = []
        if len(tags) == 1:
            grid = [[x] for x in pool[tags[0]]]
        elif len(tags) == 2:
            grid = [[x, y] for x in pool[tags[0]][:14] for y in pool[tags[1]][:14]]
        for g in grid[:per]:
            seen.add(tuple(g))
        tries = 0
        while len(seen) < per and tries < per * 4:
            tries += 1
            seen.add(tuple(rng.choice(pool[t]) for t in tags))
        for a in sorted(seen):
            if s["name"] in ("rat_ctor_int_int", "irat_ctor_int_int") and int(a[0]) == 0 and int(a[1]) == 0:
                continue  # rational(0, 0): integer division by zero (UB) in C++, outside the property's domain
            if spec(s, list(a)) is None:
                undefined[0] += 1  # inf - inf, 0 * inf, x / 0, scalar / (r + i eps): outside the property's domain (the C++ asserts on them)
                continue
            cases.append((s, list(a)))
    ctx.cov["undefined_operations_skipped"] = undefined[0]
    for c in consts:
        cases.append(({"name": c, "kind": "const", "params": [], "cls": None}, []))
    return cases


def classify(args):
    k = []
    for a in args:
        for piece in a.split(","):
            if piece.endswith("/0"):
                k.append("inf")
            elif piece.startswith("0/") or piece == "0":
                k.append("zero")
            elif piece in ("1/1", "-1/1", "1", "-1"):
                k.append("unit")
            elif "/" in piece and not piece.endswith("/1"):
                k.append("frac")
            else:
                k.append("int")
    return "+".join(sorted(set(k)))


def regenerate_all():
    regenerate()


def prebuild():
    text, rep, _ = regenerate()
    sigs, consts = rep["sigs"], rep["consts"]
    inc = os.path.join(vlib.BUILD, "c15_inc")
    os.makedirs(inc, exist_ok=True)
    vlib.write_if_changed(os.path.join(inc, "arith_dispatch.inc"), arith_tables.cxx_dispatch(sigs, consts))
    vlib.cxx_build("h_arith", "h_arith.cpp", ["smt/arith/rational.cpp"], ["smt", "smt/arith"], extra_inc=[inc])
    vlib.ocaml_build("arith", ["gen/Gen_arith.vo"], arith_tables.extract_v(sigs, consts),
                     [("arith_io.ml", None), ("arith_dispatch.ml", arith_tables.ocaml_dispatch(sigs, consts)), ("arith_main.ml", None)])
    build_h_lin()
    build_lin_oracle()


# ------------------------------------------------------------------------------------------------
# smt::lin: harness, oracle, programs, judge, shrinking
# ------------------------------------------------------------------------------------------------
LIN_EXTRACT = ("From Coq Require Import Extraction ExtrOcamlBasic ZArith NArith.\nFrom ORatio Require Import gen.Gen_arith base.Lin base.ArithStr.\n"
               "Extraction Language OCaml.\nSet Extraction Optimize.\n"
               "Extraction \"lin_model.ml\" lop_step lin_ctor lin_ctor_rat lin_ctor_var lin_to_string rat_to_string irat_to_string.\n")


def build_h_lin():
    return vlib.cxx_build("h_lin", "h_lin.cpp", ["smt/arith/rational.cpp", "smt/arith/lin.cpp"], ["smt", "smt/arith"])


def build_lin_oracle():
    return vlib.ocaml_build("lin", ["base/Lin.vo", "base/DecStr.vo", "base/ArithStr.vo"], LIN_EXTRACT, [("lin_main.ml", None)])


def lin_domain_prefix(prog):
    """Cut a program before its first operation outside the property's domain (x/0, *= inf, infinite addends, or a
    magnitude beyond the no-overflow range): the C++ asserts / overflows there."""
    init, ops = prog
    sp = lin_gen.Spec(init)
    keep = []
    for op, arg in ops:
        if not sp.step(op, arg) or sp.too_big():
            break
        keep.append((op, arg))
    return init, keep


def lin_programs(ctx):
    progs, origin = [], []
    for line in corpus_lines("lin.txt"):
        progs.append(lin_domain_prefix(lin_gen.parse_line(line)))
        origin.append("corpus")
    for p in lin_gen.grid_programs():
        q = lin_domain_prefix(p)
        if q[1]:
            progs.append(q)
            origin.append("grid")
    n = 2500 if not ctx.thorough else 40000
    for _ in range(n):
        progs.append(lin_gen.rnd_program(ctx.rng, max_ops=6 if not ctx.thorough else 9, nvars=4 if ctx.rng.random() < 0.8 else 7))
        origin.append("random")
    return progs, origin


def lin_fails(exe, prog):
    """Run one program on the implementation; -> (failing step | None, reason, output line)."""
    r, out = run_lines(exe, [lin_gen.prog_line(prog)], timeout=30)
    line = out[0] if out else None
    step, why, _ = lin_gen.judge_program(prog, line)
    return step, why, line


def lin_shrink(exe, prog, step, budget=60):
    """Greedy shrinking of a failing program: cut after the failing step, drop earlier operations, drop map entries of
    lin operands, as long as the implementation still fails on the last step."""
    init, ops = prog
    best = (init, list(ops[:step]))

    def still_fails(cand):
        nonlocal budget
        if budget <= 0:
            return False
        budget -= 1
        cand = lin_domain_prefix(cand)
        st, _, _ = lin_fails(exe, cand)
        return st is not None and st == len(cand[1])
    if not still_fails(best):
        return prog
    changed = True
    while changed and budget > 0:
        changed = False
        i = 0
        while i < len(best[1]) - 1:
            cand = (best[0], best[1][:i] + best[1][i + 1:])
            if still_fails(cand):
                best, changed = cand, True
            else:
                i += 1

        def drop_entries(txt):
            parts = txt.split(";")
            return [";".join(parts[:j] + parts[j + 1:]) for j in range(1, len(parts))]
        if ";" in best[0] and not best[0].startswith("ctor"):
            for t in drop_entries(best[0]):
                if still_fails((t, best[1])):
                    best, changed = (t, best[1]), True
                    break
        for i, (op, arg) in enumerate(best[1]):
            if op in lin_gen.LIN_OPS and ";" in arg:
                for t in drop_entries(arg):
                    cand = (best[0], best[1][:i] + [(op, t)] + best[1][i + 1:])
                    if still_fails(cand):
                        best, changed = cand, True
                        break
    return best


def lin_impl_stage(ctx, spec_hits):
    """Implementation of smt::lin against the exact coefficient-wise specification. Returns (exe, progs, impl lines)."""
    cov = ctx.cov
    exe, log = build_h_lin()
    if not exe:
        ctx.violation("build:h_lin", {"kind": "harness-build-failed", "log": log[-3000:]}, no_input=True)
        return None, [], []
    progs, origin = lin_programs(ctx)
    lines = [lin_gen.prog_line(p) for p in progs]
    r, impl = run_lines(exe, lines)
    if len(impl) < len(lines):
        k = len(impl)
        bad = progs[min(k, len(progs) - 1)]
        sig = "lin:crash:" + (bad[1][-1][0] if bad[1] else "init")
        spec_hits.append(sig)
        ctx.violation(sig, {"kind": "implementation-aborted", "input": lines[min(k, len(lines) - 1)], "rc": r.rc, "stderr": r.err[-500:],
                            "replay_cmd": "echo '%s' | %s" % (lines[min(k, len(lines) - 1)], exe)})
    states = 0
    ops_dist, org_dist, shapes = {}, {}, {"shared": 0, "cancelling": 0, "disjoint": 0, "zero_scalar": 0, "negative_scalar": 0, "inf_divisor": 0}
    nontrivial = set()
    for prog, org, got in zip(progs, origin, impl):
        step, why, n = lin_gen.judge_program(prog, got)
        states += n
        org_dist[org] = org_dist.get(org, 0) + 1
        sp = lin_gen.Spec(prog[0])
        for op, arg in prog[1]:
            ops_dist[op] = ops_dist.get(op, 0) + 1
            if op in lin_gen.LIN_OPS:
                _, ents = lin_gen.p_lin(arg)
                sh = [v for v, c in ents if v in sp.coefs]
                if sh:
                    shapes["shared"] += 1
                    sg = 1 if op.startswith("add") else -1
                    if any(sp.coefs[v] + sg * c == 0 for v, c in ents if v in sp.coefs):
                        shapes["cancelling"] += 1
                elif ents:
                    shapes["disjoint"] += 1
            elif arg is not None:
                if arg.startswith("0/"):
                    shapes["zero_scalar"] += 1
                elif arg.endswith("/0"):
                    shapes["inf_divisor"] += 1
                elif arg.startswith("-"):
                    shapes["negative_scalar"] += 1
            sp.step(op, arg)
        if len(prog[1]) >= 2 or any(op in lin_gen.LIN_OPS for op, _ in prog[1]):
            nontrivial.add(lin_gen.prog_line(prog))
        if step is not None:
            opname = prog[1][step - 1][0] if step >= 1 else "init"
            sig = "lin:to_string" if (why or "").startswith("to_string") else "lin:" + opname
            if sig not in spec_hits:
                spec_hits.append(sig)
                small = lin_shrink(exe, prog, step) if step >= 1 else prog
                st2, why2, out2 = lin_fails(exe, small)
                if st2 is None:
                    small, st2, why2, out2 = prog, step, why, got
                sp2 = lin_gen.Spec(small[0])
                for op, arg in small[1][:st2]:
                    sp2.step(op, arg)
                ctx.violation(sig, {"kind": "implementation-differs-from-exact-arithmetic", "class": "smt::lin", "operation": opname,
                                    "input": lin_gen.prog_line(small), "failing_step": st2, "reason": why2,
                                    "expected_state": sp2.txt(), "implementation": out2, "unshrunk_input": lin_gen.prog_line(prog),
                                    "replay_cmd": "echo '%s' | %s" % (lin_gen.prog_line(small), exe)})
    cov["lin"] = {"programs": len(progs), "states_judged_by_exact_spec": states, "origin": org_dist, "operations": ops_dist,
                  "operand_shapes": shapes, "distinct_nontrivial_programs": len(nontrivial),
                  "rule": "corpus of repaired defects + every operator form x boundary operand grid + random sequences of 1..6 (9 thorough) "
                          "operations on one object (compound-only / binary-only / mixed), operands aimed at the current "
                          "object's variables (same, opposite, absent), scalars incl. 0, negatives, +-inf divisors; "
                          "non-trivial = at least two operations or a lin operand"}
    for prog, got in list(zip(progs, impl))[:: max(1, len(progs) // 3)][:3]:
        ctx.sample({"lin_program": lin_gen.prog_line(prog), "implementation": got})
    return exe, progs, impl


# ------------------------------------------------------------------------------------------------
# printed values: to_string(rational) / to_string(inf_rational) of the C++ against base/ArithStr.v
# ------------------------------------------------------------------------------------------------
def printed_values(cases, impl):
    """Every rational / inf_rational value that occurs in this run (operands and implementation results) plus a
    boundary grid; -> sorted lists of 'n/d' and 'n/d,n/d'."""
    rats, irats = set(), set()

    def add(tok):
        if "/" not in tok:
            return
        if "," in tok:
            a, b = tok.split(",")
            irats.add(tok)
            rats.add(a)
            rats.add(b)
        else:
            rats.add(tok)
    for (s, a), got in zip(cases, impl):
        for t in a:
            add(t)
        if got and not got.startswith("?"):
            add(got)
    grid_r = ["0/1", "1/1", "-1/1", "2/1", "-2/1", "10/1", "-10/1", "1/2", "-1/2", "-7/3", "100/7", "1/0", "-1/0", "1000000/1", "-999999/1000000"]
    grid_i = ["0/1", "1/1", "-1/1", "2/1", "-2/1", "1/2", "-1/2", "-5/3", "10/1", "1/10", "1/0", "-1/0"]
    for r in grid_r:
        rats.add(r)
        for i in grid_i:
            irats.add(r + "," + i)
    return sorted(rats), sorted(irats)


def is_icanon(v):
    """Domain of the injectivity theorem for inf_rational: an infinite rational part comes with a zero infinitesimal part."""
    r, i = v.split(",")
    return not r.endswith("/0") or i == "0/1"


def print_impl_stage(ctx, exe, cases, impl, spec_hits):
    """The C++ printers on every value of the run; judge: two different canonical values never get the same text."""
    rats, irats = printed_values(cases, impl)
    lines = ["str_rat " + r for r in rats] + ["str_irat " + v for v in irats]
    r, out = run_lines(exe, lines)
    if len(out) < len(lines):
        ctx.violation("arith:to_string:crash", {"kind": "implementation-aborted", "input": lines[min(len(out), len(lines) - 1)], "stderr": r.err[-500:]})
        spec_hits.append("arith:to_string:crash")
    seen = {}
    collisions = 0
    for ln, txt in zip(lines, out):
        kind, val = ln.split(" ", 1)
        if kind == "str_irat" and not is_icanon(val):
            continue   # printed as the infinity alone whatever the infinitesimal part (C15_..._without_side_condition_refuted)
        key = (kind, txt)
        if key in seen and seen[key] != val:
            collisions += 1
            sig = "arith:to_string:collision"
            if sig not in spec_hits:
                spec_hits.append(sig)
                ctx.violation(sig, {"kind": "two-canonical-values-printed-alike", "printer": kind, "input": ln, "other_input": kind + " " + seen[key],
                                    "text": txt, "replay_cmd": "printf '%s\\n%s\\n' '%s' '%s %s' | %s" % ("%s", "%s", ln, kind, seen[key], exe)})
        seen.setdefault(key, val)
    ctx.cov["printed_values"] = {"rationals": len(rats), "inf_rationals": len(irats), "collisions_among_canonical_values": collisions,
                                 "rule": "every operand and implementation result of the arithmetic stage + boundary grid (0, +-1, integers, "
                                         "fractions, +-inf, every combination of rational part x infinitesimal part)"}
    return lines, out


def print_model_stage(ctx, oexe, lines, impl_out, spec_hits):
    """The extracted printers of base/ArithStr.v must produce exactly the C++ texts."""
    r, model = run_lines(oexe, lines)
    mism = 0
    for ln, gi, gm in zip(lines, impl_out, model):
        if gi != gm:
            mism += 1
            if mism == 1:
                which = "to_string_rational" if ln.startswith("str_rat ") else "to_string_inf_rational"
                ctx.violation("corr:arith:" + which, {"kind": "model-differs-from-implementation",
                                                     "correspondence": "corr:arith (coq/base/ArithStr.v extracted vs the C++ printer)",
                                                     "input": ln, "model": gm, "implementation": gi}, no_input=True)
    ctx.cov["printed_values"]["validated_against_model"] = len(model) - mism
    ctx.cov["traces_validated_against_impl"] = ctx.cov.get("traces_validated_against_impl", 0) + len(model) - mism
    ctx.cov["printed_values"]["model_vs_impl_mismatches"] = mism
    for ln, gi in list(zip(lines, impl_out))[:: max(1, len(lines) // 2)][:2]:
        ctx.sample({"printed": ln, "implementation": gi})


def lin_model_stage(ctx, progs, impl, spec_hits, printed=None):
    """Extracted model of Lin.v against the implementation: exact equality of every printed state."""
    cov = ctx.cov
    oexe, olog = build_lin_oracle()
    if not oexe:
        ctx.violation("build:oracle_lin", {"kind": "oracle-build-failed", "log": olog[-3000:]}, no_input=True)
        return
    if printed:
        print_model_stage(ctx, oexe, printed[0], printed[1], spec_hits)
    lines = [lin_gen.prog_line(p) for p in progs]
    r, model = run_lines(oexe, lines)
    mism = 0
    for prog, gi, gm in zip(progs, impl, model):
        if gi != gm:
            mism += 1
            if mism == 1 and not any(h.startswith("lin:") for h in spec_hits):
                a, b = gi.split(" | "), gm.split(" | ")
                k = next((i for i in range(min(len(a), len(b))) if a[i] != b[i]), min(len(a), len(b)))
                opname = prog[1][k - 1][0] if 1 <= k <= len(prog[1]) else "init"
                ctx.violation("corr:lin:" + opname, {"kind": "model-differs-from-implementation",
                                                     "correspondence": "corr:lin (coq/base/Lin.v extracted vs smt::lin)",
                                                     "input": lin_gen.prog_line(prog), "step": k, "model": gm, "implementation": gi},
                              no_input=True)
    if len(model) < len(lines):
        ctx.violation("corr:lin:oracle-aborted", {"kind": "oracle-aborted", "stderr": r.err[-500:]}, no_input=True)
    cov["lin"]["programs_validated_against_model"] = len(model) - mism
    cov["lin"]["model_vs_impl_mismatches"] = mism


# ------------------------------------------------------------------------------------------------
def run_lines(exe, lines, timeout=300):
    r = vlib.run([exe], stdin="\n".join(lines) + "\n", timeout=timeout)
    return r, r.out.split("\n")[:len(lines)] if r.out else []


def run(ctx):
    cov = ctx.cov
    spec_hits = []
    # 1. regenerate --------------------------------------------------------------------------
    try:
        text, rep, changed = regenerate()
        sigs, consts = rep["sigs"], rep["consts"]
        cov["translator"] = {"functions": len(sigs), "constants": len(consts), "regenerated_changed": changed,
                             "changed_vs_reference": diff_against_reference(text)}
        translated = True
    except cxx2gallina.Unsupported as e:
        ctx.log("translator failed:", e)
        translated = False
        sigs, consts = json.load(open(os.path.join(vlib.VERIF, "coq/gen_ref/arith_sigs.json"))), []
        cov["translator"] = {"error": str(e)}

    # 3a. harness on the implementation, judged by the exact specification (always) ---------------
    cases = gen_cases(ctx, sigs, consts)
    inc = os.path.join(vlib.BUILD, "c15_inc")
    os.makedirs(inc, exist_ok=True)
    vlib.write_if_changed(os.path.join(inc, "arith_dispatch.inc"), arith_tables.cxx_dispatch(sigs, consts))
    exe, log = vlib.cxx_build("h_arith", "h_arith.cpp", ["smt/arith/rational.cpp"], ["smt", "smt/arith"], extra_inc=[inc])
    if not exe:
        ctx.violation("build:h_arith", {"kind": "harness-build-failed", "log": log[-3000:]}, no_input=True)
        return
    lines = [" ".join([s["name"]] + a) for s, a in cases]
    r, impl = run_lines(exe, lines)
    dist = {}
    nontrivial = set()
    n_spec = 0
    if len(impl) < len(lines):
        k = len(impl)
        ctx.violation("arith:crash:" + cases[min(k, len(cases) - 1)][0]["name"],
                      {"kind": "implementation-aborted", "input": lines[min(k, len(lines) - 1)], "rc": r.rc, "stderr": r.err[-500:]})
        spec_hits.append("crash")
    for (s, a), got in zip(cases, impl):
        c = classify(a)
        dist[c] = dist.get(c, 0) + 1
        if s["kind"] == "const":
            continue
        exp = spec(s, a)
        if exp is None:
            dist["undefined"] = dist.get("undefined", 0) + 1
            continue
        if exp == "?nospec":
            dist["nospec"] = dist.get("nospec", 0) + 1
            continue
        n_spec += 1
        if c not in ("zero", "unit", "int"):
            nontrivial.add((s["name"],) + tuple(a))
        if got != exp:
            sig = "arith:" + s["name"]
            if sig not in spec_hits:
                spec_hits.append(sig)
                ctx.violation(sig, {"kind": "implementation-differs-from-exact-arithmetic", "function": s["name"], "cxx": s.get("cxx"),
                                    "input": " ".join([s["name"]] + a), "expected": exp, "implementation": got,
                                    "replay_cmd": "echo '%s' | %s" % (" ".join([s["name"]] + a), exe)})
    cov["evaluations"] = len(cases)
    cov["judged_by_exact_spec"] = n_spec
    cov["distinct_nontrivial"] = len(nontrivial)
    cov["rule"] = ("every translated function x boundary grid (0, +-1, non-reduced ctor args, +-inf, equal/coprime/nested denominators) "
                   "+ random operands |n|,|d| < 2^20 (2^24 thorough); non-trivial = some operand is a proper fraction or infinite")
    cov["input_distribution"] = dist
    for (s, a), got in list(zip(cases, impl))[:: max(1, len(cases) // 6)]:
        ctx.sample({"op": " ".join([s["name"]] + a), "implementation": got})

    # 3c. smt::lin against the exact coefficient-wise specification (before the proofs: it is also the failing-input search)
    lin_exe, lin_progs, lin_impl = lin_impl_stage(ctx, spec_hits)
    pr_lines, pr_impl = print_impl_stage(ctx, lin_exe, cases, impl, spec_hits) if lin_exe else ([], [])
    cov["evaluations"] += cov.get("lin", {}).get("states_judged_by_exact_spec", 0)
    cov["distinct_nontrivial"] += cov.get("lin", {}).get("distinct_nontrivial_programs", 0)

    # 2. proofs ---------------------------------------------------------------------------------
    def search(res):
        return bool(spec_hits)
    if translated:
        res = vlib.proof_stage(ctx, search=search)
        if ctx.thorough and res["ok"]:
            vlib.coqchk_stage(ctx)
    else:
        if not spec_hits:
            ctx.violation("translator:arith", {"kind": "translator-failed", "error": cov["translator"]["error"],
                                               "theorem": "tie: tools/cxx2gallina.py on smt/arith/rational.cpp, inf_rational.h"}, no_input=True)
        return

    # 3b. model vs implementation (validates the translator) ------------------------------------------
    oexe, olog = vlib.ocaml_build("arith", ["gen/Gen_arith.vo"], arith_tables.extract_v(sigs, consts),
                                  [("arith_io.ml", None), ("arith_dispatch.ml", arith_tables.ocaml_dispatch(sigs, consts)), ("arith_main.ml", None)])
    if not oexe:
        ctx.violation("build:oracle_arith", {"kind": "oracle-build-failed", "log": olog[-3000:]}, no_input=True)
        return
    r2, model = run_lines(oexe, lines)
    mism = 0
    for (s, a), gi, gm in zip(cases, impl, model):
        if gi != gm:
            if s["kind"] != "const" and spec(s, a) is None:
                continue  # undefined operation: C++ UB / Coq totalisation may differ
            mism += 1
            if mism == 1 and not spec_hits:
                ctx.violation("corr:arith:" + s["name"], {"kind": "model-differs-from-implementation", "correspondence": "corr:arith (generated model vs C++)",
                                                          "input": " ".join([s["name"]] + a), "model": gm, "implementation": gi}, no_input=True)
    cov["traces_validated_against_impl"] = len(model) - mism
    cov["model_vs_impl_mismatches"] = mism
    # 3d. extracted Lin model vs smt::lin -------------------------------------------------------------
    if lin_exe:
        lin_model_stage(ctx, lin_progs, lin_impl, spec_hits, printed=(pr_lines, pr_impl))
        cov["traces_validated_against_impl"] += cov["lin"].get("programs_validated_against_model", 0)
    cov["trusted_base"] += ["tools/cxx2gallina.py (clang 14 JSON AST -> Gallina) and tools/arith_tables.py",
                            "python Fractions as the independent exact specification used to judge the implementation's outputs "
                            "(tools/checks/c15.py spec() for rational / inf_rational, tools/lin_gen.py Spec for lin)",
                            "coq/base/Lin.v is a hand-written model of smt/arith/lin.cpp (std::map as a sorted association list); its tie to "
                            "the source is the differential harness/h_lin.cpp vs oracle/lin_main.ml run on every check (exact equality "
                            "of every intermediate state, zero entries included)",
                            "C++ UB on integer division by zero is modelled by Coq's total Z.quot (x / 0 = 0); the affected operations "
                            "(rational(0,0), x / 0) are 'undefined' in the theorems and skipped in the comparison"]
    ctx.assumptions += ["operands stay below 2^20 (2^24 thorough) so that no machine overflow occurs (the property's own range clause)",
                        "lin programs: numerators / denominators of every state below 2^30 and generated scalars below 2^7 (programs are cut there)"]


def replay(path):
    """Re-run only the input stored in a replay file on the current implementation; exit code 1 = still violated."""
    rp = json.load(open(path))
    sig, inp = rp.get("signature", ""), rp.get("input")
    if not inp:
        print("replay: no concrete input in %s (%s): run the full check" % (path, rp.get("theorem") or sig))
        return 2
    if sig.startswith("lin:") or sig.startswith("corr:lin"):
        exe, log = build_h_lin()
        if not exe:
            print(log[-2000:])
            return 2
        prog = lin_domain_prefix(lin_gen.parse_line(inp))
        step, why, out = lin_fails(exe, prog)
        print("input :", lin_gen.prog_line(prog))
        print("output:", out)
        if step is not None:
            print("VIOLATION property=C15 replay=%s  (step %d: %s)" % (path, step, why))
            return 1
        print("replay: the implementation now satisfies the exact specification on this input")
        return 0
    text, rep, _ = regenerate()
    sigs, consts = rep["sigs"], rep["consts"]
    inc = os.path.join(vlib.BUILD, "c15_inc")
    os.makedirs(inc, exist_ok=True)
    vlib.write_if_changed(os.path.join(inc, "arith_dispatch.inc"), arith_tables.cxx_dispatch(sigs, consts))
    exe, log = vlib.cxx_build("h_arith", "h_arith.cpp", ["smt/arith/rational.cpp"], ["smt", "smt/arith"], extra_inc=[inc])
    if not exe:
        print(log[-2000:])
        return 2
    w = inp.split()
    by_name = {s["name"]: s for s in sigs}
    r, out = run_lines(exe, [inp], timeout=30)
    got = out[0] if out else None
    exp = spec(by_name[w[0]], w[1:]) if w[0] in by_name else "?nospec"
    print("input :", inp)
    print("output:", got, " expected:", exp)
    if got != exp:
        print("VIOLATION property=C15 replay=%s" % path)
        return 1
    print("replay: the implementation now satisfies the exact specification on this input")
    return 0
