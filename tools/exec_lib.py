"""C19 helpers: problem / script generation, harness + oracle drivers, trace parsing and the K2 judge that evaluates the
property's own predicate on an implementation trace (independent of the Coq model; exact Fractions everywhere).

Trace grammar (harness/h_exec.cpp), one item per line:
  plan <tag> origin=<ir> horizon=<ir> xi=<n> / atom <name> A|U|I imp|int <ir> <ir> k=v... / bind <var> <atom> /
  timelines ... / endplan            -- printed by a core_listener at every solution_found, and once at the end (tag final)
  solved 0|1 ; call <k> <ct> ; return <k> <ct> ; tick <t>
  starting|start|ending|end <atoms...> ; dsy|dey <atom> <delay> ; pre-dsy|pre-dey <atom> <delay>
  failure <atoms...> ; failure-done ; exception <what> ; inconsistent ; done ; hang
<ir> is an inf_rational "n/d,n/d" (rational part, infinitesimal part).
"""
import os
from fractions import Fraction as F

import vlib

DEFINES = ("BUILD_LISTENERS", "LA_TN", "H_MAX", "DEFERRABLE_FLAWS", "GRAPH_PRUNING")


# ------------------------------------------------------------------------------------------------
# builds
# ------------------------------------------------------------------------------------------------
def build_harness(name="h_exec"):
    return vlib.cxx_build(name, "h_exec.cpp",
                          vlib.SMT_SRC + vlib.RIDDLE_SRC + vlib.CORE_SRC + vlib.SOLVER_SRC + vlib.EXEC_SRC,
                          vlib.SMT_INC + vlib.RIDDLE_INC + vlib.CORE_INC + vlib.SOLVER_INC + vlib.EXEC_INC,
                          defines=DEFINES)


# ------------------------------------------------------------------------------------------------
# exact numbers
# ------------------------------------------------------------------------------------------------
def p_rat(s):
    n, d = s.split("/")
    return F(int(n), int(d))


def p_ir(s):
    a, b = s.split(",")
    return (p_rat(a), p_rat(b))     # lexicographic order of tuples = order of inf_rational


def s_rat(q):
    q = F(q)
    return "%d/%d" % (q.numerator, q.denominator)


def s_ir(t):
    return s_rat(t[0]) + "," + s_rat(t[1])


def dec(q):
    """A RIDDLE real literal for a Fraction with a power-of-ten denominator."""
    q = F(q)
    s = "%.4f" % float(q)
    assert F(s) == q, q
    s = s.rstrip("0")
    return s + "0" if s.endswith(".") else s


# ------------------------------------------------------------------------------------------------
# problems
# ------------------------------------------------------------------------------------------------
class Problem:
    """preds: name -> dict(kind 'int'|'imp', dmin, dmax, sv: bool, qual: qualified name used by the harness)
    goals: list of (var, pred, instance_expr|None);  cons: list of tuples over goal indexes (see check_plan)"""

    def __init__(self):
        self.preds, self.goals, self.cons, self.lines = {}, [], [], []
        self.sv_instances = []
        self.disj_preds = []
        self.flat = False

    def text(self):
        return "\n".join(self.lines) + "\n"

    def to_json(self):
        return {"preds": self.preds, "goals": self.goals, "cons": [[str(x) for x in c] for c in self.cons],
                "rddl": self.text(), "disj_preds": self.disj_preds, "flat": self.flat}


FRACS = [F(0), F(1, 2), F(1), F(3, 2), F(2), F(5, 2), F(3), F(1, 4), F(3, 4), F(7, 4)]


def gen_problem(rng, profile=None):
    """A small temporal problem. profile: 'grid' (integer times only) | 'offgrid' (fractional constants) |
    'eps' (integer constants, STRICT temporal constraints: the planner places the atoms at t + k*epsilon, with t on the grid of
    the ticks, so that "planned at t + eps" and "dispatched in the tick of time t" differ) | None = random."""
    pr = Problem()
    profile = profile or rng.choice(["grid", "offgrid", "offgrid", "eps"])
    eps = profile == "eps"
    consts = [F(0), F(1), F(2), F(3)] if profile in ("grid", "eps") else FRACS
    durs = [None, F(1), F(2), F(3)] if profile in ("grid", "eps") else [None, F(1), F(2), F(1, 2), F(3, 2), F(5, 2)]
    n_int = rng.randint(2, 4)
    n_imp = rng.randint(0, 2)
    names = ["P%d" % i for i in range(n_int)]
    inames = ["I%d" % i for i in range(n_imp)]
    use_sv = rng.random() < 0.5
    L = pr.lines
    # leaf predicates first (so that rules only refer to already known ones: subgoals point to higher indexes)
    bodies = {}
    for i, n in enumerate(names):
        dmin = rng.choice(durs)
        dmax = None
        if dmin is not None and rng.random() < 0.25:
            dmax = dmin + rng.choice([F(1), F(2), F(4)])
        pr.preds[n] = {"kind": "int", "dmin": str(dmin) if dmin is not None else None, "dmax": str(dmax) if dmax is not None else None,
                       "sv": False, "qual": n}
        b = []
        if dmin is not None:
            b.append("duration >= %s;" % dec(dmin))
        if dmax is not None:
            b.append("duration <= %s;" % dec(dmax))
        bodies[n] = b
    for n in inames:
        pr.preds[n] = {"kind": "imp", "dmin": None, "dmax": None, "sv": False, "qual": n}
        bodies[n] = []
    # rules: subgoals / disjunctions towards higher-numbered interval predicates (none in one problem out of three:
    # then every atom is a named goal and a refused adaptation can be refereed from scratch, see referee_input)
    pr.flat = rng.random() < 0.34
    for i, n in enumerate(names[:-1]):
        r = rng.random() if not pr.flat else 1.0
        higher = names[i + 1:]
        if r < 0.25:
            q = rng.choice(higher + inames) if inames and rng.random() < 0.3 else rng.choice(higher)
            gap = rng.choice(consts[:5])
            tp = "at" if q in inames else "start"
            bodies[n].append("goal q = new %s(); q.%s %s end + %s;" % (q, tp, ">" if eps and rng.random() < 0.6 else ">=", dec(gap)))
        elif r < 0.5 and len(higher) >= 1:
            q1 = rng.choice(higher)
            q2 = rng.choice(higher + inames)
            g1, g2 = rng.choice(consts[:5]), rng.choice(consts[:5])
            t2 = "at" if q2 in inames else "start"
            bodies[n].append("{ goal q = new %s(); q.start >= end + %s; } or { goal r = new %s(); r.%s >= start + %s; }" % (q1, dec(g1), q2, t2, dec(g2)))
            pr.disj_preds += [q1, q2]
    for n in reversed(names):
        L.append("predicate %s() : Interval { %s }" % (n, " ".join(bodies[n])))
    for n in inames:
        L.append("predicate %s() : Impulse { }" % n)
    svp = []
    if use_sv:
        d0, d1 = rng.choice(durs[1:]), rng.choice(durs[1:])
        L.append("class SV : StateVariable { predicate S0() { duration >= %s; } predicate S1() { duration >= %s; } }" % (dec(d0), dec(d1)))
        ninst = rng.randint(1, 2)
        for k in range(ninst):
            L.append("SV sv%d = new SV();" % k)
            pr.sv_instances.append("sv%d" % k)
        for k, d in (("S0", d0), ("S1", d1)):
            pr.preds["SV." + k] = {"kind": "int", "dmin": str(d), "dmax": None, "sv": True, "qual": "SV." + k}
            svp.append(k)
    # goals
    ng = rng.randint(2, 6)
    for g in range(ng):
        var = "g%d" % g
        if svp and rng.random() < 0.4:
            k = rng.choice(svp)
            if len(pr.sv_instances) > 1 and rng.random() < 0.5:
                inst = "x%d" % g          # the planner chooses the instance (tau is an object variable)
                L.append("SV %s;" % inst)
            else:
                inst = rng.choice(pr.sv_instances)
            L.append("goal %s = new %s.%s();" % (var, inst, k))
            pr.goals.append((var, "SV." + k, inst))
        else:
            n = rng.choice(names + inames)
            L.append("goal %s = new %s();" % (var, n))
            pr.goals.append((var, n, None))

    def tp(g, which):
        return "at" if pr.preds[pr.goals[g][1]]["kind"] == "imp" else which
    for j in range(ng):
        for i in range(j):
            r = rng.random()
            if eps and r < 0.22:
                c = rng.choice(consts[:3])
                L.append("g%d.%s > g%d.%s + %s;" % (j, tp(j, "start"), i, tp(i, "end"), dec(c)))
                pr.cons.append(("after_s", j, i, c))
            elif eps and r < 0.36:
                L.append("g%d.%s < g%d.%s;" % (i, tp(i, "start"), j, tp(j, "start")))
                pr.cons.append(("lts", j, i, F(0)))
            elif eps and r < 0.42:
                c = rng.choice(consts[:6])
                L.append("g%d.%s >= g%d.%s + %s;" % (j, tp(j, "start"), i, tp(i, "end"), dec(c)))
                pr.cons.append(("after", j, i, c))
            elif eps:
                pass
            elif r < 0.25:
                c = rng.choice(consts[:6])
                L.append("g%d.%s >= g%d.%s + %s;" % (j, tp(j, "start"), i, tp(i, "end"), dec(c)))
                pr.cons.append(("after", j, i, c))
            elif r < 0.33:
                L.append("g%d.%s == g%d.%s;" % (j, tp(j, "start"), i, tp(i, "start")))
                pr.cons.append(("eqs", j, i, F(0)))
            elif r < 0.38:
                c = rng.choice([F(4), F(5), F(13, 2), F(8)])
                L.append("g%d.%s <= g%d.%s + %s;" % (j, tp(j, "end"), i, tp(i, "start"), dec(c)))
                pr.cons.append(("within", j, i, c))
    for g in range(ng):
        r = rng.random()
        if eps and r < 0.55:
            c = rng.choice(consts + [F(4), F(5)])
            L.append("g%d.%s > %s;" % (g, tp(g, "start"), dec(c)))
            pr.cons.append(("gt", g, None, c))
            if rng.random() < 0.3:
                L.append("g%d.%s < %s;" % (g, tp(g, "start"), dec(c + 6)))
                pr.cons.append(("lt", g, None, c + 6))
        elif eps and r < 0.7:
            c = rng.choice(consts)
            L.append("g%d.%s >= %s;" % (g, tp(g, "start"), dec(c)))
            pr.cons.append(("ge", g, None, c))
        elif eps:
            pass
        elif r < 0.4:
            c = rng.choice(consts)
            L.append("g%d.%s >= %s;" % (g, tp(g, "start"), dec(c)))
            pr.cons.append(("ge", g, None, c))
        elif r < 0.47:
            c = rng.choice(consts)
            L.append("g%d.%s > %s;" % (g, tp(g, "start"), dec(c)))
            pr.cons.append(("gt", g, None, c))
        elif r < 0.52:
            c = rng.choice(consts)
            L.append("g%d.%s >= %s; g%d.%s <= %s;" % (g, tp(g, "start"), dec(c), g, tp(g, "start"), dec(c + 6)))
            pr.cons.append(("ge", g, None, c))
            pr.cons.append(("le", g, None, c + 6))
    return pr, profile


DELAYS = [F(1), F(1), F(2), F(5), F(1, 2), F(1, 3), F(3, 2), F(7, 4), F(1, 4)]
ODD_DELAYS = [F(0), F(-1), F(-1, 2)]


def gen_script(rng, pr, profile, odd=False):
    """Script lines for the harness: delays at starting / ending keyed by (atom, occurrence), failures, stale requests."""
    if profile == "eps":
        units = rng.choice([F(1), F(1), F(1), F(1, 2)])     # every integer constant is the time of some tick
    else:
        units = rng.choice([F(1)] * 5 + [F(1, 2), F(2), F(3, 2)]) if profile != "grid" else rng.choice([F(1), F(1), F(2)])
    ticks = int(min(60, rng.randint(12, 22) / float(units) + 2))
    lines = ["units %d %d" % (units.numerator, units.denominator), "ticks %d" % ticks]
    for v, _, _ in pr.goals:
        lines.append("name " + v)
    atoms = []
    for n, p in pr.preds.items():
        for k in range(3):
            atoms.append((p["qual"] + "#%d" % k, p))
    pool = [d for d in DELAYS if profile not in ("grid", "eps") or d.denominator == 1]
    if profile == "eps" and units == F(1, 2):
        pool = pool + [F(1, 2), F(3, 2)]                    # delayed times stay on the grid of the ticks
    stats = {"s": 0, "e": 0, "f": 0, "pre": 0, "odd": 0, "burst": 0}

    def pick():
        if odd and rng.random() < 0.35:
            stats["odd"] += 1
            return rng.choice(ODD_DELAYS)
        return rng.choice(pool)
    for a, p in atoms:
        if rng.random() < 0.3:
            n = 1
            if rng.random() < 0.3:
                n = rng.randint(2, 3)
                stats["burst"] += 1
            for occ in range(n):
                d = pick()
                lines.append("s %s %d %d %d" % (a, occ, d.numerator, d.denominator))
                stats["s"] += 1
        if rng.random() < 0.25:
            n = 1 if rng.random() < 0.7 else 2
            for occ in range(n):
                d = pick()
                lines.append("e %s %d %d %d" % (a, occ, d.numerator, d.denominator))
                stats["e"] += 1
    if rng.random() < 0.35:
        cand = [a for a, p in atoms if p["qual"] in pr.disj_preds] or [a for a, _ in atoms]
        t = rng.randint(2, max(2, ticks - 2))
        fa = rng.sample(cand, min(len(cand), rng.randint(1, 2)))
        lines.append("f %d %s" % (t, " ".join(fa)))
        stats["f"] += 1
    if rng.random() < 0.15:
        a, _ = rng.choice(atoms)
        d = pick()
        lines.append("%s %d %s %d %d" % (rng.choice(["ps", "pe"]), rng.randint(1, ticks), a, d.numerator, d.denominator))
        stats["pre"] += 1
    return lines, units, stats


def harness_input(script_lines, rddl):
    return "\n".join(script_lines) + "\nrddl\n" + rddl


# ------------------------------------------------------------------------------------------------
# trace parsing
# ------------------------------------------------------------------------------------------------
def parse_trace(out):
    """-> list of items. A plan block becomes ('plan', tag, {origin, horizon, xi, atoms: {name: rec}, bind: {var: atom}})."""
    items = []
    cur = None
    for ln in out.split("\n"):
        w = ln.split()
        if not w:
            continue
        k = w[0]
        if k == "plan":
            cur = {"tag": w[1], "atoms": {}, "bind": {}}
            for kv in w[2:]:
                a, b = kv.split("=")
                cur[a] = p_ir(b) if a in ("origin", "horizon") else int(b)
        elif k == "atom" and cur is not None:
            rec = {"state": w[2], "kind": w[3], "start": p_ir(w[4]), "end": p_ir(w[5]), "extra": {}}
            for kv in w[6:]:
                a, b = kv.split("=", 1)
                rec["extra"][a] = b
            cur["atoms"][w[1]] = rec
        elif k == "bind" and cur is not None:
            cur["bind"][w[1]] = w[2]
        elif k == "timelines" and cur is not None:
            cur["timelines"] = w[1:]
        elif k == "endplan":
            items.append(("plan", cur["tag"], cur))
            cur = None
        elif k in ("starting", "start", "ending", "end", "failure"):
            items.append((k, w[1:]))
        elif k in ("dsy", "dey", "pre-dsy", "pre-dey"):
            items.append((k, w[1], p_rat(w[2])))
        elif k in ("call", "return"):
            items.append((k, int(w[1]), p_rat(w[2])))
        elif k == "tick":
            items.append((k, p_rat(w[1])))
        elif k == "solved":
            items.append((k, int(w[1])))
        elif k in ("exception", "read-failed", "solve-failed"):
            items.append((k, " ".join(w[1:])))
        elif k in ("done", "hang", "inconsistent", "failure-done", "failure-skipped"):
            items.append((k,))
        else:
            items.append(("?", ln))
    return items


# ------------------------------------------------------------------------------------------------
# K2: the plan is a valid solution of the generated problem (what can be judged from the outside)
# ------------------------------------------------------------------------------------------------
def check_plan(pr, plan):
    """Violated constraints of the generated problem in a printed plan (exact arithmetic on inf_rationals as pairs)."""
    bad = []
    atoms = plan["atoms"]
    origin, horizon = plan.get("origin"), plan.get("horizon")

    def add(t, q):
        return (t[0] + q, t[1])
    for n, a in atoms.items():
        if a["state"] != "A":
            continue
        s, e = a["start"], a["end"]
        if origin is not None and s < origin:
            bad.append("start<origin:" + n)
        if horizon is not None and e > horizon:
            bad.append("end>horizon:" + n)
        if e < s:
            bad.append("end<start:" + n)
        if a["kind"] == "imp" and s != e:
            bad.append("impulse:" + n)
        pn = n.split("#")[0]
        p = pr.preds.get(pn) if isinstance(pr, Problem) else pr["preds"].get(pn)
        if p:
            if p["dmin"] is not None and (e[0] - s[0], e[1] - s[1]) < (F(p["dmin"]), F(0)):
                bad.append("duration-min:" + n)
            if p["dmax"] is not None and (e[0] - s[0], e[1] - s[1]) > (F(p["dmax"]), F(0)):
                bad.append("duration-max:" + n)
    goals = pr.goals if isinstance(pr, Problem) else pr["goals"]
    cons = pr.cons if isinstance(pr, Problem) else pr["cons"]

    def val(g, which):
        var = goals[int(g)][0]
        an = plan["bind"].get(var)
        if an is None or an not in atoms:
            return None
        return atoms[an][which]
    for c in cons:
        kind, j, i, q = c[0], c[1], c[2], F(c[3])
        if kind == "after":
            a, b = val(j, "start"), val(i, "end")
            if a is not None and b is not None and not a >= add(b, q):
                bad.append("after:g%s,g%s" % (j, i))
        elif kind == "after_s":
            a, b = val(j, "start"), val(i, "end")
            if a is not None and b is not None and not a > add(b, q):
                bad.append("after_s:g%s,g%s" % (j, i))
        elif kind == "lts":
            a, b = val(j, "start"), val(i, "start")
            if a is not None and b is not None and not a > b:
                bad.append("lts:g%s,g%s" % (j, i))
        elif kind == "eqs":
            a, b = val(j, "start"), val(i, "start")
            if a is not None and b is not None and a != b:
                bad.append("eqs:g%s,g%s" % (j, i))
        elif kind == "within":
            a, b = val(j, "end"), val(i, "start")
            if a is not None and b is not None and not a <= add(b, q):
                bad.append("within:g%s,g%s" % (j, i))
        elif kind in ("ge", "gt", "le", "lt"):
            a = val(j, "start")
            if a is not None:
                if kind == "ge" and not a >= (q, F(0)):
                    bad.append("ge:g%s" % j)
                if kind == "gt" and not a > (q, F(0)):
                    bad.append("gt:g%s" % j)
                if kind == "le" and not a <= (q, F(0)):
                    bad.append("le:g%s" % j)
                if kind == "lt" and not a < (q, F(0)):
                    bad.append("lt:g%s" % j)
    # state variables: active atoms on the same instance do not overlap (half-open intervals)
    by_inst = {}
    for n, a in atoms.items():
        if a["state"] == "A" and n.startswith("SV.") and "tau" in a["extra"]:
            by_inst.setdefault(a["extra"]["tau"].strip("{}"), []).append((a["start"], a["end"], n))
    for inst, l in by_inst.items():
        if "|" in inst:
            bad.append("sv-tau-undecided:" + inst)
            continue
        l.sort()
        for (s1, e1, n1), (s2, e2, n2) in zip(l, l[1:]):
            if s2 < e1 and s1 < e2:
                bad.append("sv-overlap:%s,%s" % (n1, n2))
    return bad


# ------------------------------------------------------------------------------------------------
# K2: the property's own predicate on an implementation trace
# ------------------------------------------------------------------------------------------------
def judge(pr, items, units, crashed=None):
    """-> list of (signature, detail). Evaluates C19 directly on the implementation's trace."""
    V = []
    seen = set()

    def viol(sig, detail):
        if (sig, detail) not in seen:
            seen.add((sig, detail))
            V.append((sig, detail))
    plan = None
    started, ended = {}, {}
    ct = F(0)
    in_tick = False
    asked_s, asked_e = set(), set()         # atoms the client asked to delay in the current tick
    pend_s, pend_e = set(), set()           # stale requests made outside callbacks, not yet consumed
    cur_S, cur_E = [], []
    ticks_seen = 0
    eps = {"dispatched": 0, "boundary": 0}
    in_failure = False
    call_ct = None
    finished = False
    raised = False
    for it in items:
        k = it[0]
        if k == "plan":
            p = it[2]
            if it[1] == "final":
                finished = True
                if raised:
                    continue    # after execution_exception the plan is declared non-executable (xi is false): nothing to judge
            if p.get("xi", 1) == 1 or True:
                bad = check_plan(pr, p)
                for b in bad:
                    viol("exec:invalid-plan:" + b.split(":")[0], "%s (plan after %d ticks)" % (b, ticks_seen))
            for a, rec in started.items():
                n = p["atoms"].get(a)
                if n and n["state"] == "A":
                    if n["start"] != rec["start"]:
                        viol("exec:started-moved", "%s start %s -> %s" % (a, s_ir(rec["start"]), s_ir(n["start"])))
                    for xk, xv in rec["extra"].items():
                        if n["extra"].get(xk) != xv:
                            viol("exec:started-moved", "%s parameter %s %s -> %s" % (a, xk, xv, n["extra"].get(xk)))
            for a, rec in ended.items():
                n = p["atoms"].get(a)
                if n and n["state"] == "A" and n["end"] != rec["end"]:
                    viol("exec:ended-moved", "%s end %s -> %s" % (a, s_ir(rec["end"]), s_ir(n["end"])))
            if in_tick:
                # an atom delayed in this tick is planned beyond the time of the tick by the adapted plan
                for a in asked_s:
                    n = p["atoms"].get(a)
                    if n and n["state"] == "A" and a not in started and n["start"] <= (call_ct, F(0)):
                        viol("exec:delay-not-effective", "start of %s still planned at %s after a delay requested at time %s" % (a, s_ir(n["start"]), call_ct))
                for a in asked_e:
                    n = p["atoms"].get(a)
                    if n and n["state"] == "A" and a not in ended and n["end"] <= (call_ct, F(0)):
                        viol("exec:delay-not-effective", "end of %s still planned at %s after a delay requested at time %s" % (a, s_ir(n["end"]), call_ct))
            plan = p
        elif k == "call":
            if it[2] != ct:
                viol("exec:time", "tick %d called at %s, expected %s" % (it[1], it[2], ct))
            in_tick = True
            call_ct = it[2]
            asked_s, asked_e = set(), set()
            n_tick_cb = 0
        elif k == "starting":
            cur_S = it[1]
            for a in cur_S:
                if a in pend_s:
                    pend_s.discard(a)
                    asked_s.add(a)
        elif k == "ending":
            cur_E = it[1]
            for a in cur_E:
                if a in pend_e:
                    pend_e.discard(a)
                    asked_e.add(a)
        elif k == "dsy":
            asked_s.add(it[1])
        elif k == "dey":
            asked_e.add(it[1])
        elif k == "failure":
            in_failure = True
        elif k == "failure-done":
            in_failure = False
        elif k == "pre-dsy":
            pend_s.add(it[1])
        elif k == "pre-dey":
            pend_e.add(it[1])
        elif k == "start":
            for a in it[1]:
                rec = plan["atoms"].get(a) if plan else None
                if a in started:
                    viol("exec:double-start", a)
                if rec is None or rec["state"] != "A":
                    viol("exec:start-of-inactive", a)
                    continue
                if rec["start"][1] != 0:
                    eps["dispatched"] += 1
                if not rec["start"] <= (call_ct, F(0)):   # exact inf_rational comparison: (rational, infinitesimal) lexicographic
                    viol("exec:before-planned-time", "start %s planned %s at time %s" % (a, s_ir(rec["start"]), call_ct))
                if a in asked_s:
                    viol("exec:start-in-delayed-tick", "%s started in the tick (time %s) in which a delay was requested" % (a, call_ct))
                if a not in started:
                    started[a] = {"start": rec["start"], "extra": {x: v for x, v in rec["extra"].items() if "|" not in v}}
        elif k == "end":
            for a in it[1]:
                rec = plan["atoms"].get(a) if plan else None
                if a in ended:
                    viol("exec:double-end", a)
                if a not in started:
                    viol("exec:end-without-start", a)
                if rec is None or rec["state"] != "A":
                    viol("exec:end-of-inactive", a)
                    continue
                if rec["end"][1] != 0:
                    eps["dispatched"] += 1
                if not rec["end"] <= (call_ct, F(0)):
                    viol("exec:before-planned-time", "end %s planned %s at time %s" % (a, s_ir(rec["end"]), call_ct))
                if a in asked_e:
                    viol("exec:end-in-delayed-tick", "%s ended in the tick (time %s) in which a delay was requested" % (a, call_ct))
                if a not in ended:
                    ended[a] = {"end": rec["end"]}
        elif k == "tick":
            if it[1] != ct + units:
                viol("exec:time", "listener told %s, expected %s" % (it[1], ct + units))
        elif k == "return":
            if it[2] != ct + units:
                viol("exec:time", "current_time %s after tick %d, expected %s" % (it[2], it[1], ct + units))
            # liveness: nothing due at or before the time of this tick is still pending
            if plan:
                for a, rec in plan["atoms"].items():
                    if rec["state"] != "A":
                        continue
                    # planned at t + k*eps (k > 0) with t the time of this tick: due in the NEXT tick, not in this one
                    if a not in started and rec["start"][0] == ct and rec["start"][1] > 0:
                        eps["boundary"] += 1
                    elif a in started and a not in ended and rec["end"][0] == ct and rec["end"][1] > 0:
                        eps["boundary"] += 1
                    if a not in started and rec["start"] <= (ct, F(0)):
                        viol("exec:delay-not-effective" if a in asked_s else "exec:lost-event",
                             "start of %s (planned %s) still pending after the tick at time %s" % (a, s_ir(rec["start"]), ct))
                    elif a in started and a not in ended and rec["end"] <= (ct, F(0)):
                        viol("exec:delay-not-effective" if a in asked_e else "exec:lost-event",
                             "end of %s (planned %s) still pending after the tick at time %s" % (a, s_ir(rec["end"]), ct))
            ct = it[2]
            in_tick = False
            ticks_seen += 1
        elif k == "exception":
            raised = True
        elif k == "hang":
            # where the process was when the CPU limit expired: inside executor::failure() (its re-solve), or inside tick()
            where = "in-failure" if in_failure else "in-tick" if in_tick else "elsewhere"
            viol("exec:hang:" + where, "%s did not return within the time limit (after %d ticks)" % (
                "failure()" if in_failure else "tick %d" % (ticks_seen + 1), ticks_seen))
        elif k == "?":
            viol("exec:unparsed", it[1])
    status = "done" if any(i[0] == "done" for i in items) else "raised" if any(i[0] == "exception" for i in items) else "crashed"
    if not any(i[0] == "done" for i in items) and not any(i[0] in ("hang", "read-failed", "solve-failed") for i in items):
        why = crashed or "no 'done' line"
        kind = "exception" if "execution_exception" in why else "assert" if "Assertion" in why else "other"
        viol("exec:terminate:" + kind, "the process ended abnormally (%s) after %d ticks" % (why.strip()[-300:], ticks_seen))
    return V, {"ticks": ticks_seen, "started": len(started), "ended": len(ended), "status": status,
               "eps_dispatched": eps["dispatched"], "eps_boundary": eps["boundary"]}


# ------------------------------------------------------------------------------------------------
# the extracted model (oracle/exec_main.ml) on the sessions observed on the implementation
# ------------------------------------------------------------------------------------------------
EXTRACT_V = '''From Coq Require Import Extraction ExtrOcamlBasic.
From ORatio Require Import plan.Exec.
Extraction "exec_model.ml" run_script cfg_fixed cfg_pinned contract_okb.
'''

CFGS = {"fixed": (0, 1), "pinned": (1, 0), "cut-fixed-only": (0, 0), "clamp-fixed-only": (1, 1)}


def build_oracle():
    return vlib.ocaml_build("exec", ["plan/Exec.vo"], EXTRACT_V, [("exec_main.ml", None)])


def _atom_txt(i, rec):
    s, e = rec["start"], rec["end"]
    f = [i, 1 if rec["kind"] == "imp" else 0,
         s[0].numerator, s[0].denominator, s[1].numerator, s[1].denominator,
         e[0].numerator, e[0].denominator, e[1].numerator, e[1].denominator]
    return ",".join(str(x) for x in f)


def _plan_txt(idx, p):
    return " ".join(_atom_txt(idx[n], r) for n, r in sorted(p["atoms"].items()) if r["state"] == "A")


def session_of(items, units, script_lines):
    """The implementation's trace as (a) the input of the model: first plan, the answers of the re-solves in order,
    the client's script and operations; (b) the list of observable events the model has to reproduce.
    -> dict(names, body (text without the cfg line), expected (list of str), status)"""
    names = sorted({n for it in items if it[0] == "plan" for n in it[2]["atoms"]})
    idx = {n: i for i, n in enumerate(names)}
    k = next((i for i, it in enumerate(items) if it[0] == "solved"), None)
    if k is None or items[k][1] != 1:
        return None
    p0 = None
    for it in items[:k]:
        if it[0] == "plan":
            p0 = it[2]
    if p0 is None:
        return None
    lines = ["units %d %d" % (units.numerator, units.denominator), "fuel %d" % (4 * len(names) + 5), "plan0 " + _plan_txt(idx, p0)]
    for ln in script_lines:
        w = ln.split()
        if w and w[0] in ("s", "e") and w[1] in idx:
            lines.append("%s %d %s %s %s" % (w[0], idx[w[1]], w[2], w[3], w[4]))
    expected = []
    pending_plan = None

    def flush():
        nonlocal pending_plan
        if pending_plan is not None:
            lines.append("plan " + _plan_txt(idx, pending_plan))
            expected.append("replan")
            pending_plan = None
    status = "running"
    for it in items[k + 1:]:
        t = it[0]
        if t == "plan":
            if it[1] != "final":
                pending_plan = it[2]
            continue
        flush()
        if t == "call":
            lines.append("op T")
        elif t == "failure":
            lines.append("op F " + " ".join(str(idx[a]) for a in it[1] if a in idx))
        elif t in ("pre-dsy", "pre-dey"):
            if it[1] in idx:
                lines.append("op %s %d %d %d" % ("PS" if t == "pre-dsy" else "PE", idx[it[1]], it[2].numerator, it[2].denominator))
        elif t in ("starting", "ending", "start", "end"):
            expected.append(t + " " + " ".join(str(x) for x in sorted(idx[a] for a in it[1])))
        elif t == "tick":
            expected.append("tick " + s_rat(it[1]))
        elif t == "exception":
            lines.append("noplan")
            status = "raised"
        elif t == "hang":
            status = "hang"
    flush()
    if not any(it[0] == "done" for it in items) and status == "running":
        status = "crashed"
    return {"names": names, "body": lines, "expected": expected, "status": status}


def oracle_input(cases):
    """cases: list of (name, cfgname, session)"""
    out = []
    for name, cfgname, ses in cases:
        c = CFGS[cfgname]
        out.append("case %s" % name)
        out.append("cfg %d %d" % c)
        # the `op` lines must follow the declarations; order inside body is already right
        out += ses["body"]
        out.append("run")
    return "\n".join(out) + "\n"


def parse_oracle(out):
    """-> {name: dict(events=[...], status=str, extra=[...])}"""
    res, cur = {}, {"events": [], "extra": [], "status": None}
    for ln in out.split("\n"):
        w = ln.split()
        if not w:
            continue
        if w[0] in ("starting", "ending", "start", "end"):
            cur["events"].append(w[0] + " " + " ".join(w[1:]))
        elif w[0] == "tick":
            cur["events"].append("tick " + w[1])
        elif w[0] == "replan":
            cur["events"].append("replan")
        elif w[0] == "status":
            cur["status"] = " ".join(w[1:])
        elif w[0] == "endcase":
            res[w[1]] = cur
            cur = {"events": [], "extra": [], "status": None}
        else:
            cur["extra"].append(ln)
    return res


def agree(ses, mod):
    """Does the model's trace equal the implementation's?  When the implementation crashed or hung only the common
    prefix can be compared."""
    if mod is None:
        return False, "no output of the model"
    exp, got = ses["expected"], mod["events"]
    if ses["status"] in ("crashed", "hang"):
        n = len(exp)
        return (got[:n] == exp), "prefix"
    if got != exp:
        n = next((i for i, (a, b) in enumerate(zip(exp, got)) if a != b), min(len(exp), len(got)))
        return False, "event %d: implementation %r, model %r" % (n, exp[n] if n < len(exp) else None, got[n] if n < len(got) else None)
    if mod["status"] != ses["status"]:
        return False, "status: implementation %s, model %s" % (ses["status"], mod["status"])
    return True, ""


# ------------------------------------------------------------------------------------------------
# referee for refused adaptations: when the executor raises execution_exception after a delay, is there really no plan?
# ------------------------------------------------------------------------------------------------
def referee_input(pr, items, units):
    """For a session on a problem without sub-goals (every atom is a named goal) that ended with execution_exception
    inside a tick: the original problem plus what every admissible adaptation has to satisfy -- the values frozen so far
    and the lower bound of every delay applied so far (value + delay, at least the next tick) -- as a fresh RIDDLE
    problem (harness stdin, no ticks).  None when the referee does not apply (sub-goals, failure(), infinitesimal
    values, several delays in one pass of the loop).  -> (stdin, constraints)"""
    prj = pr.to_json() if isinstance(pr, Problem) else pr
    if not prj.get("flat") or any(p.get("sv") for p in prj["preds"].values()):
        return None     # with sub-goals, disjunctions or state variables the planner has decisions it made before xi and that
                        # the executor does not revise (it gives up as soon as xi is refuted): a refusal is then not a defect
    plan, ct = None, F(0)
    started, ended, bounds = {}, {}, {}
    pend_s, pend_e = {}, {}
    offer_s, offer_e = [], []
    in_tick = in_failure = False
    ok = True
    raised = False

    def close_iter():
        """the requests that meet an offered atom are applied (and consumed) when the pass of the loop ends"""
        nonlocal offer_s, offer_e
        n = 0
        for offer, pend, which in ((offer_s, pend_s, "start"), (offer_e, pend_e, "end")):
            for a in offer:
                if a in pend and plan and a in plan["atoms"]:
                    v = plan["atoms"][a][which]
                    lb = v[0] + pend.pop(a)
                    bounds[(a, which)] = lb if lb > ct else ct + units
                    n += 1 if v[1] == 0 else 99
        offer_s, offer_e = [], []
        return n <= 1
    for it in items:
        k = it[0]
        if k == "plan":
            ok = close_iter() and ok
            if it[1] != "final":
                plan = it[2]
        elif k == "call":
            in_tick, ct = True, it[2]
        elif k == "return":
            in_tick, ct = False, it[2]
        elif k == "failure":
            in_failure = True
        elif k == "failure-done":
            in_failure = False
        elif k in ("pre-dsy", "dsy"):
            pend_s.setdefault(it[1], it[2])
        elif k in ("pre-dey", "dey"):
            pend_e.setdefault(it[1], it[2])
        elif k == "starting":
            ok = close_iter() and ok
            offer_s = it[1]
        elif k == "ending":
            offer_e = it[1]
        elif k in ("start", "end"):
            offer_s, offer_e = [], []
            for a in it[1]:
                rec = plan["atoms"].get(a) if plan else None
                if rec:
                    (started if k == "start" else ended)[a] = rec["start" if k == "start" else "end"]
        elif k == "exception":
            if not in_tick or in_failure:
                return None
            ok = close_iter() and ok
            raised = True
            break
    if not raised or not ok or plan is None:
        return None
    rev = {}
    for var, a in plan["bind"].items():
        rev.setdefault(a, var)
    active = [a for a, r in plan["atoms"].items() if r["state"] == "A"]
    if any(a not in rev for a in active):
        return None
    cons = []

    def field(a, which):
        return "at" if plan["atoms"][a]["kind"] == "imp" else which
    for table, which in ((started, "start"), (ended, "end")):
        for a, v in table.items():
            if a in rev and plan["atoms"].get(a, {}).get("state") == "A":
                if v[1] != 0:
                    return None
                cons.append((rev[a], field(a, which), "==", v[0]))
    for (a, which), lb in bounds.items():
        if a in rev and plan["atoms"].get(a, {}).get("state") == "A":
            cons.append((rev[a], field(a, which), ">=", lb))
    lines = ["units 1 1", "ticks 0"] + ["name " + g[0] for g in prj["goals"]] + ["rddl", prj["rddl"].rstrip("\n")]
    for var, f, op, q in cons:
        q = F(q)
        lines.append("%s.%s * %d.0 %s %d.0;" % (var, f, q.denominator, op, q.numerator))
    return "\n".join(lines) + "\n", cons


def referee_verdict(pr, out, cons):
    """Did the fresh planner find a plan that satisfies the problem and the extra constraints?"""
    items = parse_trace(out)
    if not any(it[0] == "solved" and it[1] == 1 for it in items):
        return False, None
    plan = [it[2] for it in items if it[0] == "plan"][-1]
    if check_plan(pr, plan):
        return False, None
    for var, f, op, q in cons:
        a = plan["bind"].get(var)
        if a is None or a not in plan["atoms"]:
            return False, None
        v = plan["atoms"][a]["start" if f in ("start", "at") else "end"]
        if op == "==" and v != (F(q), F(0)):
            return False, None
        if op == ">=" and not v >= (F(q), F(0)):
            return False, None
    return True, plan
