"""C16 / C18: shared plumbing of the language checks -- oracle build, running the harnesses and the oracle, canonical forms."""
import os
import resource
import subprocess

import vlib
import lang_build

EXTRACT = """From Coq Require Import Extraction ExtrOcamlBasic ExtrOcamlString NArith ZArith QArith.
From ORatio Require Import gen.Gen_arith base.Lin lang.Token lang.Lexer lang.Ast lang.Parser lang.Printer lang.Eval.
Extraction Language OCaml.
Set Extraction Optimize.
Extraction "lang_model.ml" lex parse parse_expr show pp pp_unit real_frac ev den eval beval Qred lin_ctor_var rat_ONE.
"""
# every model file the extraction reads (the cache key of vlib.ocaml_build is the text of these files)
ORACLE_DEPS = ["lang/Token.vo", "lang/Lexer.vo", "lang/Ast.vo", "lang/Parser.vo", "lang/Printer.vo", "lang/Eval.vo", "base/Lin.vo", "base/RatSpec.vo", "gen/Gen_arith.vo"]


def build_oracle():
    return vlib.ocaml_build("lang", ORACLE_DEPS, EXTRACT, [("lang_io.ml", None), ("lang_main.ml", None)])


def _big_stack():
    try:
        resource.setrlimit(resource.RLIMIT_STACK, (resource.RLIM_INFINITY, resource.RLIM_INFINITY))
    except (ValueError, OSError):
        pass


def run_oracle(exe, lines, timeout=600, jobs=1):
    """lines: list of 'cmd arg' strings -> list of answer lines (same length, '?missing' where the oracle died).
    With jobs > 1 the lines are split over several oracle processes."""
    if not lines:
        return []
    jobs = max(1, min(jobs, len(lines)))
    chunks = [lines[i::jobs] for i in range(jobs)]
    procs = [subprocess.Popen([exe], stdin=subprocess.PIPE, stdout=subprocess.PIPE, stderr=subprocess.PIPE, text=True, preexec_fn=_big_stack)
             for _ in chunks]
    import threading
    outs = [None] * jobs

    def feed(k):
        try:
            o, e = procs[k].communicate("\n".join(chunks[k]) + "\n", timeout=timeout)
        except subprocess.TimeoutExpired:
            procs[k].kill()
            o, e = procs[k].communicate()
            e = (e or "") + " TIMEOUT"
        out = o.split("\n")
        if out and out[-1] == "":
            out.pop()
        out += ["?missing rc=%s %s" % (procs[k].returncode, (e or "")[-200:].replace("\n", " "))] * (len(chunks[k]) - len(out))
        outs[k] = out
    ths = [threading.Thread(target=feed, args=(k,)) for k in range(jobs)]
    for t in ths:
        t.start()
    for t in ths:
        t.join()
    res = [None] * len(lines)
    for k in range(jobs):
        for j, idx in enumerate(range(k, len(lines), jobs)):
            res[idx] = outs[k][j]
    return res


def run_harness(exe, inputs, args=(), timeout=1200, tmo=5, as_mb=2048, jobs=1, env_extra=None):
    """inputs: list of bytes -> list of result lines. Every case runs in a forked child of the harness (watchdog `tmo` s).
    With jobs > 1 the inputs are split over several harness processes."""
    if not inputs:
        return []
    env = dict(os.environ)
    env["H_TIMEOUT"] = str(tmo)
    env["H_AS_MB"] = str(as_mb)
    if env_extra:
        env.update(env_extra)
    jobs = max(1, min(jobs, len(inputs)))
    chunks = [inputs[i::jobs] for i in range(jobs)]
    procs = []
    for ch in chunks:
        p = subprocess.Popen([exe] + list(args), stdin=subprocess.PIPE, stdout=subprocess.PIPE, stderr=subprocess.PIPE, env=env)
        procs.append(p)
    import threading
    outs = [None] * jobs
    errs = [b""] * jobs

    def feed(k):
        data = ("\n".join(x.hex() for x in chunks[k]) + "\n").encode()
        try:
            o, e = procs[k].communicate(data, timeout=timeout)
        except subprocess.TimeoutExpired:
            procs[k].kill()
            o, e = procs[k].communicate()
        outs[k] = o.decode("utf8", "replace").split("\n")
        errs[k] = e
    ths = [threading.Thread(target=feed, args=(k,)) for k in range(jobs)]
    for t in ths:
        t.start()
    for t in ths:
        t.join()
    res = [None] * len(inputs)
    for k in range(jobs):
        o = outs[k]
        if o and o[-1] == "":
            o.pop()
        for j, idx in enumerate(range(k, len(inputs), jobs)):
            res[idx] = o[j] if j < len(o) else "?missing"
    run_harness.last_stderr = b"\n".join(errs)[-4000:].decode("utf8", "replace")
    return res


run_harness.last_stderr = ""

# riddle::lexer messages -> the error classes of the model (lang/Lexer.v lex_err)
LEX_MSG = {
    "newline in string literal..": "newline-in-string",
    "unterminated string literal..": "unterminated-string",
    "unterminated comment..": "unterminated-comment",
    "invalid numeric literal..": "invalid-numeric",
    "numeric literal out of range..": "numeric-range",
    "invalid token..": "invalid-token",
}


def canon_lex(line):
    """result line of h_lex -> the form the oracle prints"""
    if line.startswith("ERR "):
        return "ERR " + LEX_MSG.get(line[4:], "other:" + line[4:])
    return line


def canon_parse(line):
    """result line of h_parse -> OK <sexpr> | ERR lex:<class> | ERR syntax | ERR too-deep | ABORT.. | HANG | EXC.."""
    if line.startswith("ERR "):
        m = line[4:]
        if m in LEX_MSG:
            return "ERR lex:" + LEX_MSG[m]
        if m == "nesting too deep..":
            return "ERR too-deep"
        return "ERR syntax"
    return line


def outcome_class(line):
    """OK | ERR | ABORT | HANG  (EXC std::bad_alloc = the memory bound of the watchdog hit = HANG-class resource exhaustion)"""
    if line.startswith("OK"):
        return "OK"
    if line.startswith("ERR") or line.startswith("UNSAT"):
        return "ERR"
    if line.startswith("HANG") or line.startswith("EXC std::bad_alloc"):
        return "HANG"
    if line.startswith("ABORT") or line.startswith("EXC"):
        return "ABORT"
    return "?" + line[:40]


class Pending:
    """notes/fixes/<Cxx>-pending.json: signatures of defects whose repair (a patch under notes/fixes/) is not yet committed to
    /repo. Every entry carries a WITNESS input with the answer the repaired code gives; `resolve` runs the witnesses on the
    implementation under test: an entry whose witness already behaves as repaired is INACTIVE (its signature is then a real
    violation again); an entry whose fix: commits (first lines of the .msg files) are in the git history of the tree under test
    is retired without looking at the witness, so that a later regression of the same kind is reported. Active entries are reported once as PENDING-FIX and do not fail the check."""

    def __init__(self, ctx, prop=None):
        import json
        self.ctx = ctx
        self.hit = []
        self.counts = {}
        self.entries = []
        self.active = {}
        path = os.path.join(vlib.VERIF, "notes", "fixes", "%s-pending.json" % (prop or ctx.prop))
        if os.path.exists(path):
            self.entries = json.load(open(path))
        for e in self.entries:
            self.active[e["signature"]] = e
        # findings recorded in /verif/known_findings.json (kind=finding) for this property are always active: they are
        # reported through ctx.violation, which prints the KNOWN-FINDING line and does not fail the check
        for e in vlib.known_findings():
            if e.get("property") == (prop or ctx.prop) and e.get("kind") == "finding":
                self.active[e["signature"]] = {"signature": e["signature"], "what": e.get("what", ""), "patch": "none", "known_finding": True}

    def resolve(self, exes, canon=None):
        """exes: {"lex": exe, "parse": exe, "eval": exe}; deactivates the entries whose witness is repaired"""
        by_kind = {}
        # an entry is retired for good once all its fix: commits are in the history of the tree under test
        log = vlib.run(["git", "-C", vlib.REPO, "log", "--format=%s", "-n", "400"], timeout=30).out.split("\n")
        for e in self.entries:
            if e.get("fix_subjects") and all(sub in log for sub in e["fix_subjects"]):
                self.active.pop(e["signature"], None)
                continue
            w = e.get("witness")
            if w and exes.get(w["kind"]):
                by_kind.setdefault(w["kind"], []).append(e)
        canons = {"lex": canon_lex, "parse": canon_parse, "parse_dbg": canon_parse, "parse_san": lambda x: canon_parse(x[:-5]) + " LEAK" if x.endswith(" LEAK") else canon_parse(x)}
        for k, es in by_kind.items():
            for e in es:
                w = e["witness"]
                san = k.endswith("_san")
                r = run_harness(exes[k], [bytes.fromhex(w["input_hex"])], args=w.get("args", ()), tmo=60 if san else 20 if k.startswith("eval") else 4,
                                as_mb=0 if san else 2048, env_extra={"ASAN_OPTIONS": "detect_leaks=1:abort_on_error=0"} if san else None)[0]
                r = canons.get(k, lambda x: x)(r)
                if r.startswith(w["expect"]) and not (w.get("not_suffix") and r.endswith(w["not_suffix"])):
                    self.active.pop(e["signature"], None)
        self.ctx.cov["pending_fixes_active"] = sorted(self.active)
        return self.active

    def is_active(self, prefix):
        return any(s.startswith(prefix) for s in self.active)

    def violation(self, sig, replay, no_input=False):
        if sig in self.active and self.active[sig].get("known_finding"):
            if sig not in self.hit:
                self.hit.append(sig)
                self.ctx.violation(sig, replay, no_input=no_input)  # listed in known_findings.json: prints KNOWN-FINDING
            return False
        if sig in self.active:
            if sig not in self.hit:
                self.hit.append(sig)
                e = self.active[sig]
                print("PENDING-FIX: property=%s signature=%s patch=%s (%s)" % (self.ctx.prop, sig, e.get("patch"), e.get("what", "")), flush=True)
            return False
        # one VIOLATION line (and replay file) per signature; further instances are counted
        self.counts[sig] = self.counts.get(sig, 0) + 1
        self.ctx.cov.setdefault("violations_by_signature", {})[sig] = self.counts[sig]
        if self.counts[sig] == 1:
            self.ctx.violation(sig, replay, no_input=no_input)
        return True
