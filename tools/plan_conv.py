"""Conversion of (generator AST, harness dump) into the input of the extracted solution checker (oracle/plan_main.ml).

Everything here is untrusted glue: it only re-encodes what the harness read from the planner (values, atom states,
recorded environments) in the checker's s-expression format. The checker itself (plan/Check.v, proved sound) decides.
"""
import plan_ast as A


class ConvError(Exception):
    pass


def build(prog, dump, rank_mode="positions", rank_override=None):
    """Returns (sexp_text, info) where info carries the interner and auxiliary maps for diagnostics."""
    I = A.Interner()
    prog_sx = A.sx_program(prog, I)
    envs = {e["id"]: e for e in dump["envs"]}

    def eid(x):
        return 0 if x == "core" else I("env:" + x)

    def val(v):
        k = v["k"]
        if k == "b":
            return {"T": "(b 1)", "F": "(b 0)", "U": "u"}[v["v"]]
        if k == "n":
            r, i = v["v"]["r"], v["v"]["i"]
            if r[1] == 0 or i[1] == 0:
                return "u"
            return "(n %d %d %d %d)" % (r[0], r[1], i[0], i[1])
        if k == "s":
            return "(s %d)" % I("str:" + v["v"])
        if k == "o":
            t = envs.get(v["id"])
            if t is not None and t["kind"] == "string":
                return "(s %d)" % I("str:" + t["str"])
            return "(r %d)" % eid(v["id"])
        if k == "v":
            if len(v["vals"]) != 1:
                return "u"
            t = envs.get(v["vals"][0])
            if t is not None and t["kind"] == "var":      # a variable whose value is itself an object variable: follow it
                return val({"k": "v", "vals": t.get("dom", [])})
            if t is not None and t["kind"] == "string":
                return "(s %d)" % I("str:" + t["str"])
            return "(r %d)" % eid(v["vals"][0])
        raise ConvError("value kind " + k)

    env_sx = []
    for e in dump["envs"]:
        if e["kind"] in ("bool", "arith", "string"):
            continue
        par = "none" if e["parent"] is None else str(eid(e["parent"]))
        if e["kind"] == "var" and len(e.get("dom", [])) == 1 and envs.get(e["dom"][0], {}).get("kind") != "string":
            # var_item::get: a name that is not a derived variable of the object variable itself is looked up in the instance
            # the variable denotes (whose own enclosing environments end, like the variable's, in the global one)
            par = str(eid(e["dom"][0]))
        env_sx.append("(env %d %s (vars%s))" % (eid(e["id"]), par, "".join(" (%d %s)" % (I(n), val(v)) for n, v in sorted(e["vars"].items()))))

    # hook records -> rule environments, constructor environments, disjunctions
    classes = {c["name"]: c for c in prog["classes"]}
    preds = {p["name"]: p for p in prog["preds"]}
    body_of = {"core": prog["main"]}
    disj_count = {}
    conj_info = {}      # conjunction pointer -> (disj record index, branch index)
    disj_recs = []      # dict(env, lbl, conjs, branches)
    rules = {}          # atom id -> [(pred, env)]
    ctors = {}          # item id -> [(class, env)]
    unknown = []
    for r in dump["recs"]:
        k = r["kind"]
        if k == 0:
            rules.setdefault(r["atom"], []).append((r["pred"], r["where"]))
            p = preds.get(r["pred"])
            body_of[r["where"]] = p["body"] if p else []       # builtin rules (Interval, Impulse, Use) contain no disjunction
        elif k == 4:
            ctors.setdefault(r["item"], []).append((r["ctor_of"], r["where"]))
            c = classes.get(r["ctor_of"])
            body = []
            if c:
                for cd in c["ctors"]:
                    if len(cd["params"]) == r["nargs"]:
                        body = cd["body"]
                        break
            body_of[r["where"]] = body
        elif k == 2:
            body = body_of.get(r["where"])
            if body is None:
                unknown.append(("disjunction in an environment with unknown body", r["where"]))
                continue
            n = disj_count.get(r["where"], 0)
            disj_count[r["where"]] = n + 1
            ds = [s for s in body if s[0] == "disj"]
            if n >= len(ds):
                unknown.append(("more disjunctions executed than written", r["where"]))
                continue
            rec = {"env": r["where"], "stmt": ds[n], "conjs": r["conjs"], "branches": [(None, False)] * len(r["conjs"])}
            for j, c in enumerate(r["conjs"]):
                conj_info[c] = (len(disj_recs), j)
            disj_recs.append(rec)
        elif k == 1:
            if r["conj"] not in conj_info:
                unknown.append(("disjunct applied without a recorded disjunction", r["where"]))
                continue
            di, j = conj_info[r["conj"]]
            rec = disj_recs[di]
            rec["branches"][j] = (r["where"], r["ni"] == "T")
            body_of[r["where"]] = rec["stmt"][2][j] if j < len(rec["stmt"][2]) else []
    disj_sx = ["(disj %d %d (branches%s))" % (eid(d["env"]), I("lbl:" + d["stmt"][1]),
                                              "".join(" (%s %d)" % ("none" if e is None else str(eid(e)), 1 if ch else 0) for e, ch in d["branches"]))
               for d in disj_recs]

    obj_sx, atom_sx = [], []
    atoms = {}
    for e in dump["envs"]:
        if e["kind"] == "obj":
            obj_sx.append("(obj %d %d %d (ctors%s))" % (eid(e["id"]), I(e["type"]), e["seq"],
                                                       "".join(" (%d %d)" % (I(c), eid(w)) for c, w in ctors.get(e["id"], []))))
        elif e["kind"] == "atom":
            # an atom belongs to the plan when the flaw that introduced it is active (phi true); sigma then says how it is justified.
            # (an atom outside the plan can end up with sigma false, e.g. when the final decision of pending arithmetic atoms
            # falsifies the temporal rule that is guarded by its sigma: it is not "unified", it is simply not in the plan)
            st = {"T": "active", "F": "unified", "U": "inactive"}[e["sigma"]] if e.get("phi") == "T" else "inactive"
            target = None
            for rs in e.get("resolvers", []):
                if rs["kind"] == "unify" and rs["rho"] == "T":
                    target = rs["target"]
            atoms[e["id"]] = dict(state=st, target=target, pos=e.get("pos"), fact=e.get("is_fact", False))
            atom_sx.append("(atom %d %d %s %s %d %s (rules%s))" % (eid(e["id"]), I(e["type"]), "fact" if e.get("is_fact") else "goal", st, e["seq"],
                                                                "none" if target is None else str(eid(target)),
                                                                "".join(" (%d %d)" % (I(p), eid(w)) for p, w in rules.get(e["id"], []))))
    # object variables declared at top level
    var_sx = []
    core = envs["core"]
    for s in prog["main"]:
        if s[0] == "local" and not isinstance(s[1], str) and s[3] is None:
            v = core["vars"].get(s[2])
            if v is not None and v["k"] == "v":
                ve = envs[v["id"]]
                dom = []
                for d in ve["dom0"]:
                    t = envs.get(d)
                    dom.append(I("str:" + t["str"]) if (t is not None and t["kind"] == "string") else eid(d))
                var_sx.append("(var 0 %d %d (dom%s))" % (I(s[2]), ve["seq"], "".join(" %d" % d for d in dom)))
    # object variables created for an uninstantiated field of an object / an unassigned parameter of an atom: the variable is bound
    # in that environment only (a variable handed in from elsewhere is also bound where it was declared)
    # (the owner is the object / atom created last BEFORE the variable, among those that bind it: a variable that was declared elsewhere and
    # only handed in exists before the atom / object it is handed to)
    binders = {}
    for e in dump["envs"]:
        for n, v in e["vars"].items():
            if v["k"] == "v":
                binders.setdefault(v["id"], []).append((e, n))
    for vid, bs in sorted(binders.items()):
        ve = envs[vid]
        cands = [(e["seq"], e, n) for e, n in bs if e["kind"] in ("obj", "atom") and e["seq"] < ve["seq"] and n != "tau"]
        if not cands:
            continue
        _, e, n = max(cands, key=lambda t: t[0])
        dom = []
        for d in ve["dom0"]:
            t = envs.get(d)
            dom.append(I("str:" + t["str"]) if (t is not None and t["kind"] == "string") else eid(d))
        var_sx.append("(var %d %d %d (dom%s))" % (eid(e["id"]), I(n), ve["seq"], "".join(" %d" % d for d in dom)))
    # acyclicity certificate
    rank = {}
    if rank_override is not None:
        rank = rank_override
    else:
        for a, inf in atoms.items():
            if inf["pos"] is None:
                continue
            lb = inf["pos"][0]
            if lb < 0:
                lb = 0
            rank[eid(a)] = 2 * lb + (0 if inf["state"] == "active" else 1)
    rank_sx = ["(%d %d)" % (a, r) for a, r in sorted(rank.items())]
    sol_sx = "(sol (envs %s) (objs %s) (atoms %s) (disjs %s) (vars %s) (rank %s))" % (
        " ".join(env_sx), " ".join(obj_sx), " ".join(atom_sx), " ".join(disj_sx), " ".join(var_sx), " ".join(rank_sx))
    info = {"interner": I, "atoms": atoms, "unknown": unknown, "eid": eid}
    return "(input %s %s)" % (prog_sx, sol_sx), info
