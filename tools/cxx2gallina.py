#!/usr/bin/env python3
"""clang-AST -> Gallina translator for the straight-line value-class subset of pstlab/oRatio.

Usage (library): translate(spec) -> (gallina_text, report)

Accepted C++ subset (anything else raises Unsupported, which the caller reports as a broken tie):
  * functions / methods / constructors whose parameters and results are `I` (long), `bool`, or one of the
    record classes given in the spec (rational, inf_rational);
  * statements: compound, if/else, return, local declarations, `=` and compound assignment on fields and
    locals, calls of mutating methods as statements;
  * expressions: integer literals, + - * / % (C truncation -> Z.quot / Z.rem) and comparisons on `I`,
    && || ! ?: on bool, member access, std::gcd / std::lcm (-> Z.gcd / Z.lcm), calls of other translated
    functions (resolved through clang's declaration ids, so overloads are exact), constructors.
Mutation is rendered by re-binding (`let this := set_... this v in ...`); an `if` whose branches fall through
duplicates the continuation, so no join points are needed. A non-const method returns the new `*this`.
Asserts are compiled out (-DNDEBUG): preconditions are stated in the theorems, not in the model.
"""
import json
import os
import re
import subprocess
import sys


class Unsupported(Exception):
    pass


OPNAME = {"+": "add", "-": "sub", "*": "mul", "/": "div", "+=": "addeq", "-=": "subeq", "*=": "muleq", "/=": "diveq",
          "<": "lt", "<=": "le", "==": "eq", "!=": "ne", ">=": "ge", ">": "gt", "!": "not"}


def parse_docs(text):
    dec = json.JSONDecoder()
    i, docs = 0, []
    while i < len(text):
        while i < len(text) and text[i].isspace():
            i += 1
        if i >= len(text):
            break
        o, j = dec.raw_decode(text, i)
        docs.append(o)
        i = j
    return docs


def clang_ast(src, incs, filt, defines=("NDEBUG",)):
    cmd = ["clang++", "-std=c++17", "-fsyntax-only", "-w"] + ["-D" + d for d in defines]
    for d in incs:
        cmd += ["-I", d]
    cmd += ["-Xclang", "-ast-dump=json", "-Xclang", "-ast-dump-filter=" + filt, "-x", "c++", src]
    p = subprocess.run(cmd, stdout=subprocess.PIPE, stderr=subprocess.PIPE, text=True, timeout=300)
    if p.returncode != 0:
        raise Unsupported("clang failed on %s: %s" % (src, p.stderr[-2000:]))
    return parse_docs(p.stdout)


class Translator:
    def __init__(self, classes, skip=()):
        # classes: {cxx_name: (short, [(field, fieldtype_tag)])}, e.g. {'rational': ('rat', [('num','int'),('den','int')])}
        self.classes = classes
        self.skip = set(skip)
        self.fn = {}        # decl id -> gallina name
        self.defs = {}      # gallina name -> dict(node, cls, kind, params, mut, ret)
        self.consts = {}    # decl id -> gallina name
        self.const_defs = {}
        self.order = []
        self.out = {}
        self.deps = {}
        self.errors = []
        self.sigs = {}

    # ---- type tags ---------------------------------------------------------------------------
    def tag(self, qual):
        q = qual.replace("const ", "").replace("&", "").replace("smt::", "").strip()
        if q in ("I", "long", "int"):
            return "int"
        if q == "bool":
            return "bool"
        if q == "void":
            return "void"
        if q in self.classes:
            return self.classes[q][0]
        raise Unsupported("type " + qual)

    def gtype(self, tag):
        return {"int": "Z", "bool": "bool"}.get(tag, tag)

    # ---- collection --------------------------------------------------------------------------
    def collect(self, docs):
        for d in docs:
            self._collect(d, None)

    def _collect(self, n, cls):
        k = n.get("kind")
        if k == "CXXRecordDecl":
            name = n.get("name")
            for c in n.get("inner", []):
                self._collect(c, name if name in self.classes else cls)
            return
        if k == "FriendDecl":
            for c in n.get("inner", []):
                self._collect(c, None if c.get("kind") == "FunctionDecl" else cls)
            return
        if k == "VarDecl" and n.get("name") in ("ZERO", "ONE", "POSITIVE_INFINITY", "NEGATIVE_INFINITY"):
            owner = self._owner(n, cls)
            if owner is None:
                return
            g = "%s_%s" % (self.classes[owner][0], n["name"])
            self.consts[n["id"]] = g
            if "previousDecl" in n:
                self.consts[n["previousDecl"]] = g
            init = [c for c in n.get("inner", []) if c.get("kind", "").endswith("Expr")]
            if init:
                self.const_defs[g] = (n, owner)
            return
        if k in ("CXXMethodDecl", "FunctionDecl", "CXXConstructorDecl"):
            name = n.get("name")
            if n.get("isImplicit") or name in self.skip or name.startswith("~"):
                return
            owner = self._owner(n, cls) if k != "FunctionDecl" else None
            if k != "FunctionDecl" and owner is None:
                return
            try:
                g = self._gname(n, owner, k)
            except Unsupported:
                return  # signature outside the subset (e.g. std::string): not part of the model
            self.fn[n["id"]] = g
            if "previousDecl" in n:
                self.fn[n["previousDecl"]] = g
            has_body = any(c.get("kind") == "CompoundStmt" for c in n.get("inner", []))
            if has_body:
                self.defs[g] = dict(node=n, cls=owner, kind=k)

    def _owner(self, n, cls):
        if cls in self.classes:
            return cls
        # out-of-line definition: parentDeclContextId is not resolved here; use the qualified type of `this`
        m = None
        for c in self._walk(n):
            if c.get("kind") == "CXXThisExpr":
                m = re.sub(r"[ *]|const|smt::", "", c["type"]["qualType"])
                break
        if m in self.classes:
            return m
        # constructors / static members: name or type equals a class name
        nm = n.get("name")
        if nm in self.classes:
            return nm
        t = n.get("type", {}).get("qualType", "")
        tt = re.sub(r"const |smt::", "", t).strip()
        if tt in self.classes:
            return tt
        # methods that never mention `this` explicitly (e.g. `return operator+(-rhs)` does mention it; but
        # `operator!=(I)` uses members -> CXXThisExpr exists, implicit). Fall back on mangledName.
        mn = n.get("mangledName", "")
        for cname in self.classes:
            if ("%d%s" % (len(cname), cname)) in mn:
                return cname
        return None

    def _walk(self, n):
        yield n
        for c in n.get("inner", []):
            if isinstance(c, dict):
                yield from self._walk(c)

    def _params(self, n):
        return [c for c in n.get("inner", []) if c.get("kind") == "ParmVarDecl"]

    def _gname(self, n, owner, kind):
        ptags = [self.tag(p["type"]["qualType"]) for p in self._params(n)]
        name = n["name"]
        if kind == "CXXConstructorDecl":
            short = self.classes[owner][0]
            if ptags == [short]:
                raise Unsupported("copy ctor")
            return "_".join([short, "ctor"] + ptags)
        ret = n["type"]["qualType"].split("(")[0].strip()
        self.tag(ret)  # must be in the subset
        if name.startswith("operator"):
            op = name[len("operator"):]
            if op not in OPNAME:
                raise Unsupported("operator " + op)
            o = OPNAME[op]
            if owner:
                short = self.classes[owner][0]
                if not ptags:
                    return "%s_neg" % short if op == "-" else "%s_%s" % (short, o)
                return "%s_%s_%s" % (short, o, ptags[0])
            return "%s_%s_%s" % (ptags[0], o, ptags[1])
        if owner:
            return "_".join([self.classes[owner][0], name] + ptags)
        return "_".join([name] + ptags)

    # ---- expressions -------------------------------------------------------------------------
    def E(self, n, cx):
        k = n["kind"]
        inner = n.get("inner", [])
        if k in ("ImplicitCastExpr", "ParenExpr", "ExprWithCleanups", "MaterializeTemporaryExpr", "CXXBindTemporaryExpr",
                 "CXXStaticCastExpr", "CXXFunctionalCastExpr", "ConstantExpr"):
            ck = n.get("castKind")
            if ck not in (None, "LValueToRValue", "NoOp", "IntegralCast", "ConstructorConversion", "FunctionToPointerDecay",
                          "DerivedToBase", "UncheckedDerivedToBase"):
                raise Unsupported("cast " + str(ck))
            if ck == "IntegralCast":
                src = inner[0].get("type", {}).get("qualType", "")
                if src == "bool":
                    return "(if %s then 1%%Z else 0%%Z)" % self.E(inner[0], cx)
            return self.E(inner[0], cx)
        if k == "IntegerLiteral":
            return "(%s)%%Z" % n["value"]
        if k == "CXXBoolLiteralExpr":
            return "true" if n["value"] else "false"
        if k == "DeclRefExpr":
            rd = n["referencedDecl"]
            if rd["id"] in self.consts:
                cx["deps"].add(self.consts[rd["id"]])
                return self.consts[rd["id"]]
            if rd["kind"] in ("ParmVarDecl", "VarDecl", "BindingDecl"):
                return self.vname(rd["name"])
            raise Unsupported("reference to %s %s" % (rd["kind"], rd.get("name")))
        if k == "CXXThisExpr":
            return "this"
        if k == "UnaryOperator":
            op = n["opcode"]
            a = self.E(inner[0], cx)
            if op == "*" and inner[0]["kind"] == "CXXThisExpr":
                return "this"
            if op == "-":
                return "(Z.opp %s)" % a
            if op == "!":
                return "(negb %s)" % a
            if op == "+":
                return a
            raise Unsupported("unary " + op)
        if k == "BinaryOperator":
            op = n["opcode"]
            a, b = self.E(inner[0], cx), self.E(inner[1], cx)
            lt = inner[0].get("type", {}).get("qualType", "")
            if op in ("&&",):
                return "(andb %s %s)" % (a, b)
            if op in ("||",):
                return "(orb %s %s)" % (a, b)
            isbool = lt == "bool"
            if op == "|" and isbool:
                return "(orb %s %s)" % (a, b)
            if op == "&" and isbool:
                return "(andb %s %s)" % (a, b)
            m = {"+": "Z.add", "-": "Z.sub", "*": "Z.mul", "/": "Z.quot", "%": "Z.rem", "<": "Z.ltb", "<=": "Z.leb",
                 "==": "Z.eqb", ">=": "Z.geb", ">": "Z.gtb"}
            if op == "!=":
                return "(negb (%s %s %s))" % ("Bool.eqb" if isbool else "Z.eqb", a, b)
            if op == "==" and isbool:
                return "(Bool.eqb %s %s)" % (a, b)
            if op in m:
                return "(%s %s %s)" % (m[op], a, b)
            raise Unsupported("binary " + op)
        if k == "ConditionalOperator":
            return "(if %s then %s else %s)" % (self.E(inner[0], cx), self.E(inner[1], cx), self.E(inner[2], cx))
        if k == "MemberExpr":
            base = inner[0]
            return "(%s %s)" % (self.proj(base, n["name"]), self.E(base, cx))
        if k == "CallExpr":
            callee = self._callee(inner[0])
            nm = callee.get("name")
            args = [self.E(a, cx) for a in inner[1:]]
            if nm == "gcd":
                return "(Z.gcd %s %s)" % tuple(args)
            if nm == "lcm":
                return "(Z.lcm %s %s)" % tuple(args)
            g = self.fn.get(callee["id"])
            if not g:
                raise Unsupported("call to " + str(nm))
            cx["deps"].add(g)
            return "(%s %s)" % (g, " ".join(args))
        if k == "CXXMemberCallExpr":
            me = inner[0]
            g = self.fn.get(me.get("referencedMemberDecl"))
            if not g:
                raise Unsupported("member call " + str(me.get("name")))
            cx["deps"].add(g)
            args = [self.E(me["inner"][0], cx)] + [self.E(a, cx) for a in inner[1:]]
            return "(%s %s)" % (g, " ".join(args))
        if k == "CXXOperatorCallExpr":
            callee = self._callee(inner[0])
            g = self.fn.get(callee["id"])
            if not g:
                raise Unsupported("operator call " + str(callee.get("name")))
            cx["deps"].add(g)
            return "(%s %s)" % (g, " ".join(self.E(a, cx) for a in inner[1:]))
        if k in ("CXXConstructExpr", "CXXTemporaryObjectExpr"):
            return self.ctor(n, cx)
        raise Unsupported("expression kind " + k)

    def _callee(self, n):
        while n["kind"] in ("ImplicitCastExpr", "ParenExpr"):
            n = n["inner"][0]
        if n["kind"] != "DeclRefExpr":
            raise Unsupported("callee " + n["kind"])
        return n["referencedDecl"]

    def ctor(self, n, cx):
        cls = re.sub(r"const |smt::", "", n["type"]["qualType"]).strip()
        if cls not in self.classes:
            raise Unsupported("construct " + cls)
        short = self.classes[cls][0]
        ct = n.get("ctorType", {}).get("qualType", "")
        m = re.match(r"void \((.*)\)", ct)
        ptags = [self.tag(p) for p in m.group(1).split(",")] if m and m.group(1).strip() else []
        args = [self.E(a, cx) for a in n.get("inner", [])]
        if ptags == [short]:
            return args[0]  # copy / move
        g = "_".join([short, "ctor"] + ptags)
        if g not in self.defs and g not in self.out:
            # defaulted default constructor of a class with default member initialisers only
            if not ptags and n.get("ctorType") is not None:
                g0 = self.default_ctor(cls)
                return g0
            raise Unsupported("constructor " + g)
        cx["deps"].add(g)
        return "(%s %s)" % (g, " ".join(args)) if args else g

    def default_ctor(self, cls):
        short, fields = self.classes[cls]
        parts = []
        for f, t in fields:
            if t == "int":
                raise Unsupported("default ctor with int field")
            sub = [c for c, v in self.classes.items() if v[0] == t][0]
            parts.append("%s_ctor" % t)
        return "(mk_%s %s)" % (short, " ".join(parts))

    def proj(self, base, field):
        cls = re.sub(r"const |smt::|\*|&", "", base.get("type", {}).get("qualType", "")).strip()
        if cls not in self.classes:
            raise Unsupported("member of " + cls)
        return "%s_%s" % (self.classes[cls][0], field)

    def vname(self, s):
        return {"this": "this_", "num": "num_", "den": "den_", "rat": "rat_", "inf": "inf_"}.get(s, s)

    # ---- statements --------------------------------------------------------------------------
    def assign(self, lhs, val, cx):
        """returns (var, newvalue) for `lhs = val`."""
        while lhs["kind"] in ("ParenExpr", "ImplicitCastExpr"):
            lhs = lhs["inner"][0]
        if lhs["kind"] == "DeclRefExpr":
            return self.vname(lhs["referencedDecl"]["name"]), val
        if lhs["kind"] == "UnaryOperator" and lhs["opcode"] == "*" and lhs["inner"][0]["kind"] == "CXXThisExpr":
            return "this", val
        if lhs["kind"] == "CXXThisExpr":
            return "this", val
        if lhs["kind"] == "MemberExpr":
            base = lhs["inner"][0]
            setter = "set_" + self.proj(base, lhs["name"])
            bv, _ = self.assign(base, None, cx)
            cur = self.E(base, cx)
            return bv, "(%s %s %s)" % (setter, cur, val) if bv == cur else self._nested(base, setter, val, cx)
        raise Unsupported("assignment target " + lhs["kind"])

    def _nested(self, base, setter, val, cx):
        # base is itself a member of a variable: set outer (set inner)
        inner_new = "(%s %s %s)" % (setter, self.E(base, cx), val)
        v, nv = self.assign(base, inner_new, cx)
        return nv

    def S(self, stmts, cx):
        if not stmts:
            if cx["mut"]:
                return "this"
            raise Unsupported("control reaches end of non-void function")
        s, rest = stmts[0], stmts[1:]
        k = s["kind"]
        inner = s.get("inner", [])
        if k == "CompoundStmt":
            return self.S(inner + rest, cx)
        if k == "NullStmt":
            return self.S(rest, cx)
        if k == "ReturnStmt":
            if not inner:
                return "this" if cx["mut"] else "tt"
            return self.E(inner[0], cx)
        if k == "IfStmt":
            if s.get("hasInit") or s.get("hasVar"):
                raise Unsupported("if with init")
            c = self.E(inner[0], cx)
            th = self.S([inner[1]] + rest, cx)
            el = self.S(([inner[2]] if len(inner) > 2 else []) + rest, cx)
            return "(if %s\n then %s\n else %s)" % (c, th, el)
        if k == "DeclStmt":
            body = None
            lets = []
            for d in inner:
                if d["kind"] != "VarDecl":
                    raise Unsupported("declaration " + d["kind"])
                init = [c for c in d.get("inner", []) if "Expr" in c["kind"] or c["kind"].endswith("Literal") or c["kind"].endswith("Operator")]
                tg = self.tag(d["type"]["qualType"])
                if init:
                    v = self.E(init[0], cx)
                else:
                    if tg in ("int", "bool"):
                        raise Unsupported("uninitialised scalar " + d["name"])
                    v = "%s_ctor" % tg
                    cx["deps"].add(v)
                lets.append("let %s : %s := %s in" % (self.vname(d["name"]), self.gtype(tg), v))
            return "\n".join(lets) + "\n" + self.S(rest, cx)
        if k == "BinaryOperator" and s["opcode"] == "=":
            v, nv = self.assign(inner[0], self.E(inner[1], cx), cx)
            return "let %s := %s in\n%s" % (v, nv, self.S(rest, cx))
        if k == "CompoundAssignOperator":
            op = s["opcode"][:-1]
            m = {"+": "Z.add", "-": "Z.sub", "*": "Z.mul", "/": "Z.quot"}
            if op not in m:
                raise Unsupported("compound " + s["opcode"])
            cur = self.E(inner[0], cx)
            v, nv = self.assign(inner[0], "(%s %s %s)" % (m[op], cur, self.E(inner[1], cx)), cx)
            return "let %s := %s in\n%s" % (v, nv, self.S(rest, cx))
        if k == "CXXMemberCallExpr":
            me = inner[0]
            g = self.fn.get(me.get("referencedMemberDecl"))
            if not g or not self.is_mut(g):
                raise Unsupported("statement call of " + str(me.get("name")))
            v, nv = self.assign(me["inner"][0], self.E(s, cx), cx)
            return "let %s := %s in\n%s" % (v, nv, self.S(rest, cx))
        if k == "CXXOperatorCallExpr":
            callee = self._callee(inner[0])
            g = self.fn.get(callee["id"])
            if not g or not self.is_mut(g):
                raise Unsupported("statement operator call " + str(callee.get("name")))
            v, nv = self.assign(inner[1], self.E(s, cx), cx)
            return "let %s := %s in\n%s" % (v, nv, self.S(rest, cx))
        if k in ("CXXStaticCastExpr", "CStyleCastExpr", "CXXFunctionalCastExpr") and s.get("castKind") == "ToVoid":
            return self.S(rest, cx)  # `assert` compiled out by NDEBUG: (static_cast<void>(0))
        if k in ("ExprWithCleanups", "ParenExpr", "ImplicitCastExpr"):
            return self.S(inner + rest, cx)
        raise Unsupported("statement kind " + k)

    def is_mut(self, g):
        d = self.defs.get(g)
        if not d:
            return False
        n = d["node"]
        if d["kind"] != "CXXMethodDecl":
            return False
        q = n["type"]["qualType"]
        return not re.search(r"\)\s*const", q)

    # ---- definitions -------------------------------------------------------------------------
    def translate_fn(self, g):
        d = self.defs[g]
        n, cls, kind = d["node"], d["cls"], d["kind"]
        cx = dict(deps=set(), mut=False)
        params = []
        if kind == "CXXMethodDecl":
            params.append("(this : %s)" % self.classes[cls][0])
            cx["mut"] = self.is_mut(g)
        for p in self._params(n):
            params.append("(%s : %s)" % (self.vname(p["name"]), self.gtype(self.tag(p["type"]["qualType"]))))
        body = [c for c in n["inner"] if c["kind"] == "CompoundStmt"][0]
        if kind == "CXXConstructorDecl":
            short, fields = self.classes[cls]
            inits = {}
            for c in n["inner"]:
                if c["kind"] == "CXXCtorInitializer":
                    fld = c["anyInit"]["name"]
                    inits[fld] = self.E(c["inner"][0], cx)
            vals = []
            for f, t in fields:
                if f in inits:
                    vals.append(inits[f])
                else:
                    if t == "int":
                        raise Unsupported("field %s not initialised" % f)
                    vals.append("%s_ctor" % t)
                    cx["deps"].add("%s_ctor" % t)
            cx["mut"] = True
            txt = "let this := mk_%s %s in\n%s" % (short, " ".join(vals), self.S([body], cx))
            ret = short
        else:
            ret_q = n["type"]["qualType"].split("(")[0].strip()
            rt = self.tag(ret_q)
            ret = self.classes[cls][0] if cx["mut"] else self.gtype(rt)
            if cx["mut"] and rt not in ("void", self.classes[cls][0]):
                raise Unsupported("mutating method returning " + ret_q)
            txt = self.S([body], cx)
        cx["deps"].discard(g)
        self.deps[g] = cx["deps"]
        self.out[g] = "Definition %s %s : %s :=\n%s." % (g, " ".join(params), ret, txt)
        self.sigs[g] = dict(name=g, cxx=n["name"], kind=kind, cls=cls, mut=bool(cx["mut"]) and kind == "CXXMethodDecl",
                            params=[self.tag(p["type"]["qualType"]) for p in self._params(n)], ret=ret,
                            access=n.get("access"))

    def translate_const(self, g):
        n, owner = self.const_defs[g]
        cx = dict(deps=set(), mut=False)
        init = [c for c in n.get("inner", []) if c.get("kind", "").endswith("Expr")][0]
        self.deps[g] = cx["deps"]
        self.out[g] = "Definition %s : %s := %s." % (g, self.classes[owner][0], self.E(init, cx))

    def run(self):
        for g in list(self.defs):
            try:
                self.translate_fn(g)
            except Unsupported as e:
                self.errors.append((g, str(e)))
        for g in list(self.const_defs):
            try:
                self.translate_const(g)
            except Unsupported as e:
                self.errors.append((g, str(e)))
        # topological order
        done, order = set(), []

        def visit(g, stack=()):
            if g in done or g not in self.out:
                return
            if g in stack:
                raise Unsupported("recursion through " + g)
            for d in sorted(self.deps.get(g, ())):
                visit(d, stack + (g,))
            done.add(g)
            order.append(g)
        for g in sorted(self.out):
            visit(g)
        return order


def record_prelude(classes):
    out = []
    for cxx, (short, fields) in classes.items():
        fs = "; ".join("%s_%s : %s" % (short, f, "Z" if t == "int" else t) for f, t in fields)
        out.append("Record %s := mk_%s { %s }." % (short, short, fs))
        for i, (f, t) in enumerate(fields):
            args = " ".join("(%s_%s r)" % (short, g) if g != f else "v" for g, _ in fields)
            out.append("Definition set_%s_%s (r : %s) (v : %s) : %s := mk_%s %s." % (short, f, short, "Z" if t == "int" else t, short, short, args))
    return "\n".join(out)


def translate(sources, classes, incs, filt="smt::", skip=("to_string",), expect=()):
    """sources: list of files to run clang on. Returns (text, report) ; raises Unsupported on a broken tie."""
    tr = Translator(classes, skip)
    for s in sources:
        tr.collect(clang_ast(s, incs, filt))
    order = tr.run()
    missing = [e for e in expect if e not in tr.out]
    report = dict(functions=order, errors=tr.errors, missing=missing, sigs=[tr.sigs[g] for g in order if g in tr.sigs], consts=sorted(tr.const_defs))
    if tr.errors or missing:
        raise Unsupported("translator could not handle: %s ; missing: %s" % (tr.errors, missing))
    body = "\n\n".join(tr.out[g] for g in order)
    text = ("(* GENERATED by tools/cxx2gallina.py from %s -- do not edit; regenerated on every run *)\n"
            "From Coq Require Import ZArith Bool.\nLocal Open Scope Z_scope.\n\n%s\n\n%s\n"
            % (", ".join(os.path.relpath(s, os.environ.get("ORATIO_REPO", "/repo")) for s in sources), record_prelude(classes), body))
    return text, report


if __name__ == "__main__":
    repo = os.environ.get("ORATIO_REPO", "/repo")
    here = os.path.dirname(os.path.dirname(os.path.abspath(__file__)))
    classes = {"rational": ("rat", [("num", "int"), ("den", "int")]),
               "inf_rational": ("irat", [("rat", "rat"), ("inf", "rat")])}
    incs = [os.path.join(here, "harness/include"), os.path.join(repo, "smt"), os.path.join(repo, "smt/arith")]
    which = sys.argv[1] if len(sys.argv) > 1 else "arith"
    text, rep = translate([os.path.join(repo, "smt/arith/rational.cpp"), os.path.join(repo, "smt/arith/inf_rational.h")], classes, incs)
    sys.stdout.write(text)
    sys.stderr.write(json.dumps(rep, indent=1) + "\n")
